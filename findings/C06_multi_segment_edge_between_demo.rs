    #[test]
    fn vf_edge_between_after_two_compactions() {
        // a -> n5, n6, n7 are frozen by the first compaction, a -> n1 by the second: the frozen
        // tier now has two segments and neighbors_collected(a) = [n5, n6, n7, n1] (unsorted).
        let mut store = GraphStore::new();
        let a = store.create_node("N");
        let ns: Vec<_> = (0..8).map(|_| store.create_node("N")).collect();
        store.create_edge(a, ns[5], "R").unwrap();
        store.create_edge(a, ns[6], "R").unwrap();
        store.create_edge(a, ns[7], "R").unwrap();
        store.compact_adjacency();
        let e = store.create_edge(a, ns[1], "R").unwrap();
        assert_eq!(store.edge_between(a, ns[1], None), Some(e));
        store.compact_adjacency();
        assert_eq!(store.get_outgoing_edges(a).len(), 4);
        assert_eq!(store.edge_between(a, ns[1], None), Some(e), "live edge lost by edge_between after the second compaction");
        assert_eq!(store.edges_between(a, ns[1], None), vec![e]);
    }
