#!/bin/bash
# Build the sgfacts driver and the warm nightly target dir (deps only; ~7 min cold), offline.
set -e
cd "$(dirname "$0")"
export CARGO_NET_OFFLINE=true
mkdir -p .work evidence
(cd sgfacts && cargo build --offline 2>&1 | tail -2)
# warm dependency build with the same flags the extraction uses (wrapper only affects members)
SYSROOT=$(rustc +nightly --print sysroot)

python3 - <<'PY'
import sys, os
sys.path.insert(0, os.getcwd())
from sgcheck import facts
d = facts.extract(tier="quick")
print("facts:", d)
PY
