// sgfacts — rustc_private fact extractor for the samyama-graph static checks.
//
// Used as RUSTC_WORKSPACE_WRAPPER: argv = [sgfacts, <rustc>, <rustc args...>].
// For every workspace-member crate it writes, into $SGFACTS_OUT, one JSON-lines file
// `<crate>.<lib|bin>.<hash>.jsonl` holding: fn records (metadata, resolved callees, field
// effects), mir records (per-body CFG with resolved calls), adt records, arms records
// (HIR match arms with resolved patterns and callee sets). One write per process.
#![feature(rustc_private)]
#![allow(clippy::all)]

extern crate rustc_abi;
extern crate rustc_ast;
extern crate rustc_data_structures;
extern crate rustc_driver;
extern crate rustc_hir;
extern crate rustc_interface;
extern crate rustc_middle;
extern crate rustc_session;
extern crate rustc_span;

use rustc_driver::Compilation;
use rustc_hir as hir;
use rustc_hir::def::{DefKind, Res};
use rustc_hir::def_id::{DefId, LOCAL_CRATE};
use rustc_hir::intravisit::{self, Visitor as HirVisitor};
use rustc_interface::interface::Compiler;
use rustc_middle::mir::visit::{MutatingUseContext, NonMutatingUseContext, PlaceContext, Visitor as MirVisitor};
use rustc_middle::mir::{self, Body, Operand, Place, ProjectionElem, Rvalue, StatementKind, TerminatorKind};
use rustc_middle::ty::print::{with_crate_prefix, with_no_trimmed_paths, with_no_visible_paths};
use rustc_middle::ty::{self, Instance, Ty, TyCtxt, TypingEnv};
use rustc_span::{ExpnKind, Span};
use std::collections::BTreeSet;
use std::fmt::Write as _;

// ------------------------------------------------------------------------------------
// tiny JSON helpers
// ------------------------------------------------------------------------------------
fn jstr(out: &mut String, s: &str) {
    out.push('"');
    for c in s.chars() {
        match c {
            '"' => out.push_str("\\\""),
            '\\' => out.push_str("\\\\"),
            '\n' => out.push_str("\\n"),
            '\r' => out.push_str("\\r"),
            '\t' => out.push_str("\\t"),
            c if (c as u32) < 0x20 => {
                let _ = write!(out, "\\u{:04x}", c as u32);
            }
            c => out.push(c),
        }
    }
    out.push('"');
}
fn js(s: &str) -> String {
    let mut o = String::with_capacity(s.len() + 2);
    jstr(&mut o, s);
    o
}
fn jlist(items: &[String]) -> String {
    let mut o = String::from("[");
    for (i, it) in items.iter().enumerate() {
        if i > 0 {
            o.push(',');
        }
        o.push_str(it);
    }
    o.push(']');
    o
}

/// Workspace crates are printed by their defining path (not through re-exports such as
/// `samyama::GraphStore`), so that a function has the same name from every crate.
fn is_workspace(tcx: TyCtxt<'_>, did: DefId) -> bool {
    did.is_local() || tcx.crate_name(did.krate).as_str().starts_with("samyama")
}
fn path_of(tcx: TyCtxt<'_>, did: DefId) -> String {
    if is_workspace(tcx, did) {
        with_no_visible_paths!(with_no_trimmed_paths!(with_crate_prefix!(tcx.def_path_str(did))))
    } else {
        with_no_trimmed_paths!(with_crate_prefix!(tcx.def_path_str(did)))
    }
}
fn path_with_args<'tcx>(tcx: TyCtxt<'tcx>, did: DefId, args: ty::GenericArgsRef<'tcx>) -> String {
    if is_workspace(tcx, did) {
        with_no_visible_paths!(with_no_trimmed_paths!(with_crate_prefix!(tcx.def_path_str_with_args(did, args))))
    } else {
        with_no_trimmed_paths!(with_crate_prefix!(tcx.def_path_str_with_args(did, args)))
    }
}
fn ty_str(ty: Ty<'_>) -> String {
    with_no_trimmed_paths!(with_crate_prefix!(ty.to_string()))
}

struct SpanInfo {
    line: usize,
    file: String,
    exp: u8, // 0 none, 1 macro, 2 desugaring
    expname: String,
}
fn span_info(tcx: TyCtxt<'_>, span: Span) -> SpanInfo {
    let sm = tcx.sess.source_map();
    let mut exp = 0u8;
    let mut expname = String::new();
    if span.from_expansion() {
        let ed = span.ctxt().outer_expn_data();
        match ed.kind {
            ExpnKind::Macro(_, name) => {
                exp = 1;
                expname = name.to_string();
            }
            ExpnKind::Desugaring(k) => {
                exp = 2;
                expname = format!("{:?}", k);
            }
            _ => {
                exp = 1;
            }
        }
    }
    // report the line of the outermost call site so that diagnostics point into user code
    let cs = span.source_callsite();
    let lo = sm.lookup_char_pos(cs.lo());
    let file = match &lo.file.name {
        rustc_span::FileName::Real(r) => match r.local_path() {
            Some(p) => p.to_string_lossy().to_string(),
            None => format!("{:?}", r),
        },
        other => format!("{:?}", other),
    };
    SpanInfo { line: lo.line, file, exp, expname }
}

// ------------------------------------------------------------------------------------
// MIR dumping
// ------------------------------------------------------------------------------------
struct Dumper<'a, 'tcx> {
    tcx: TyCtxt<'tcx>,
    body: &'a Body<'tcx>,
    env: TypingEnv<'tcx>,
    calls: BTreeSet<String>,
    closures: BTreeSet<String>,
    ncalls: usize,
    nunres: usize,
}

impl<'a, 'tcx> Dumper<'a, 'tcx> {
    fn place(&self, p: &Place<'tcx>) -> String {
        // [local, [proj...]]
        let mut projs: Vec<String> = Vec::new();
        for (base, elem) in p.iter_projections() {
            match elem {
                ProjectionElem::Deref => projs.push("\"*\"".into()),
                ProjectionElem::Field(f, _) => {
                    let bty = base.ty(&self.body.local_decls, self.tcx);
                    let name = match bty.ty.kind() {
                        ty::Adt(def, _) => {
                            let v = bty.variant_index.unwrap_or(rustc_abi::FIRST_VARIANT);
                            let vd = def.variant(v);
                            let an = path_of(self.tcx, def.did());
                            if def.is_enum() {
                                format!("f:{}::{}.{}", an, vd.name, vd.fields[f].name)
                            } else {
                                format!("f:{}.{}", an, vd.fields[f].name)
                            }
                        }
                        ty::Tuple(_) => format!("t:{}", f.as_usize()),
                        ty::Closure(..) | ty::Coroutine(..) | ty::CoroutineClosure(..) => format!("u:{}", f.as_usize()),
                        _ => format!("t:{}", f.as_usize()),
                    };
                    projs.push(js(&name));
                }
                ProjectionElem::Index(l) => projs.push(format!("\"i:{}\"", l.as_usize())),
                ProjectionElem::ConstantIndex { offset, from_end, .. } => {
                    projs.push(format!("\"c:{}{}\"", if from_end { "-" } else { "" }, offset))
                }
                ProjectionElem::Subslice { .. } => projs.push("\"s\"".into()),
                ProjectionElem::Downcast(name, idx) => {
                    let n = match name {
                        Some(n) => n.to_string(),
                        None => format!("{}", idx.as_usize()),
                    };
                    projs.push(js(&format!("d:{}", n)));
                }
                _ => projs.push("\"o\"".into()),
            }
        }
        format!("[{},{}]", p.local.as_usize(), jlist(&projs))
    }

    fn operand(&mut self, o: &Operand<'tcx>) -> String {
        match o {
            Operand::Copy(p) => format!("[\"c\",{}]", self.place(p)),
            Operand::Move(p) => format!("[\"m\",{}]", self.place(p)),
            Operand::Constant(c) => {
                let ty = c.const_.ty();
                if let ty::FnDef(did, args) = ty.kind() {
                    let p = path_of(self.tcx, *did);
                    self.calls.insert(p.clone());
                    let _ = args;
                    return format!("[\"k\",{},\"fn\"]", js(&format!("fn:{}", p)));
                }
                let s = with_no_trimmed_paths!(format!("{}", c));
                let mut val = String::new();
                if let Some(si) = c.const_.try_eval_scalar_int(self.tcx, self.env) {
                    // numeric value as decimal text (u128) plus size
                    let sz = si.size();
                    let v = si.to_bits(sz);
                    val = format!("{}", v);
                }
                format!("[\"k\",{},{},{}]", js(&s), js(&ty_str(ty)), js(&val))
            }
            #[allow(unreachable_patterns)]
            _ => "[\"o\"]".into(),
        }
    }

    fn rvalue(&mut self, rv: &Rvalue<'tcx>) -> String {
        match rv {
            Rvalue::Use(o, ..) => format!("[\"use\",{}]", self.operand(o)),
            Rvalue::Repeat(o, _) => format!("[\"repeat\",{}]", self.operand(o)),
            Rvalue::Ref(_, bk, p) => {
                let m = match bk {
                    mir::BorrowKind::Mut { .. } => 1,
                    _ => 0,
                };
                format!("[\"ref\",{},{}]", m, self.place(p))
            }
            Rvalue::RawPtr(k, p) => format!("[\"rawptr\",{},{}]", js(&format!("{:?}", k)), self.place(p)),
            Rvalue::Cast(k, o, t) => {
                let from = o.ty(&self.body.local_decls, self.tcx);
                format!(
                    "[\"cast\",{},{},{},{}]",
                    js(&format!("{:?}", k)),
                    self.operand(o),
                    js(&ty_str(from)),
                    js(&ty_str(*t))
                )
            }
            Rvalue::BinaryOp(op, ab) => {
                let (a, b) = &**ab;
                format!("[\"bin\",{},{},{}]", js(&format!("{:?}", op)), self.operand(a), self.operand(b))
            }
            Rvalue::UnaryOp(op, a) => format!("[\"un\",{},{}]", js(&format!("{:?}", op)), self.operand(a)),
            Rvalue::Discriminant(p) => format!("[\"discr\",{}]", self.place(p)),
            Rvalue::Aggregate(kind, ops) => {
                let k = match &**kind {
                    mir::AggregateKind::Array(_) => "array".to_string(),
                    mir::AggregateKind::Tuple => "tuple".to_string(),
                    mir::AggregateKind::Adt(did, vidx, _, _, _) => {
                        let def = self.tcx.adt_def(*did);
                        let an = path_of(self.tcx, *did);
                        if def.is_enum() {
                            format!("adt:{}::{}", an, def.variant(*vidx).name)
                        } else {
                            format!("adt:{}", an)
                        }
                    }
                    mir::AggregateKind::Closure(did, _) => {
                        let p = path_of(self.tcx, *did);
                        self.closures.insert(p.clone());
                        format!("closure:{}", p)
                    }
                    mir::AggregateKind::Coroutine(did, _) => {
                        let p = path_of(self.tcx, *did);
                        self.closures.insert(p.clone());
                        format!("coroutine:{}", p)
                    }
                    mir::AggregateKind::CoroutineClosure(did, _) => {
                        let p = path_of(self.tcx, *did);
                        self.closures.insert(p.clone());
                        format!("closure:{}", p)
                    }
                    _ => "other".to_string(),
                };
                let mut v = Vec::new();
                for o in ops.iter() {
                    v.push(self.operand(o));
                }
                format!("[\"agg\",{},{}]", js(&k), jlist(&v))
            }
            Rvalue::CopyForDeref(p) => format!("[\"use\",[\"c\",{}]]", self.place(p)),
            other => {
                let d = format!("{:?}", other);
                let head: String = d.chars().take(40).collect();
                format!("[\"other\",{}]", js(&head))
            }
        }
    }

    /// Resolve the callee of a call terminator. Returns JSON object.
    fn callee(&mut self, func: &Operand<'tcx>) -> String {
        self.ncalls += 1;
        let fty = func.ty(&self.body.local_decls, self.tcx);
        match fty.kind() {
            ty::FnDef(did, args) => {
                let decl_path = path_of(self.tcx, *did);
                let full = path_with_args(self.tcx, *did, args);
                // is it a trait method?
                let trait_of = self.tcx.trait_of_assoc(*did);
                let mut resolved: Option<String> = None;
                let mut resolved_full: Option<String> = None;
                let mut virt = false;
                let r = std::panic::catch_unwind(std::panic::AssertUnwindSafe(|| {
                    Instance::try_resolve(self.tcx, self.env, *did, args)
                }));
                if let Ok(Ok(Some(inst))) = r {
                    match inst.def {
                        ty::InstanceKind::Virtual(..) => {
                            virt = true;
                        }
                        _ => {
                            let rd = inst.def_id();
                            resolved = Some(path_of(self.tcx, rd));
                            resolved_full = Some(path_with_args(self.tcx, rd, inst.args));
                        }
                    }
                }
                let mut o = String::from("{");
                let _ = write!(o, "\"d\":{}", js(&decl_path));
                let _ = write!(o, ",\"g\":{}", js(&full));
                if let Some(t) = trait_of {
                    let _ = write!(o, ",\"t\":{}", js(&path_of(self.tcx, t)));
                }
                match (&resolved, trait_of) {
                    (Some(r), _) => {
                        let _ = write!(o, ",\"p\":{}", js(r));
                        if let Some(rf) = &resolved_full {
                            if rf != &full {
                                let _ = write!(o, ",\"pg\":{}", js(rf));
                            }
                        }
                        self.calls.insert(r.clone());
                    }
                    (None, Some(_)) => {
                        // unresolved trait call (dyn or generic)
                        self.nunres += 1;
                        let _ = write!(o, ",\"p\":{},\"u\":{}", js(&format!("?{}", decl_path)), if virt { 2 } else { 1 });
                        self.calls.insert(format!("?{}", decl_path));
                    }
                    (None, None) => {
                        let _ = write!(o, ",\"p\":{}", js(&decl_path));
                        self.calls.insert(decl_path.clone());
                    }
                }
                o.push('}');
                o
            }
            _ => {
                // indirect call through fn pointer / closure local
                self.nunres += 1;
                let op = self.operand(func);
                format!("{{\"p\":\"?indirect\",\"u\":3,\"op\":{},\"ty\":{}}}", op, js(&ty_str(fty)))
            }
        }
    }

    fn dump(&mut self) -> String {
        let tcx = self.tcx;
        let body = self.body;
        let mut blocks: Vec<String> = Vec::new();
        for (_bb, data) in body.basic_blocks.iter_enumerated() {
            let mut stmts: Vec<String> = Vec::new();
            for st in &data.statements {
                match &st.kind {
                    StatementKind::Assign(bx) => {
                        let (p, rv) = &**bx;
                        let si = span_info(tcx, st.source_info.span);
                        let pl = self.place(p);
                        let r = self.rvalue(rv);
                        stmts.push(format!("[{},{},{},{}]", pl, r, si.line, si.exp));
                    }
                    StatementKind::SetDiscriminant { place, variant_index } => {
                        let si = span_info(tcx, st.source_info.span);
                        let pl = self.place(place);
                        stmts.push(format!("[{},[\"setdiscr\",{}],{},{}]", pl, variant_index.as_usize(), si.line, si.exp));
                    }
                    _ => {}
                }
            }
            let term = data.terminator();
            let si = span_info(tcx, term.source_info.span);
            let t = match &term.kind {
                TerminatorKind::Goto { target } => format!("[\"goto\",{}]", target.as_usize()),
                TerminatorKind::SwitchInt { discr, targets } => {
                    let mut v = Vec::new();
                    for (val, bb) in targets.iter() {
                        v.push(format!("[{},{}]", js(&format!("{}", val)), bb.as_usize()));
                    }
                    format!("[\"switch\",{},{},{}]", self.operand(discr), jlist(&v), targets.otherwise().as_usize())
                }
                TerminatorKind::Return => "[\"ret\"]".to_string(),
                TerminatorKind::Unreachable => "[\"unreachable\"]".to_string(),
                TerminatorKind::UnwindResume | TerminatorKind::UnwindTerminate(_) => "[\"resume\"]".to_string(),
                TerminatorKind::Drop { place, target, .. } => {
                    format!("[\"drop\",{},{}]", self.place(place), target.as_usize())
                }
                TerminatorKind::Call { func, args, destination, target, fn_span, .. } => {
                    let c = self.callee(func);
                    let mut av = Vec::new();
                    for a in args.iter() {
                        av.push(self.operand(&a.node));
                    }
                    let fsi = span_info(tcx, *fn_span);
                    let tgt = match target {
                        Some(t) => format!("{}", t.as_usize()),
                        None => "null".into(),
                    };
                    format!(
                        "[\"call\",{},{},{},{},{},{}]",
                        c,
                        jlist(&av),
                        self.place(destination),
                        tgt,
                        fsi.exp,
                        js(&fsi.expname)
                    )
                }
                TerminatorKind::TailCall { func, args, .. } => {
                    let c = self.callee(func);
                    let mut av = Vec::new();
                    for a in args.iter() {
                        av.push(self.operand(&a.node));
                    }
                    format!("[\"call\",{},{},[0,[]],null,0,\"\"]", c, jlist(&av))
                }
                TerminatorKind::Assert { cond, expected, msg, target, .. } => {
                    let kind = match &**msg {
                        mir::AssertKind::BoundsCheck { .. } => "bounds".to_string(),
                        mir::AssertKind::Overflow(op, ..) => format!("overflow:{:?}", op),
                        mir::AssertKind::OverflowNeg(_) => "overflow:Neg".to_string(),
                        mir::AssertKind::DivisionByZero(_) => "divzero".to_string(),
                        mir::AssertKind::RemainderByZero(_) => "remzero".to_string(),
                        _ => "other".to_string(),
                    };
                    let mut ops = Vec::new();
                    match &**msg {
                        mir::AssertKind::BoundsCheck { len, index } => {
                            ops.push(self.operand(len));
                            ops.push(self.operand(index));
                        }
                        mir::AssertKind::Overflow(_, a, b) => {
                            ops.push(self.operand(a));
                            ops.push(self.operand(b));
                        }
                        mir::AssertKind::OverflowNeg(a)
                        | mir::AssertKind::DivisionByZero(a)
                        | mir::AssertKind::RemainderByZero(a) => {
                            ops.push(self.operand(a));
                        }
                        _ => {}
                    }
                    format!(
                        "[\"assert\",{},{},{},{},{}]",
                        js(&kind),
                        self.operand(cond),
                        if *expected { "true" } else { "false" },
                        target.as_usize(),
                        jlist(&ops)
                    )
                }
                TerminatorKind::Yield { value, resume, .. } => {
                    format!("[\"yield\",{},{}]", self.operand(value), resume.as_usize())
                }
                TerminatorKind::CoroutineDrop => "[\"ret\"]".to_string(),
                TerminatorKind::FalseEdge { real_target, .. } => format!("[\"goto\",{}]", real_target.as_usize()),
                TerminatorKind::FalseUnwind { real_target, .. } => format!("[\"goto\",{}]", real_target.as_usize()),
                TerminatorKind::InlineAsm { .. } => "[\"unreachable\"]".to_string(),
            };
            blocks.push(format!(
                "{{\"s\":{},\"t\":{},\"l\":{},\"x\":{},\"xn\":{},\"c\":{}}}",
                jlist(&stmts),
                t,
                si.line,
                si.exp,
                js(&si.expname),
                if data.is_cleanup { 1 } else { 0 }
            ));
        }
        // locals
        let mut locals: Vec<String> = Vec::new();
        let mut names: Vec<Option<String>> = vec![None; body.local_decls.len()];
        for vdi in &body.var_debug_info {
            if let mir::VarDebugInfoContents::Place(p) = &vdi.value {
                if p.projection.is_empty() {
                    names[p.local.as_usize()] = Some(vdi.name.to_string());
                }
            }
        }
        for (l, d) in body.local_decls.iter_enumerated() {
            let n = match &names[l.as_usize()] {
                Some(n) => js(n),
                None => "null".into(),
            };
            locals.push(format!("[{},{}]", js(&ty_str(d.ty)), n));
        }
        format!("\"argc\":{},\"locals\":{},\"blocks\":{}", body.arg_count, jlist(&locals), jlist(&blocks))
    }
}

// field-effect visitor
struct Effects<'a, 'tcx> {
    tcx: TyCtxt<'tcx>,
    body: &'a Body<'tcx>,
    reads: BTreeSet<String>,
    writes: BTreeSet<String>,
}
impl<'a, 'tcx> MirVisitor<'tcx> for Effects<'a, 'tcx> {
    fn visit_place(&mut self, place: &Place<'tcx>, ctx: PlaceContext, _loc: mir::Location) {
        let is_write = match ctx {
            PlaceContext::MutatingUse(m) => !matches!(m, MutatingUseContext::Drop | MutatingUseContext::Retag),
            PlaceContext::NonMutatingUse(n) => {
                let _ = n;
                false
            }
            PlaceContext::NonUse(_) => return,
        };
        if let PlaceContext::NonMutatingUse(NonMutatingUseContext::PlaceMention) = ctx {
            return;
        }
        for (base, elem) in place.iter_projections() {
            if let ProjectionElem::Field(f, _) = elem {
                let bty = base.ty(&self.body.local_decls, self.tcx);
                if let ty::Adt(def, _) = bty.ty.kind() {
                    let v = bty.variant_index.unwrap_or(rustc_abi::FIRST_VARIANT);
                    let vd = def.variant(v);
                    let an = path_of(self.tcx, def.did());
                    let name = if def.is_enum() {
                        format!("{}::{}.{}", an, vd.name, vd.fields[f].name)
                    } else {
                        format!("{}.{}", an, vd.fields[f].name)
                    };
                    if is_write {
                        self.writes.insert(name);
                    } else {
                        self.reads.insert(name);
                    }
                }
            }
        }
    }
}

// ------------------------------------------------------------------------------------
// HIR match-arm facts
// ------------------------------------------------------------------------------------
struct ArmCollector<'tcx> {
    tcx: TyCtxt<'tcx>,
    typeck: &'tcx ty::TypeckResults<'tcx>,
    out: Vec<String>,
    owner: String,
}

struct BodyFacts<'a, 'tcx> {
    tcx: TyCtxt<'tcx>,
    typeck: &'tcx ty::TypeckResults<'tcx>,
    calls: &'a mut BTreeSet<String>,
    ctors: &'a mut BTreeSet<String>,
    lits: &'a mut BTreeSet<String>,
    nexpr: usize,
}
impl<'a, 'tcx> HirVisitor<'tcx> for BodyFacts<'a, 'tcx> {
    fn visit_expr(&mut self, e: &'tcx hir::Expr<'tcx>) {
        self.nexpr += 1;
        match &e.kind {
            hir::ExprKind::MethodCall(_, _, _, _) => {
                if let Some(did) = self.typeck.type_dependent_def_id(e.hir_id) {
                    self.calls.insert(path_of(self.tcx, did));
                }
            }
            hir::ExprKind::Path(qp) => {
                let res = self.typeck.qpath_res(qp, e.hir_id);
                match res {
                    Res::Def(DefKind::Fn | DefKind::AssocFn, did) => {
                        self.calls.insert(path_of(self.tcx, did));
                    }
                    Res::Def(DefKind::Ctor(..), did) => {
                        let p = self.tcx.parent(did);
                        self.ctors.insert(path_of(self.tcx, p));
                    }
                    Res::Def(DefKind::Variant | DefKind::Struct, did) => {
                        self.ctors.insert(path_of(self.tcx, did));
                    }
                    Res::Def(DefKind::Const { .. } | DefKind::AssocConst { .. } | DefKind::Static { .. }, did) => {
                        self.lits.insert(format!("const:{}", path_of(self.tcx, did)));
                    }
                    _ => {}
                }
            }
            hir::ExprKind::Struct(qp, _, _) => {
                let res = self.typeck.qpath_res(qp, e.hir_id);
                if let Res::Def(_, did) = res {
                    self.ctors.insert(path_of(self.tcx, did));
                }
            }
            hir::ExprKind::Lit(l) => {
                let s = match &l.node {
                    rustc_ast_lit::LitKind::Str(s, _) => format!("s:{}", s),
                    rustc_ast_lit::LitKind::Int(v, _) => format!("i:{}", v),
                    rustc_ast_lit::LitKind::Bool(b) => format!("b:{}", b),
                    rustc_ast_lit::LitKind::Char(c) => format!("c:{}", c),
                    rustc_ast_lit::LitKind::Float(s, _) => format!("f:{}", s),
                    rustc_ast_lit::LitKind::Byte(b) => format!("y:{}", b),
                    rustc_ast_lit::LitKind::ByteStr(bs, _) | rustc_ast_lit::LitKind::CStr(bs, _) => {
                        let mut h = String::from("h:");
                        for b in bs.as_byte_str().iter() {
                            let _ = write!(h, "{:02x}", b);
                        }
                        h
                    }
                    _ => "o:".to_string(),
                };
                self.lits.insert(s);
            }
            _ => {}
        }
        intravisit::walk_expr(self, e);
    }
}

mod rustc_ast_lit {
    pub use rustc_ast::LitKind;
}

impl<'tcx> ArmCollector<'tcx> {
    fn pat(&self, p: &'tcx hir::Pat<'tcx>) -> String {
        use hir::PatKind;
        match &p.kind {
            PatKind::Wild => "{\"k\":\"wild\"}".into(),
            PatKind::Binding(_, _, ident, sub) => match sub {
                Some(s) => format!("{{\"k\":\"bind\",\"n\":{},\"sub\":{}}}", js(ident.as_str()), self.pat(s)),
                None => format!("{{\"k\":\"bind\",\"n\":{}}}", js(ident.as_str())),
            },
            PatKind::Tuple(ps, _) => {
                let v: Vec<String> = ps.iter().map(|x| self.pat(x)).collect();
                format!("{{\"k\":\"tuple\",\"e\":{}}}", jlist(&v))
            }
            PatKind::Or(ps) => {
                let v: Vec<String> = ps.iter().map(|x| self.pat(x)).collect();
                format!("{{\"k\":\"or\",\"e\":{}}}", jlist(&v))
            }
            PatKind::TupleStruct(qp, ps, _) => {
                let res = self.typeck.qpath_res(qp, p.hir_id);
                let name = self.res_name(res);
                let v: Vec<String> = ps.iter().map(|x| self.pat(x)).collect();
                format!("{{\"k\":\"variant\",\"p\":{},\"sub\":{}}}", js(&name), jlist(&v))
            }
            PatKind::Struct(qp, fs, _) => {
                let res = self.typeck.qpath_res(qp, p.hir_id);
                let name = self.res_name(res);
                let v: Vec<String> = fs
                    .iter()
                    .map(|f| format!("[{},{}]", js(f.ident.as_str()), self.pat(f.pat)))
                    .collect();
                format!("{{\"k\":\"variant\",\"p\":{},\"fields\":{}}}", js(&name), jlist(&v))
            }
            PatKind::Expr(pe) => match &pe.kind {
                hir::PatExprKind::Path(qp) => {
                    let res = self.typeck.qpath_res(qp, pe.hir_id);
                    let name = self.res_name(res);
                    format!("{{\"k\":\"variant\",\"p\":{},\"sub\":[]}}", js(&name))
                }
                hir::PatExprKind::Lit { lit, negated } => {
                    let s = match &lit.node {
                        rustc_ast::LitKind::Str(s, _) => format!("s:{}", s),
                        rustc_ast::LitKind::Int(v, _) => format!("i:{}{}", if *negated { "-" } else { "" }, v),
                        rustc_ast::LitKind::Bool(b) => format!("b:{}", b),
                        rustc_ast::LitKind::Char(c) => format!("c:{}", c),
                        rustc_ast::LitKind::Byte(b) => format!("y:{}", b),
                        _ => "o:".to_string(),
                    };
                    format!("{{\"k\":\"lit\",\"v\":{}}}", js(&s))
                }
                #[allow(unreachable_patterns)]
                _ => "{\"k\":\"other\"}".into(),
            },
            PatKind::Ref(s, ..) | PatKind::Box(s) | PatKind::Deref(s) => self.pat(s),
            PatKind::Range(..) => "{\"k\":\"range\"}".into(),
            PatKind::Slice(..) => "{\"k\":\"slice\"}".into(),
            _ => "{\"k\":\"other\"}".into(),
        }
    }
    fn res_name(&self, res: Res) -> String {
        match res {
            Res::Def(DefKind::Ctor(..), did) => path_of(self.tcx, self.tcx.parent(did)),
            Res::Def(_, did) => path_of(self.tcx, did),
            Res::SelfCtor(did) | Res::SelfTyAlias { alias_to: did, .. } => path_of(self.tcx, did),
            _ => "?".into(),
        }
    }
    fn body_facts(&self, e: &'tcx hir::Expr<'tcx>) -> String {
        let mut calls = BTreeSet::new();
        let mut ctors = BTreeSet::new();
        let mut lits = BTreeSet::new();
        let mut bf = BodyFacts { tcx: self.tcx, typeck: self.typeck, calls: &mut calls, ctors: &mut ctors, lits: &mut lits, nexpr: 0 };
        bf.visit_expr(e);
        let n = bf.nexpr;
        let empty = match &e.kind {
            hir::ExprKind::Block(b, _) => b.stmts.is_empty() && b.expr.is_none(),
            hir::ExprKind::Tup(t) => t.is_empty(),
            _ => false,
        };
        let c: Vec<String> = calls.iter().map(|s| js(s)).collect();
        let k: Vec<String> = ctors.iter().map(|s| js(s)).collect();
        let l: Vec<String> = lits.iter().map(|s| js(s)).collect();
        let sm = self.tcx.sess.source_map();
        let lo = sm.lookup_char_pos(e.span.source_callsite().lo()).line;
        let hi = sm.lookup_char_pos(e.span.source_callsite().hi()).line;
        format!(
            "\"calls\":{},\"ctors\":{},\"lits\":{},\"n\":{},\"empty\":{},\"lo\":{},\"hi\":{}",
            jlist(&c),
            jlist(&k),
            jlist(&l),
            n,
            empty,
            lo,
            hi
        )
    }
}

impl<'tcx> HirVisitor<'tcx> for ArmCollector<'tcx> {
    fn visit_expr(&mut self, e: &'tcx hir::Expr<'tcx>) {
        match &e.kind {
            hir::ExprKind::Match(scrut, arms, src) if matches!(src, hir::MatchSource::Normal | hir::MatchSource::Postfix) => {
                let sty = ty_str(self.typeck.expr_ty(scrut));
                let si = span_info(self.tcx, e.span);
                let mut av = Vec::new();
                for a in arms.iter() {
                    av.push(format!(
                        "{{\"pat\":{},\"guard\":{},{}}}",
                        self.pat(a.pat),
                        a.guard.is_some(),
                        self.body_facts(a.body)
                    ));
                }
                // scrutinee callee (e.g. match self.foo() {..})
                let mut sc = BTreeSet::new();
                let mut k = BTreeSet::new();
                let mut l = BTreeSet::new();
                let mut bf = BodyFacts { tcx: self.tcx, typeck: self.typeck, calls: &mut sc, ctors: &mut k, lits: &mut l, nexpr: 0 };
                bf.visit_expr(scrut);
                let scv: Vec<String> = sc.iter().map(|s| js(s)).collect();
                self.out.push(format!(
                    "{{\"k\":\"match\",\"fn\":{},\"line\":{},\"x\":{},\"src\":{},\"sty\":{},\"scalls\":{},\"arms\":{}}}",
                    js(&self.owner),
                    si.line,
                    si.exp,
                    js(&format!("{:?}", src)),
                    js(&sty),
                    jlist(&scv),
                    jlist(&av)
                ));
            }
            hir::ExprKind::If(cond, then, els) => {
                // `if let PAT = init { then } else { els }` as a two-armed match
                let mut c: &hir::Expr<'_> = cond;
                while let hir::ExprKind::DropTemps(inner) = &c.kind {
                    c = inner;
                }
                if let hir::ExprKind::Let(le) = &c.kind {
                    let sty = ty_str(self.typeck.expr_ty(le.init));
                    let si = span_info(self.tcx, e.span);
                    let mut av = Vec::new();
                    av.push(format!("{{\"pat\":{},\"guard\":false,{}}}", self.pat(le.pat), self.body_facts(then)));
                    if let Some(el) = els {
                        av.push(format!("{{\"pat\":{{\"k\":\"wild\"}},\"guard\":false,{}}}", self.body_facts(el)));
                    }
                    self.out.push(format!(
                        "{{\"k\":\"match\",\"fn\":{},\"line\":{},\"x\":{},\"src\":\"IfLet\",\"sty\":{},\"scalls\":[],\"arms\":{}}}",
                        js(&self.owner),
                        si.line,
                        si.exp,
                        js(&sty),
                        jlist(&av)
                    ));
                }
            }
            _ => {}
        }
        intravisit::walk_expr(self, e);
    }
}

// ------------------------------------------------------------------------------------
// driver
// ------------------------------------------------------------------------------------
struct Cb;

fn emit_all(tcx: TyCtxt<'_>) {
    let out_dir = match std::env::var("SGFACTS_OUT") {
        Ok(d) => d,
        Err(_) => return,
    };
    let crate_name = tcx.crate_name(LOCAL_CRATE).to_string();
    if crate_name.starts_with("build_script") {
        return;
    }
    let is_bin = tcx.crate_types().iter().any(|t| matches!(t, rustc_session::config::CrateType::Executable));
    let mut out = String::with_capacity(64 << 20);
    let mut nbodies = 0usize;
    let mut ncalls = 0usize;
    let mut nunres = 0usize;
    let mut nfallback = 0usize;

    // ---- ADTs and impls
    for id in tcx.hir_free_items() {
        let item = tcx.hir_item(id);
        let did = item.owner_id.to_def_id();
        match &item.kind {
            hir::ItemKind::Struct(..) | hir::ItemKind::Enum(..) | hir::ItemKind::Union(..) => {
                let def = tcx.adt_def(did);
                let mut vs = Vec::new();
                for v in def.variants() {
                    let mut fs = Vec::new();
                    for f in &v.fields {
                        let fty = tcx.type_of(f.did).instantiate_identity().skip_norm_wip();
                        let vis = if f.vis.is_public() { "pub" } else { "priv" };
                        fs.push(format!("[{},{},{}]", js(f.name.as_str()), js(&ty_str(fty)), js(vis)));
                    }
                    vs.push(format!("{{\"name\":{},\"fields\":{}}}", js(v.name.as_str()), jlist(&fs)));
                }
                let si = span_info(tcx, item.span);
                let _ = writeln!(
                    out,
                    "{{\"k\":\"adt\",\"path\":{},\"enum\":{},\"file\":{},\"line\":{},\"variants\":{}}}",
                    js(&path_of(tcx, did)),
                    def.is_enum(),
                    js(&si.file),
                    si.line,
                    jlist(&vs)
                );
            }
            hir::ItemKind::Impl(imp) => {
                let self_ty = ty_str(tcx.type_of(did).instantiate_identity().skip_norm_wip());
                let tr = match tcx.impl_opt_trait_ref(did) {
                    Some(t) => js(&path_of(tcx, t.skip_binder().def_id)),
                    None => "null".into(),
                };
                let derived = tcx.is_automatically_derived(did);
                let si = span_info(tcx, item.span);
                let mut ms = Vec::new();
                for it in imp.items.iter() {
                    ms.push(js(&path_of(tcx, it.owner_id.to_def_id())));
                }
                let _ = writeln!(
                    out,
                    "{{\"k\":\"impl\",\"path\":{},\"self\":{},\"trait\":{},\"derived\":{},\"file\":{},\"line\":{},\"items\":{}}}",
                    js(&path_of(tcx, did)),
                    js(&self_ty),
                    tr,
                    derived,
                    js(&si.file),
                    si.line,
                    jlist(&ms)
                );
            }
            hir::ItemKind::Const(..) | hir::ItemKind::Static(..) => {
                // record constant items with their literal initialiser when it is a plain literal
                let si = span_info(tcx, item.span);
                let src = tcx.sess.source_map().span_to_snippet(item.span).unwrap_or_default();
                let short: String = src.chars().take(300).collect();
                let _ = writeln!(
                    out,
                    "{{\"k\":\"const\",\"path\":{},\"file\":{},\"line\":{},\"src\":{}}}",
                    js(&path_of(tcx, did)),
                    js(&si.file),
                    si.line,
                    js(&short)
                );
            }
            _ => {}
        }
    }

    // ---- bodies
    let mut owners: Vec<_> = tcx.hir_body_owners().collect();
    owners.sort_by_key(|l| {
        let k = tcx.def_kind(l.to_def_id());
        let coro = tcx.is_coroutine(l.to_def_id());
        (if coro { 0 } else if matches!(k, DefKind::Closure | DefKind::SyntheticCoroutineBody) { 1 } else { 2 }, l.local_def_index.as_usize())
    });
    for ldid in owners {
        let did = ldid.to_def_id();
        let kind = tcx.def_kind(did);
        let is_fn_like = matches!(kind, DefKind::Fn | DefKind::AssocFn | DefKind::Closure | DefKind::SyntheticCoroutineBody);
        if !is_fn_like {
            continue;
        }
        nbodies += 1;
        let path = path_of(tcx, did);
        let span = tcx.def_span(did);
        let si = span_info(tcx, span);
        let full_span = tcx.hir_span_with_body(tcx.local_def_id_to_hir_id(ldid));
        let sm = tcx.sess.source_map();
        let end_line = sm.lookup_char_pos(full_span.source_callsite().hi()).line;
        let vis = if matches!(kind, DefKind::Fn | DefKind::AssocFn) {
            if tcx.visibility(did).is_public() { "pub" } else { "priv" }
        } else {
            "closure"
        };
        // parent impl
        let (impl_self, impl_trait) = {
            let mut s = "null".to_string();
            let mut t = "null".to_string();
            if matches!(kind, DefKind::AssocFn) {
                let parent = tcx.parent(did);
                if matches!(tcx.def_kind(parent), DefKind::Impl { .. }) {
                    s = js(&ty_str(tcx.type_of(parent).instantiate_identity().skip_norm_wip()));
                    if let Some(tr) = tcx.impl_opt_trait_ref(parent) {
                        t = js(&path_of(tcx, tr.skip_binder().def_id));
                    }
                } else if matches!(tcx.def_kind(parent), DefKind::Trait) {
                    t = js(&path_of(tcx, parent));
                    s = "\"Self\"".into();
                }
            }
            (s, t)
        };
        let is_async = tcx.asyncness(did).is_async();
        let is_coroutine = tcx.is_coroutine(did);
        // MIR
        // Preferred: `mir_promoted` (natural CFG: coroutines still have Yield terminators,
        // drops not yet elaborated). Fallbacks are flagged.
        let (promoted_steal, promoted_bodies) = tcx.mir_promoted(ldid);
        // constants mentioned by each promoted body (so that `promoted[N]` can be resolved)
        let mut prom_json: Vec<String> = Vec::new();
        if !promoted_bodies.is_stolen() {
            let pb = promoted_bodies.borrow();
            for body in pb.iter() {
                let mut cs: Vec<String> = Vec::new();
                for bbd in body.basic_blocks.iter() {
                    for st in &bbd.statements {
                        if let StatementKind::Assign(bx) = &st.kind {
                            let d = with_no_trimmed_paths!(format!("{:?}", bx.1));
                            let short: String = d.chars().take(400).collect();
                            cs.push(js(&short));
                        }
                    }
                }
                prom_json.push(jlist(&cs));
            }
        }
        let steal2;
        let (body_ref, fallback): (&Body<'_>, u8);
        let guard;
        let guard2;
        if !promoted_steal.is_stolen() {
            guard = promoted_steal.borrow();
            body_ref = &*guard;
            fallback = 0;
        } else {
            steal2 = tcx.mir_drops_elaborated_and_const_checked(ldid);
            if !steal2.is_stolen() {
                guard2 = steal2.borrow();
                body_ref = &*guard2;
                fallback = 1;
            } else {
                body_ref = tcx.optimized_mir(did);
                fallback = 2;
            }
            nfallback += 1;
        }
        let env = TypingEnv::post_analysis(tcx, did);
        let mut d = Dumper { tcx, body: body_ref, env, calls: BTreeSet::new(), closures: BTreeSet::new(), ncalls: 0, nunres: 0 };
        let mir_json = d.dump();
        ncalls += d.ncalls;
        nunres += d.nunres;
        let mut eff = Effects { tcx, body: body_ref, reads: BTreeSet::new(), writes: BTreeSet::new() };
        eff.visit_body(body_ref);
        let calls: Vec<String> = d.calls.iter().map(|s| js(s)).collect();
        let closures: Vec<String> = d.closures.iter().map(|s| js(s)).collect();
        let reads: Vec<String> = eff.reads.iter().map(|s| js(s)).collect();
        let writes: Vec<String> = eff.writes.iter().map(|s| js(s)).collect();
        let sig = if matches!(kind, DefKind::Fn | DefKind::AssocFn) {
            let s = tcx.fn_sig(did).instantiate_identity().skip_norm_wip();
            with_no_trimmed_paths!(with_crate_prefix!(format!("{}", s)))
        } else {
            String::new()
        };
        let _ = writeln!(
            out,
            "{{\"k\":\"fn\",\"path\":{},\"file\":{},\"line\":{},\"end\":{},\"vis\":{},\"kind\":{},\"self\":{},\"trait\":{},\"async\":{},\"coroutine\":{},\"exp\":{},\"fallback\":{},\"sig\":{},\"calls\":{},\"closures\":{},\"r\":{},\"w\":{}}}",
            js(&path),
            js(&si.file),
            si.line,
            end_line,
            js(vis),
            js(&format!("{:?}", kind)),
            impl_self,
            impl_trait,
            is_async,
            is_coroutine,
            si.exp,
            fallback,
            js(&sig),
            jlist(&calls),
            jlist(&closures),
            jlist(&reads),
            jlist(&writes)
        );
        let _ = writeln!(out, "{{\"k\":\"mir\",\"path\":{},{},\"prom\":{}}}", js(&path), mir_json, jlist(&prom_json));

        // HIR arms
        let typeck = tcx.typeck(ldid);
        let hbody = tcx.hir_body_owned_by(ldid);
        let mut ac = ArmCollector { tcx, typeck, out: Vec::new(), owner: path.clone() };
        ac.visit_expr(hbody.value);
        for l in ac.out {
            out.push_str(&l);
            out.push('\n');
        }
    }
    let _ = writeln!(
        out,
        "{{\"k\":\"meta\",\"crate\":{},\"bin\":{},\"bodies\":{},\"calls\":{},\"unresolved\":{},\"fallback\":{}}}",
        js(&crate_name),
        is_bin,
        nbodies,
        ncalls,
        nunres,
        nfallback
    );
    // file name: crate + kind + hash of the main source path
    let main_src = tcx
        .sess
        .local_crate_source_file()
        .map(|f| format!("{:?}", f))
        .unwrap_or_default();
    let mut h: u64 = 0xcbf29ce484222325;
    for b in main_src.bytes() {
        h ^= b as u64;
        h = h.wrapping_mul(0x100000001b3);
    }
    let fname = format!("{}/{}.{}.{:08x}.jsonl", out_dir, crate_name, if is_bin { "bin" } else { "lib" }, (h & 0xffff_ffff) as u32);
    let tmp = format!("{}.tmp{}", fname, std::process::id());
    let out = out.replace("crate::", &format!("{}::", crate_name));
    std::fs::write(&tmp, out).expect("write facts");
    std::fs::rename(&tmp, &fname).expect("rename facts");
}

impl rustc_driver::Callbacks for Cb {
    fn after_expansion<'tcx>(&mut self, _c: &Compiler, tcx: TyCtxt<'tcx>) -> Compilation {
        // Run before the analysis phase: bodies are dumped right after their
        // drops-elaborated MIR is built, coroutine/closure bodies first, so that a later
        // request for `optimized_mir` (coroutine layout) cannot steal an undumped body.
        emit_all(tcx);
        Compilation::Continue
    }
}

fn main() {
    let mut args: Vec<String> = std::env::args().collect();
    // RUSTC_WORKSPACE_WRAPPER: argv[1] is the real rustc path
    if args.len() > 1 && (args[1].ends_with("rustc") || args[1].contains("/rustc")) {
        args.remove(1);
    }
    let primary = std::env::var("CARGO_PRIMARY_PACKAGE").is_ok();
    let want = std::env::var("SGFACTS_OUT").is_ok();
    // never analyse when cargo only asks for version / cfg info
    let probing = args.iter().any(|a| a == "-vV" || a == "--version" || a.starts_with("--print"));
    args.push("-Zmir-opt-level=0".to_string());
    if !probing {
        args.push("-Awarnings".to_string());
    }
    let mut cb = Cb;
    if primary && want && !probing {
        rustc_driver::run_compiler(&args, &mut cb);
    } else {
        struct Nop;
        impl rustc_driver::Callbacks for Nop {}
        rustc_driver::run_compiler(&args, &mut Nop);
    }
}
