"""Float-division guards: a float `Div` whose divisor is computed from accumulated quantities (norms,
sums, counts cast to float) yields NaN / inf when the divisor is zero; NaN then survives `clamp`,
loses every `partial_cmp` and is turned into an ordinary-looking value by `max`/`min`.  The rule
template:

   for every float Div in the given bodies whose divisor is not a constant, every *leaf* of the
   divisor expression (accumulator local, parameter, captured variable, call result) is compared
   with a float constant in a switch that dominates the division (the division lying on exactly
   one side), or is floored by `max(positive constant)`.

Leaves are found through copies, casts, arithmetic and sqrt/abs/powi/powf/mul_add.  A guard on a
derived quantity (`let d = na.sqrt() * nb.sqrt(); if d <= 0.0 {..}`) covers all of that quantity's
leaves.  A leaf that is a closure capture is looked up in the parent body: the captured local must
be guarded at the statement that builds the closure."""
from . import orderdom as od
from .cfg import Body

FLOAT = ("f32", "f64")
THROUGH = ("sqrt", "abs", "powi", "powf", "mul_add", "mul", "add", "sub", "neg", "clone", "deref", "into", "from")
# `sum`/`mul`/... on float references: <&f32 as Mul>::mul etc. are calls at mir-opt-level 0.


def _is_float_ty(t):
    return t.strip().lstrip("&").replace("mut ", "").strip() in FLOAT


def _pos_const(op):
    if op[0] != "k" or op[2] not in FLOAT:
        return False
    try:
        bits = int(op[3])
    except (ValueError, TypeError, IndexError):
        return False
    return 0 < bits < (0x80000000 if op[2] == "f32" else 1 << 63)


def leaves(b, op, depth=0, seen=None):
    """set of leaf keys of a float operand: ('l', local) | ('up', idx) | ('floored',)"""
    seen = seen if seen is not None else set()
    if op[0] == "k":
        return set()
    pl = op[1]
    l = pl[0]
    upv = [p for p in pl[1] if p.startswith("u:")]
    if upv and 1 <= l <= b.argc:
        return {("up", int(upv[0][2:]))}
    if l in seen or depth > 30:
        return {("l", l)}
    seen.add(l)
    ds = b.defs().get(l, [])
    if len(ds) != 1:
        return {("l", l)}
    d = ds[0]
    if d[0] == "call":
        c = d[2]
        nm = c.path.rsplit("::", 1)[-1]
        if nm in ("max", "clamp") and len(c.args) >= 2 and _pos_const(c.args[1]) and ("f32" in c.path or "f64" in c.path):
            return {("floored",)}
        if nm in THROUGH and c.args and ("f32" in c.path or "f64" in c.path):
            out = set()
            for a in c.args[:2]:
                if a[0] != "k":
                    out |= leaves(b, a, depth + 1, seen)
            return out or {("l", l)}
        return {("l", l)}
    rv = d[4]
    if rv[0] == "use":
        return leaves(b, rv[1], depth + 1, seen) if rv[1][0] != "k" else set()
    if rv[0] == "ref":
        return leaves(b, ["c", rv[2]], depth + 1, seen)
    if rv[0] == "cast":
        return leaves(b, rv[2], depth + 1, seen) if rv[2][0] != "k" else set()
    if rv[0] == "bin" and rv[1] in od.ARITH:
        out = set()
        for o in rv[2:4]:
            if o[0] != "k":
                out |= leaves(b, o, depth + 1, seen)
        return out
    if rv[0] == "un":
        return leaves(b, rv[2], depth + 1, seen) if rv[2][0] != "k" else set()
    return {("l", l)}


def _resolve(b, l):
    """follow single-definition whole-local copies"""
    for _ in range(8):
        ds = b.defs().get(l, [])
        if len(ds) == 1 and ds[0][0] == "stmt" and not ds[0][3][1] and ds[0][4][0] == "use" and ds[0][4][1][0] != "k" and not ds[0][4][1][1][1]:
            l = ds[0][4][1][1][0]
            continue
        break
    return l


def _float_cmp(rv):
    """the variable operand of a comparison with a float constant, or None"""
    if rv[0] != "bin" or rv[1] not in od.CMP:
        return None
    ks = [o for o in rv[2:4] if o[0] == "k" and o[2] in FLOAT]
    vs = [o for o in rv[2:4] if o[0] != "k"]
    if len(ks) != 1 or len(vs) != 1:
        return None
    return vs[0]


def _side(b, i, t, block, flags):
    """(on_true, on_false): is `block` reachable from the non-zero / zero target of switch i — refined by tracking each
    bool local in `flags` (a materialised `a || b` sends the `a` side through `flag = true` to the other exit)"""
    false_t = [tgt for v, tgt in t[2] if v == "0"]
    if not false_t:
        return None
    def reach(start):
        if block not in b.reachable(start, avoid={i}):
            return False
        return all(block in b.reachable_with_flag(start, f, avoid={i}) for f in flags)
    return reach(t[3]), reach(false_t[0])


def guarded_leaves(b, block):
    """leaves covered by a float-constant comparison in a switch dominating `block` (block on exactly one side).
    The comparison may be switched on directly, or be materialised into a bool first (`let degenerate = na <= 0.0 ||
    nb <= 0.0; if degenerate { return .. }`): then every comparison stored into that bool is a guard when the constants
    stored into it all send control to the other side."""
    out = set()
    defs = b.defs()
    flags = [l for l, (ty, name) in enumerate(b.locals) if ty == "bool" and any(d[0] == "stmt" and d[4][0] == "use" and d[4][1][0] == "k" for d in defs.get(l, []))]
    for i in sorted(b.live_blocks()):
        t = b.blocks[i]["t"]
        if t[0] != "switch" or t[1][0] == "k" or i == block or not b.dominates(i, block):
            continue
        x = _resolve(b, t[1][1][0])
        ds = [d for d in defs.get(x, []) if d[0] == "stmt" and not d[3][1]]
        if not ds or len(ds) != len(defs.get(x, [])):
            continue
        side = _side(b, i, t, block, [f for f in flags if f != x])
        if side is None or side[0] == side[1]:
            continue
        on_true = side[0]
        cmps, consts, other = [], [], False
        for d in ds:
            rv = d[4]
            v = _float_cmp(rv)
            if v is not None:
                cmps.append(v)
            elif rv[0] == "use" and rv[1][0] == "k":
                consts.append(rv[1][1].strip() == "const true")
            elif rv[0] == "use" and rv[1][0] != "k":
                y = _resolve(b, rv[1][1][0])
                dy = defs.get(y, [])
                v = _float_cmp(dy[0][4]) if len(dy) == 1 and dy[0][0] == "stmt" else None
                if v is None:
                    other = True
                else:
                    cmps.append(v)
            else:
                other = True
        if other or not cmps:
            continue
        if len(ds) > 1 and any(c == on_true for c in consts):
            continue        # a constant stored into the bool leads to the division's side: not every comparison was made
        for v in cmps:
            out |= leaves(b, v)
            out |= {("l", y) for y in od.chain_locals(b, v)}
    return out


def float_divs(b):
    """[(bb, line, divisor operand)] for float divisions with a non-constant divisor (user code only)."""
    out = []
    for i, j, pl, rv, line, exp in b.stmts():
        if rv[0] == "bin" and rv[1] == "Div" and rv[3][0] != "k" and exp != 1:
            if _is_float_ty(b.local_ty(pl[0])):
                out.append((i, line, rv[3]))
    for c in b.calls():
        nm = c.path.rsplit("::", 1)[-1]
        if nm == "div" and ("f32 as" in c.path or "f64 as" in c.path) and len(c.args) == 2 and c.args[1][0] != "k":
            out.append((c.bb, c.line, c.args[1]))
    return out


def _parent_guard(F, path, idx):
    """Is capture #idx of closure `path` guarded in the parent at the closure's construction?  None = cannot tell."""
    parent = path.rsplit("::{closure", 1)[0]
    if parent not in F.fns:
        return None
    pb = Body(F.mir(parent), F.fns[parent])
    for i, j, pl, rv, line, exp in pb.stmts():
        if rv[0] == "agg" and rv[1].startswith("closure:") and rv[1][8:] == path:
            if idx >= len(rv[2]):
                return None
            lv = leaves(pb, rv[2][idx])
            if not lv:
                return True
            g = guarded_leaves(pb, i)
            un = [x for x in lv if x != ("floored",) and x not in g]
            ups = [x for x in un if x[0] == "up"]
            if ups and len(ups) == len(un) and "{closure" in parent:
                return all(_parent_guard(F, parent, u[1]) for u in ups)
            return not un
    return None


def unguarded(F, path):
    """[(line, description)] float divisions in `path` with an unguarded divisor leaf; also returns the count analysed."""
    r = F.fns[path]
    b = Body(F.mir(path), r)
    bad, n = [], 0
    for bb, line, dv in float_divs(b):
        n += 1
        lv = leaves(b, dv)
        if not lv:
            continue
        g = guarded_leaves(b, bb)
        miss = []
        for x in sorted(lv):
            if x == ("floored",) or x in g:
                continue
            if x[0] == "up":
                pg = _parent_guard(F, path, x[1])
                if pg:
                    continue
                miss.append("captured variable #%d" % x[1])
            else:
                miss.append("`%s`" % (b.local_name(x[1]) or "_%d" % x[1]))
        if miss:
            bad.append((line, ", ".join(miss)))
    return bad, n
