"""C18 — tenant quotas under every interleaving: check and count in one critical section,
release on failure, recovery sets usage."""
import re as _re
from ..cfg import Body
from ..report import where
from .. import orderdom as od

LEVEL = "other"
PM = "samyama::persistence::PersistenceManager::"
TM = "samyama::persistence::tenant::TenantManager::"
COUNT_FIELDS = ("ResourceUsage.node_count", "ResourceUsage.edge_count")


def analyse_tm(F, path):
    """Summary of a TenantManager method: does it check the quota, does it add to / assign a usage
    counter, and do both happen under one `usage` write guard."""
    from .. import inline as inl_
    b = inl_.body(F, path, inl_.private_helpers(F, path))      # `check_then_count(entry, ..)` and the like are read in place
    r = b.fn
    # accessor methods handing out `&mut` to a usage counter (`counter_mut(resource) -> Option<&mut usize>`)
    counter_refs = set()
    for p_, r_ in F.fns.items():
        if p_.startswith("samyama::persistence::tenant::") and _re.search(r"&('\w+ )?mut usize", r_["sig"].rsplit("->", 1)[-1]) and "{closure" not in p_:
            m_ = F.mir(p_)
            if m_ and any(st[1][0] == "ref" and st[1][1] == 1 and any(isinstance(x, str) and any(x.endswith(cf) for cf in COUNT_FIELDS) for x in st[1][2][1]) for blk in m_["blocks"] for st in blk["s"]):
                counter_refs.add(p_)
    acq = []
    for c in b.calls():
        if c.path.rsplit("::", 1)[-1] == "write" and "RwLock" in c.path:
            # which field?
            a = c.args[0]
            if any(x.endswith("TenantManager.usage") for x in od.chain_fields(b, a)):
                acq.append(c)
    checks = [c for c in b.calls() if c.path.endswith("ResourceUsage::check_quota")]
    adds, sets = [], []
    for i, j, pl, rv, line, exp in b.stmts():
        fl = [p[2:] for p in pl[1] if p.startswith("f:")]
        via_ref = False
        if not fl and pl[1] == ["*"] and counter_refs:
            og_ = b.origins(pl[0], through_calls=lambda cc: [0] if cc.path.rsplit("::", 1)[-1] in ("branch", "unwrap", "expect", "as_mut", "as_deref_mut") else None)
            via_ref = any(o[0] == "call" and o[1].path in counter_refs for o in og_)
        if via_ref or (fl and any(fl[-1].endswith(cf) for cf in COUNT_FIELDS)):
            og = b.origins(pl[0]) if False else None
            # rvalue derived from the same field (+=) or not (=)
            e = od.expr_of(b, rv[1]) if rv[0] == "use" else None
            if rv[0] == "use" and rv[1][0] != "k":
                src = od.expr_of(b, rv[1])
                txt = str(src)
                if "arith" in txt and ("+" in txt):
                    adds.append((i, line))
                elif "arith" in txt or "saturating_sub" in txt:
                    pass
                else:
                    sets.append((i, line))
            elif rv[0] == "use":
                sets.append((i, line))
    return {"r": r, "b": b, "acq": acq, "checks": checks, "adds": adds, "sets": sets}


def run(ctx, F, cg):
    ctx.rule("R18a", "each creation path calls one TenantManager method in whose body the quota check and the usage increment both lie inside the live range of a single write guard on `usage`")
    ctx.rule("R18b", "that reservation dominates the WAL and storage writes, its error is propagated, and every error exit after it passes a release (decrement_usage)")
    ctx.rule("R18c", "recover() assigns usage (set) and reaches no additive usage update")
    tms = {p: analyse_tm(F, p) for p in F.fns if p.startswith(TM) and "{closure" not in p}
    ctx.floor("R18", "TenantManager methods", len(tms), 8)
    reservers = {}
    for p, s in tms.items():
        if s["checks"] and s["adds"] and len(s["acq"]) == 1:
            b = s["b"]
            a = s["acq"][0]
            inside = all(b.dominates(a.bb, c.bb) for c in s["checks"]) and all(b.dominates(a.bb, i) for i, l in s["adds"])
            # the guard local: result of unwrap of the acquisition; dropped where?
            guard_drops = set()
            gl = set()
            for c in b.calls():
                if c.args and c.args[0][0] != "k" and c.args[0][1][0] == a.dest[0] and c.path.rsplit("::", 1)[-1] in ("unwrap", "expect", "unwrap_or_else"):
                    gl.add(c.dest[0])
            for i in b.live_blocks():
                t = b.blocks[i]["t"]
                if t[0] == "drop" and t[1][0] in gl:
                    guard_drops.add(i)
            # no drop of the guard between the check and an increment
            between = False
            for c in s["checks"]:
                for i, l in s["adds"]:
                    for d in guard_drops:
                        if d in b.reachable(c.bb) and i in b.reachable(d):
                            between = True
            if inside and not between and gl:
                reservers[p] = s
    from ..wrappers import thin_wrappers
    from .. import mutpoints as mp_
    REL = {TM + "decrement_usage"} | thin_wrappers(F, lambda c_: c_ == TM + "decrement_usage", "samyama::persistence::")
    creators = []
    for nm in ("persist_create_node", "persist_create_edge"):
        r = F.fn(PM + nm)
        b = Body(F.mir(r["path"]), r)
        ctx.saw_fn(r["path"]); ctx.saw_calls(len(b.calls()))
        res = [c for c in b.calls() if c.path in reservers]
        if not res:
            # the reservation may sit in a helper of the persistence manager that this entry point delegates to
            for hc in b.calls():
                if hc.path.startswith(PM) and hc.path in F.fns and hc.path != r["path"]:
                    hb_ = Body(F.mir(hc.path), F.fns[hc.path])
                    if any(c.path in reservers for c in hb_.calls()):
                        r, b = F.fns[hc.path], hb_
                        res = [c for c in b.calls() if c.path in reservers]
                        ctx.saw_fn(hc.path)
                        break
        sep_check = [c for c in b.calls() if c.path == TM + "check_quota"]
        sep_inc = [c for c in b.calls() if c.path == TM + "increment_usage"]
        if not res:
            why = "quota is checked by check_quota() and counted later by increment_usage() under a different lock acquisition: two concurrent creations can both pass the check" if sep_check and sep_inc else "no atomic check-and-count call found"
            ctx.violation("R18a", nm + "|check-then-act", where(r), why)
            continue
        k = res[0]
        ctx.saw_fn(k.path)
        ctx.ok("R18a", nm, "%s checks and counts under one `usage` write guard" % k.path.replace(TM, ""))
        # R18b
        writes = []
        par_cache = {}
        for c in b.calls():
            if c.path in F.fns and c.path != k.path:
                par = cg.reach([c.path], max_depth=3)
                if any(x.endswith("wal::Wal::append") or x.endswith("PersistentStorage::put_node") or x.endswith("PersistentStorage::put_edge") for x in par):
                    writes.append(c)
            elif c.path.endswith("wal::Wal::append") or "PersistentStorage::put_" in c.path:
                writes.append(c)
        prop = any(cc.path.endswith("Try>::branch") and cc.args and cc.args[0][0] != "k" and cc.args[0][1][0] == k.dest[0] for cc in b.calls())
        if not prop:
            # the explicit form: `if let Err(e) = reserve(..) { return Err(..) }` — no write on the failure side
            side = mp_.some_side(b, k)
            if side is not None:
                sb_, ok_t = side
                t_ = b.blocks[sb_]["t"]
                fails = [tgt for v, tgt in t_[2] if tgt != ok_t] + ([t_[3]] if t_[3] != ok_t else [])
                freach = set()
                for ft in fails:
                    freach |= b.reachable(ft, avoid={sb_})
                errb = {i for i, j, pl, rv, line, exp in b.stmts() if pl[0] == 0 and rv[0] == "agg" and rv[1].endswith("Result::Err")}
                prop = bool(fails) and not any(w.bb in freach for w in writes) and bool(errb & freach)
        dom = all(b.dominates(k.bb, w.bb) for w in writes)
        rel = [c for c in b.calls() if c.path in REL]
        # error exits after the reservation: the result of the writes is Err => release passed.
        released = False
        if rel and writes:
            w = writes[-1]
            # release is control-dependent on the write result being an error (is_err / match Err)
            released = any(b.dominates(w.bb, c.bb) for c in rel)
            # and `?` is not applied to the write result before the release
            q_before = [cc for cc in b.calls() if cc.path.endswith("Try>::branch") and cc.args and cc.args[0][0] != "k" and any(cc.args[0][1][0] == w2.dest[0] for w2 in writes)]
            if q_before:
                released = False
            if not released and not q_before:
                # the match form: every path from the write's failure side to a return passes a release
                side = mp_.some_side(b, w)
                if side is not None:
                    sb_, ok_t = side
                    t_ = b.blocks[sb_]["t"]
                    fails = [tgt for v, tgt in t_[2] if tgt != ok_t] + ([t_[3]] if t_[3] != ok_t else [])
                    relb = {c.bb for c in rel}
                    rets = b.ret_blocks()
                    released = bool(fails) and all(b.must_pass(ft, rb, relb) for ft in fails for rb in rets if rb in b.reachable(ft, avoid={sb_}))
        # the unit is given back in exactly one place: nothing called after the reservation adjusts usage itself,
        # and no path passes two releases
        double = None
        for w in writes:
            if w.path in F.fns:
                for tgt in ("decrement_usage", "increment_usage", "set_usage", "reserve_usage"):
                    hits = cg.find_reaching(w.path, ["TenantManager::" + tgt])
                    if hits:
                        double = "%s also reaches TenantManager::%s (%s): on that path usage is adjusted twice" % (w.path.replace(PM, ""), tgt, " -> ".join(x.rsplit("::", 1)[-1] for x in hits[0]))
        for a_ in rel:
            for b_ in rel:
                if a_ is not b_ and b_.bb in b.reachable(a_.bb) and a_.bb != b_.bb:
                    double = "two decrement_usage calls lie on one path"
        if double:
            ctx.violation("R18b", nm + "|double-release", where(r, k.line), double)
        elif prop and dom and released:
            ctx.ok("R18b", nm, "reservation dominates %d write call(s), is propagated with `?`, and a failed write passes decrement_usage" % len(writes))
        else:
            ctx.violation("R18b", nm + "|reserve-release", where(r, k.line), "reservation protocol broken: error propagated=%s, dominates writes=%s, released on failure=%s" % (prop, dom, released))
    # ---- R18d: a unit is given back only if it was taken ------------------------------------------------------------
    ctx.rule("R18d", "a release follows a successful reservation only: wherever a function of the persistence layer both reserves and releases, the Result whose failure triggers decrement_usage does not derive from the reservation's own Result (a refused creation never took a unit, so giving one back lowers the counter below what is stored and lets the next creation through)")
    n_rr = 0
    for p_, r_ in sorted(F.fns.items()):
        if not p_.startswith("samyama::persistence::") or "::tests::" in p_ or "{closure" in p_:
            continue
        if not any(c in reservers for c in r_["calls"]) or not any(c in REL for c in r_["calls"]):
            continue
        bb_ = Body(F.mir(p_), r_)
        n_rr += 1
        short = p_.replace(PM, "").replace("samyama::persistence::", "")
        resv = [c for c in bb_.calls() if c.path in reservers]
        rels = [c for c in bb_.calls() if c.path in REL]
        bad = None
        COMB = ("as_ref", "map_err", "and_then", "or_else", "map", "branch")
        for rc in rels:
            for i in sorted(bb_.live_blocks()):
                t = bb_.blocks[i]["t"]
                if t[0] != "switch" or t[1][0] == "k" or not bb_.dominates(i, rc.bb):
                    continue
                l = t[1][1][0]
                fail_t = None
                src_local = None
                ds = bb_.defs().get(l, [])
                if len(ds) == 1 and ds[0][0] == "stmt" and ds[0][4][0] == "discr":
                    src_local = ds[0][4][1][0]
                    ty = bb_.local_ty(src_local)
                    if ty.startswith("std::result::Result<") or ty.startswith("std::ops::ControlFlow<"):
                        one = [tgt for v, tgt in t[2] if v == "1"]
                        fail_t = one[0] if one else t[3]
                elif len(ds) == 1 and ds[0][0] == "call" and ds[0][2].path.rsplit("::", 1)[-1] in ("is_err", "is_ok") and ds[0][2].args and ds[0][2].args[0][0] != "k":
                    src_local = ds[0][2].args[0][1][0]
                    zero = [tgt for v, tgt in t[2] if v == "0"]
                    fail_t = t[3] if ds[0][2].path.endswith("is_err") else (zero[0] if zero else None)
                if fail_t is None or src_local is None:
                    continue
                if rc.bb not in bb_.reachable(fail_t, avoid={i}):
                    continue        # the release is not on the failure side of this test
                og = bb_.origins(src_local, through_calls=lambda cc: list(range(len(cc.args))) if cc.path.rsplit("::", 1)[-1] in COMB else None)
                if any(o[0] == "call" and o[1].path in reservers for o in og):
                    bad = (rc, i)
        if bad:
            ctx.violation("R18d", short + "|release-on-refused-reservation", where(r_, bad[0].line), "%s gives a unit back (decrement_usage) on the failure of a value that includes the reservation's own result: a creation refused by the quota lowers the usage counter, which then falls below the number of stored entities" % short)
        else:
            ctx.ok("R18d", short, "the release depends only on the outcome of the write, not of the reservation")
    ctx.floor("R18d", "functions that reserve and release", n_rr, 1)
    # ---- R18c -------------------------------------------------------------------------------------------
    rec = F.fn(PM + "recover")
    b = Body(F.mir(rec["path"]), rec)
    ctx.saw_fn(rec["path"])
    additive = [p for p, s in tms.items() if s["adds"]]
    setters = [p for p, s in tms.items() if s["sets"] and not s["adds"]]
    calls_add = [c for c in b.calls() if c.path in additive]
    calls_set = [c for c in b.calls() if c.path in setters]
    if calls_add:
        ctx.violation("R18c", "recover|additive-usage", where(rec, calls_add[0].line), "recover() adds the recovered counts to usage with %s: recovering twice (or after creations) counts entities twice" % calls_add[0].path.replace(TM, ""))
    elif len(calls_set) >= 2:
        ctx.ok("R18c", "recover|sets-usage", "usage assigned through %s (%d calls)" % (calls_set[0].path.replace(TM, ""), len(calls_set)))
    else:
        ctx.violation("R18c", "recover|usage-not-set", where(rec), "recover() does not set node and edge usage from what it recovered")
    return ("Decided: the race clause structurally — the quota comparison and the counter increment are inside one write-guard live range in one "
            "function, so no interleaving of creators can separate them; the reservation precedes all I/O and is released when the I/O fails; "
            "recovery assigns rather than adds. Not decided: usage vs. overwriting puts of an existing id, crash between reservation and write "
            "(usage is in-memory and rebuilt by recovery).")
