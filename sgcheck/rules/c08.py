"""C08 — version GC preserves the reads it must: base version kept, exclusive drain, watermark = min
start_version over active transactions, auto GC uses it."""
from ..cfg import Body
from ..report import where
from .. import orderdom as od
from .. import storemodel as sm

LEVEL = "other"
GS = sm.GS


def run(ctx, F, cg):
    ctx.rule("R08a", "the base-version search in gc_versions is rposition(|e| e.version <= watermark): evaluated over {w-1, w, w+1} the predicate is [true, true, false]")
    ctx.rule("R08b", "every drain in gc_versions is an exclusive RangeTo whose end is that rposition result (the base version survives)")
    ctx.rule("R08c", "gc_auto passes gc_watermark()'s result to gc_versions")
    ctx.rule("R08d", "gc_watermark = min over transactions filtered on status == Active of start_version, defaulting to current_version")
    gv = sm.fn_of(F, "gc_versions")
    b = Body(F.mir(gv["path"]), gv)
    ctx.saw_fn(gv["path"]); ctx.saw_calls(len(b.calls()))
    rps = [c for c in b.calls() if c.path.rsplit("::", 1)[-1] in ("rposition", "position", "partition_point", "rfind", "find")]
    drains = [c for c in b.calls() if c.path.rsplit("::", 1)[-1] in ("drain", "truncate", "split_off", "retain")and ("node::Node" in c.full or "EdgeVersionEntry" in c.full)]
    ctx.floor("R08a", "base-version searches in gc_versions", len(rps), 2)
    ctx.floor("R08b", "prunes in gc_versions", len(drains), 2)
    for k, c in enumerate(rps):
        inst = "gc_versions|search|%d" % k
        if c.path.rsplit("::", 1)[-1] != "rposition":
            ctx.violation("R08a", inst, where(gv, c.line), "base version located with %s instead of rposition: not the latest version <= watermark" % c.path.rsplit("::", 1)[-1])
            continue
        W = 10
        tab, desc, proots = od.predicate_table(F, b, c, [W - 1, W, W + 1], W)
        if tab is None:
            ctx.violation("R08a", inst, where(gv, c.line), "cannot classify the predicate: %s" % desc)
        elif tab != [True, True, False]:
            ctx.violation("R08a", inst, where(gv, c.line), "predicate %s is %s on versions {w-1, w, w+1}; expected [True, True, False] (latest version at or below the watermark)" % (desc, tab))
        else:
            # the captured quantity must be the watermark parameter
            if proots and proots[0] == ("param", 2):
                ctx.ok("R08a", inst, "rposition(%s) over the watermark parameter" % desc)
            else:
                ctx.violation("R08a", inst, where(gv, c.line), "the predicate compares with %s, not the watermark parameter" % ([od.show(x) for x in proots] if proots else "nothing"))
    for k, c in enumerate(drains):
        inst = "gc_versions|prune|%d" % k
        m = c.path.rsplit("::", 1)[-1]
        if m != "drain":
            ctx.violation("R08b", inst, where(gv, c.line), "versions pruned through %s: not analysed" % m)
            continue
        if "RangeTo<usize>" not in c.full or "RangeToInclusive" in c.full:
            ctx.violation("R08b", inst, where(gv, c.line), "drain range is %s: an inclusive or open range removes the base version reads at the watermark need" % c.full[c.full.rfind("::<"):])
            continue
        og = b.origins(c.args[1][1][0]) if len(c.args) > 1 and c.args[1][0] != "k" else []
        if any(o[0] == "call" and o[1].path.rsplit("::", 1)[-1] == "rposition" for o in og):
            ctx.ok("R08b", inst, "drain(..idx) with idx = the rposition result")
        else:
            ctx.violation("R08b", inst, where(gv, c.line), "the drain bound does not come from the base-version search")
    # ---- R08c ------------------------------------------------------------------------------------------
    ga = sm.fn_of(F, "gc_auto")
    gb = Body(F.mir(ga["path"]), ga)
    ctx.saw_fn(ga["path"])
    gvc = gb.calls_to(["GraphStore::gc_versions"])
    ok = False
    if gvc:
        a = gvc[0].args[1]
        og = gb.origins(a[1][0]) if a[0] != "k" else []
        ok = any(o[0] == "call" and o[1].path.endswith("GraphStore::gc_watermark") for o in og) and not any(o[0] == "bin" for o in og)
    if ok:
        ctx.ok("R08c", "gc_auto|uses-watermark", "gc_versions(gc_watermark())")
    else:
        ctx.violation("R08c", "gc_auto|uses-watermark", where(ga), "gc_auto does not collect at exactly gc_watermark()")
    # ---- R08d ------------------------------------------------------------------------------------------
    gw = sm.fn_of(F, "gc_watermark")
    wb = Body(F.mir(gw["path"]), gw)
    ctx.saw_fn(gw["path"])
    names = [c.path.rsplit("::", 1)[-1] for c in wb.calls()]
    problems = []
    if "min" not in names or "max" in names:
        problems.append("aggregates with %s, not min" % [n for n in names if n in ("max", "min", "last", "first", "next")])
    # filter closure compares status with Active
    fil = [c for c in wb.calls() if c.path.rsplit("::", 1)[-1] == "filter"]
    okf = False
    for c in fil:
        co = od.closure_of(wb, c.args[1]) if len(c.args) > 1 else None
        if co:
            cr = F.fns.get(co[0])
            cm = F.mir(co[0])
            if cr and any(x.endswith("Transaction.status") for x in cr["r"]) and "TxnStatus::Active" in str(cm):
                okf = True
    if not okf:
        problems.append("transactions are not filtered on status == Active")
    mp = [c for c in wb.calls() if c.path.rsplit("::", 1)[-1] == "map"]
    okm = False
    for c in mp:
        co = od.closure_of(wb, c.args[1]) if len(c.args) > 1 else None
        if co and F.fns.get(co[0]) and any(x.endswith("Transaction.start_version") for x in F.fns[co[0]]["r"]):
            okm = True
    if not okm:
        problems.append("the aggregated quantity is not Transaction.start_version")
    uo = [c for c in wb.calls() if c.path.rsplit("::", 1)[-1] in ("unwrap_or", "unwrap_or_else", "map_or")]
    okd = any(len(c.args) > 1 and c.args[1][0] != "k" and any(x.endswith("GraphStore.current_version") for x in od.chain_fields(wb, c.args[1])) for c in uo)
    if not okd:
        problems.append("the default is not current_version")
    if problems:
        ctx.violation("R08d", "gc_watermark|definition", where(gw), "; ".join(problems))
    else:
        ctx.ok("R08d", "gc_watermark|definition", "min(start_version of Active transactions) or current_version")
    return ("Decided: the predicate/range/aggregate shape that makes GC read-preserving: the base version (latest <= watermark) is found from the right end, "
            "everything strictly before it is drained, and the automatic watermark is the minimum start version of active transactions. "
            "Not decided: reads across the watermark for edges whose log starts after creation (a C07 matter).")
