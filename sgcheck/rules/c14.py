"""C14 — imported snapshots survive restart and crashes: file-system protocol order of
persist_snapshot (the crash points are the CFG edges), restore agrees, a persist error is not
acknowledged as success, restore at boot."""
from ..cfg import Body
from ..report import where
from .. import mutpoints as mp_
from .. import orderdom as od

LEVEL = "other"
MOD = "samyama::snapshot::persist::"


def const_value(F, name):
    for p, c in F.consts.items():
        if p.endswith("::" + name) or p == name:
            src = c["src"]
            if '"' in src:
                return src.split('"')[1]
    return None


def classify_paths(F, b):
    """join() results by role: final / tmp / marker; dir = the receiver of the joins."""
    roles = {}
    dirs = set()
    tmp_s = const_value(F, "TMP_SUFFIX") or ".tmp"
    com_s = const_value(F, "COMMITTED_SUFFIX") or ".committed"
    for c in b.calls():
        if c.path.rsplit("::", 1)[-1] == "join" and "Path" in c.path:
            txt = b.operand_text(c.args[1]) if len(c.args) > 1 else ""
            # format!-built names: look at the constants feeding the formatted string
            if len(c.args) > 1 and c.args[1][0] != "k":
                for o in b.origins(c.args[1][1][0], through_calls=lambda cc: [0, 1] if cc.path.rsplit("::", 1)[-1] in ("format", "must_use", "new", "new_display", "to_string", "into") else None):
                    if o[0] == "const":
                        txt += " " + b.const_text(o[1][1])
            role = "final"
            if "TMP_SUFFIX" in txt or tmp_s in txt:
                role = "tmp"
            elif "COMMITTED_SUFFIX" in txt or com_s in txt:
                role = "marker"
            roles[c.dest[0]] = role
            if c.args and c.args[0][0] != "k":
                dirs |= od.chain_locals(b, c.args[0])
        elif c.path.startswith(MOD) and c.path in F.fns and "PathBuf" in F.fns[c.path]["sig"].rsplit("->", 1)[-1] and b.path != c.path:
            # a path-building helper of the module (`sibling_of_snapshot(dir, SUFFIX)`): the role is decided by the
            # constants it joins, its own and the ones passed in; its first path argument is the directory
            hm = F.mir(c.path)
            if hm is None or not any(t_["t"][0] == "call" and t_["t"][1].get("p", "").rsplit("::", 1)[-1] == "join" for t_ in hm["blocks"]):
                continue
            txt = " ".join(str(x) for blk in hm["blocks"] for st in blk["s"] for x in [st[1]] if "const" in str(x)) + " " + str(hm.get("prom"))
            for a in c.args:
                if a[0] == "k":
                    txt += " " + b.const_text(a[1])
                else:
                    txt += " " + b.operand_text(a)
            role = "final"
            if "TMP_SUFFIX" in txt or tmp_s in txt:
                role = "tmp"
            elif "COMMITTED_SUFFIX" in txt or com_s in txt:
                role = "marker"
            roles[c.dest[0]] = role
            if c.args and c.args[0][0] != "k":
                dirs |= od.chain_locals(b, c.args[0])
    for l in list(roles):
        if l in dirs and roles[l] == "final":
            del roles[l]        # a built path that is itself joined onto is a directory (`snapshot_dir(data)`), not a file
    return roles, dirs


def role_of(b, roles, dirs, op):
    if op[0] == "k":
        return None
    ch = od.chain_locals(b, op)
    for l, r in roles.items():
        if l in ch:
            return r
    if ch & dirs:
        return "dir"
    return None


def fs_events(F, b, _depth=0, _param_role=None):
    """(call, kind, role) for file-system effect calls; sync_all gets the role of the path its handle was opened on."""
    roles, dirs = classify_paths(F, b)
    if _param_role:
        roles = dict(roles)
        roles.update(_param_role)
    handle_role = {}
    ev = []
    for c in b.calls():
        m = c.path.rsplit("::", 1)[-1]
        if c.path.startswith("std::fs::") or "std::fs::File" in c.path or "OpenOptions" in c.path:
            if m in ("create", "open", "create_new") and "File" in c.path:
                r = role_of(b, roles, dirs, c.args[0])
                handle_role[c.dest[0]] = r
                ev.append((c, "create" if m != "open" else "open", r))
            elif m in ("remove_file", "remove_dir", "remove_dir_all"):
                ev.append((c, "remove", role_of(b, roles, dirs, c.args[0])))
            elif m == "rename":
                ev.append((c, "rename", (role_of(b, roles, dirs, c.args[0]), role_of(b, roles, dirs, c.args[1]))))
            elif m in ("write", "copy"):
                ev.append((c, "write", role_of(b, roles, dirs, c.args[-2] if m == "copy" else c.args[0])))
            elif m in ("sync_all", "sync_data"):
                # handle origin
                r = None
                og = b.origins(c.args[0][1][0], through_calls=lambda cc: [0] if cc.path.rsplit("::", 1)[-1] in ("branch", "unwrap", "expect") else None) if c.args[0][0] != "k" else []
                for o in og:
                    if o[0] in ("call", "via") and o[1].dest[0] in handle_role:
                        r = handle_role[o[1].dest[0]]
                ev.append((c, "sync", r))
        elif m == "write_all":
            ev.append((c, "write_all", None))
        elif _depth == 0 and c.path.startswith(MOD) and c.path in F.fns and c.path != b.path and "Result<" in F.fns[c.path]["sig"].rsplit("->", 1)[-1] and c.args and c.args[0][0] != "k" and "Path" in b.local_ty(c.args[0][1][0]):
            # an effect helper of the module (`write_and_sync(path, ..)`, `sync_directory(dir)`): the file-system
            # steps it performs on its path parameter on every non-error path happen here, on the argument's path
            hm = F.mir(c.path)
            if hm is None:
                continue
            hb = Body(hm, F.fns[c.path])
            hev, _, _ = fs_events(F, hb, _depth=1, _param_role={1: "P"})
            errs = {cc.bb for cc in hb.calls() if cc.path.endswith("from_residual")} | {i for i, j, pl, rv, line, exp in hb.stmts() if pl[0] == 0 and rv[0] == "agg" and rv[1].endswith("Result::Err")}
            rets = hb.ret_blocks()
            outer = role_of(b, roles, dirs, c.args[0])
            for hc, kind, r in hev:
                if not rets or not all(hb.must_pass(0, rb, {hc.bb} | errs) for rb in rets):
                    continue        # a conditional step inside the helper is not a step of the protocol
                if kind == "write_all":
                    ev.append((c, kind, None))
                elif r == "P":
                    ev.append((c, kind, outer))
    return ev, roles, dirs


def run(ctx, F, cg):
    ctx.rule("R14a", "persist_snapshot never removes the final file or the marker, and no destructive call on them precedes the fsync of the new data file")
    ctx.rule("R14b", "rename(tmp, final) is dominated by write_all and sync_all on the tmp file")
    ctx.rule("R14c", "the marker is created after the rename; every path from each directory-entry change (rename, marker creation) to Ok passes an fsync of the marker file and of a handle on the directory")
    ctx.rule("R14d", "restore_persisted_snapshots reads the snapshot only when both the final file and the marker exist")
    ctx.rule("R14e", "in the import handler a persist_snapshot error leads to an error status, never to the success reply")
    ctx.rule("R14h", "the import handler persists an upload only after importing it successfully: the import call dominates persist_snapshot, which lies on the import's success side")
    ctx.rule("R14f", "the server restores the persisted snapshot at boot whether or not RocksDB recovery found data")
    ctx.rule("R14g", "what is persisted is cumulative: the bytes written derive from an export of the post-import store, or the file name is unique per import")
    ps = F.fn(MOD + "persist_snapshot")
    b = Body(F.mir(ps["path"]), ps)
    ctx.saw_fn(ps["path"]); ctx.saw_calls(len(b.calls()))
    ev, roles, dirs = fs_events(F, b)
    ctx.floor("R14", "file-system effect calls in persist_snapshot", len(ev), 6)
    if set(roles.values()) != {"final", "tmp", "marker"}:
        ctx.anchor_failure("R14", "final/tmp/marker paths in persist_snapshot (found roles %s)" % sorted(set(roles.values())))
        return "anchor failure"
    tmp_sync = [c for c, k, r in ev if k == "sync" and r == "tmp"]
    renames = [c for c, k, r in ev if k == "rename" and r == ("tmp", "final")]
    # R14a
    bad = False
    for c, k, r in ev:
        if k == "remove" and r in ("final", "marker"):
            bad = True
            ctx.violation("R14a", "persist_snapshot|removes-%s" % r, where(ps, c.line),
                          "remove_file on the %s: a crash after this point and before the new marker is durable loses the previous, already acknowledged import" % r)
        elif k == "create" and r in ("final",):
            bad = True
            ctx.violation("R14a", "persist_snapshot|truncates-final", where(ps, c.line), "File::create truncates the final snapshot in place: a crash leaves a partial file under the committed name")
        elif k in ("rename", "create") and (r == "marker" or (isinstance(r, tuple) and r[1] in ("final", "marker"))):
            if not any(b.dominates(s.bb, c.bb) for s in tmp_sync):
                bad = True
                ctx.violation("R14a", "persist_snapshot|destructive-before-fsync|%s" % k, where(ps, c.line), "%s on %s is not dominated by the fsync of the new data file" % (k, r))
    if not bad:
        ctx.ok("R14a", "persist_snapshot|no-early-destruction", "no removal of final/marker; rename and marker creation follow sync_all(tmp)")
    # R14b
    if not renames:
        ctx.violation("R14b", "persist_snapshot|no-atomic-rename", where(ps), "the new snapshot is not installed by rename(tmp, final)")
    else:
        rn = renames[0]
        wa = [c for c, k, r in ev if k == "write_all"]
        ok = any(b.dominates(w.bb, rn.bb) for w in wa) and any(b.dominates(s.bb, rn.bb) for s in tmp_sync)
        if ok and all(any(b.dominates(w.bb, s.bb) for w in wa) for s in tmp_sync):
            ctx.ok("R14b", "persist_snapshot|write-sync-rename", "write_all -> sync_all(tmp) -> rename")
        else:
            ctx.violation("R14b", "persist_snapshot|rename-before-fsync", where(ps, rn.line), "rename(tmp, final) is not dominated by write_all and sync_all of the tmp file")
    # R14c
    mk = [c for c, k, r in ev if k == "create" and r == "marker"]
    oks = [i for i, j, pl, rv, line, exp in b.stmts() if pl[0] == 0 and rv[0] == "agg" and rv[1].endswith("Result::Ok")]
    # a tail call whose Result is returned as it is (`sync_directory(&dir)` as the last expression): its success is a
    # success exit of this function, reached just after the call
    oks += [c.target for c in b.calls() if c.dest[0] == 0 and not c.dest[1] and c.target is not None and "Result<" in b.local_ty(0)
            and not c.path.endswith("from_residual") and c.path.rsplit("::", 1)[-1] not in ("from", "into", "map_err", "Err")]
    if not oks:
        ctx.violation("R14c", "persist_snapshot|no-success-exit", where(ps), "cannot find where persist_snapshot returns Ok: the protocol after the rename is not analysed")
    msync = {c.bb for c, k, r in ev if k == "sync" and r == "marker"}
    dsync = {c.bb for c, k, r in ev if k == "sync" and r == "dir"}
    if not mk or not renames:
        ctx.violation("R14c", "persist_snapshot|no-marker", where(ps), "no marker creation after the rename")
    else:
        if not b.dominates(renames[0].bb, mk[0].bb):
            ctx.violation("R14c", "persist_snapshot|marker-before-rename", where(ps, mk[0].line), "the marker can be created before the new snapshot is in place")
        else:
            ctx.ok("R14c", "persist_snapshot|marker-after-rename", "marker creation dominated by the rename")
        for o in oks:
            if not b.must_pass(mk[0].target, o, msync):
                ctx.violation("R14c", "persist_snapshot|marker-not-fsynced", where(ps, mk[0].line), "Ok is reachable without fsync of the marker file")
            else:
                ctx.ok("R14c", "persist_snapshot|marker-fsynced", "every path marker -> Ok passes sync_all(marker)")
            for nm, e in (("rename", renames[0]), ("marker", mk[0])):
                if not dsync or not b.must_pass(e.target, o, dsync):
                    ctx.violation("R14c", "persist_snapshot|dir-not-fsynced|" + nm, where(ps, e.line),
                                  "after the %s no fsync of the directory lies on every path to Ok: after power loss the directory entry may be gone although the import was acknowledged" % nm)
                else:
                    ctx.ok("R14c", "persist_snapshot|dir-fsynced|" + nm, "directory fsync on every path %s -> Ok" % nm)
    # ---- R14d ------------------------------------------------------------------------------------------
    rs = F.fn(MOD + "restore_persisted_snapshots")
    rb = Body(F.mir(rs["path"]), rs)
    ctx.saw_fn(rs["path"]); ctx.saw_calls(len(rb.calls()))
    rroles, rdirs = classify_paths(F, rb)
    ex = {}
    for c in rb.calls():
        if c.path.rsplit("::", 1)[-1] in ("exists", "is_file", "try_exists", "metadata"):
            r = role_of(rb, rroles, rdirs, c.args[0])
            if r:
                ex.setdefault(r, []).append(c)
    reads = [c for c in rb.calls() if c.path in ("std::fs::read",) or c.path.endswith("fs::read") or c.path.endswith("File::open")]
    if "final" in ex and "marker" in ex and reads and all(any(rb.dominates(e.bb, rd.bb) for e in ex[k]) for k in ("final", "marker") for rd in reads):
        ctx.ok("R14d", "restore|both-artefacts", "exists(final) and exists(marker) dominate the read")
    else:
        ctx.violation("R14d", "restore|both-artefacts", where(rs), "restore does not require both the snapshot file and its committed marker (found checks on %s)" % sorted(ex))
    # ---- R14e ------------------------------------------------------------------------------------------
    hs = [r for p, r in F.fns.items() if p.startswith("samyama::http::handler::restore_snapshot_handler::") and r["coroutine"]]
    if len(hs) != 1:
        ctx.anchor_failure("R14e", "restore_snapshot_handler coroutine")
    else:
        h = hs[0]
        hb = Body(F.mir(h["path"]), h)
        ctx.saw_fn(h["path"]); ctx.saw_calls(len(hb.calls()))
        pcs = [c for c in hb.calls() if c.path == MOD + "persist_snapshot"]
        if not pcs:
            ctx.violation("R14e", "handler|no-persist", where(h), "the import handler never persists the snapshot")
        for pc in pcs:
            sw = None
            for bb in hb.reachable(pc.bb):
                t = hb.blocks[bb]["t"]
                if t[0] == "switch" and t[1][0] != "k":
                    ds = hb.defs().get(t[1][1][0], [])
                    if ds and ds[0][0] == "stmt" and ds[0][4][0] == "discr" and ds[0][4][1][0] == pc.dest[0]:
                        sw = (bb, t)
                        break
            if sw is None:
                ctx.violation("R14e", "handler|persist-result-dropped", where(h, pc.line), "the result of persist_snapshot is not examined")
                continue
            bb, t = sw
            err_t = [tgt for v, tgt in t[2] if v == "1"]
            ok_t = [tgt for v, tgt in t[2] if v == "0"]
            if not err_t or not ok_t:
                ctx.violation("R14e", "handler|persist-switch", where(h, pc.line), "cannot separate Ok/Err of persist_snapshot")
                continue
            err_reach = hb.reachable(err_t[0], avoid={bb})
            ok_reach = hb.reachable(ok_t[0], avoid={bb})
            err_status = False
            for x in err_reach - ok_reach:
                for s in hb.blocks[x]["s"]:
                    if "StatusCode::" in str(s[1]) and "StatusCode::OK" not in str(s[1]):
                        err_status = True
            rejoin = [x for x in (err_reach & ok_reach) if hb.blocks[x]["t"][0] == "call" and x not in ()]
            # the Err side must end in its own return: it may share only cleanup/drop blocks with the Ok side
            shares_reply = any(hb.blocks[x]["t"][0] == "call" and not hb.blocks[x]["t"][1].get("p", "").startswith(("core::ptr::drop", "std::mem::drop")) and hb.blocks[x]["x"] != 2 for x in (err_reach & ok_reach))
            if err_status and not shares_reply:
                ctx.ok("R14e", "handler|persist-error-surfaced", "Err(persist) leads to an error status and never joins the success reply")
            else:
                ctx.violation("R14e", "handler|persist-error-swallowed", where(h, pc.line), "a failed persist_snapshot is only logged: the import is acknowledged as successful although it will not survive a restart")
        # R14h: only a validated upload replaces the committed snapshot
        imps = [c for c in hb.calls() if c.path.rsplit("::", 1)[-1] in ("import_tenant_with_dedup", "import_tenant")]
        for k_, pc in enumerate(pcs):
            if not imps:
                ctx.violation("R14h", "handler|persist|%d|no-import" % k_, where(h, pc.line), "the handler persists an upload it never imports")
                continue
            ok_order = any(hb.dominates(ic.bb, pc.bb) and ic.bb != pc.bb for ic in imps)
            # and not on the import's failure side
            on_err = False
            for ic in imps:
                side = mp_.some_side(hb, ic) if hasattr(mp_, "some_side") else None
                if side is not None:
                    sw_, ok_t_ = side
                    errside = [x for x in hb.succ(sw_) if x != ok_t_]
                    if any(pc.bb in hb.reachable(x, avoid={sw_}) and pc.bb not in hb.reachable(ok_t_, avoid={sw_}) for x in errside):
                        on_err = True
            if ok_order and not on_err:
                ctx.ok("R14h", "handler|persist|%d" % k_, "persist_snapshot is dominated by the import and lies on its success side")
            else:
                ctx.violation("R14h", "handler|persist|%d|before-validation" % k_, where(h, pc.line),
                              "persist_snapshot can run before the upload has been imported successfully: a rejected (truncated / corrupt) upload replaces the committed snapshot of an earlier acknowledged import, and the next restart restores the corrupt file")
        # R14g: what is persisted
        for pc in pcs:
            a = pc.args[1] if len(pc.args) > 1 else None
            og = hb.origins(a[1][0]) if a and a[0] != "k" else []
            exported = any(o[0] == "call" and "export" in o[1].path for o in og)
            if exported:
                ctx.ok("R14g", "handler|artefact-cumulative", "persisted bytes come from an export of the store")
            else:
                ctx.violation("R14", "restore_snapshot_handler|artefact-not-cumulative", where(h, pc.line),
                              "the uploaded bytes are persisted under one fixed name: after two imports only the last one survives a restart")
    # ---- R14f ------------------------------------------------------------------------------------------
    ss = [r for p, r in F.fns.items() if r["unit"] == "samyama.bin" and any(c == MOD + "restore_persisted_snapshots" for c in r["calls"])]
    if not ss:
        ctx.violation("R14f", "main|never-restores", "src/main.rs", "no function of the server binary calls restore_persisted_snapshots")
    for s in ss:
        sb = Body(F.mir(s["path"]), s)
        ctx.saw_fn(s["path"]); ctx.saw_calls(len(sb.calls()))
        rc = [c for c in sb.calls() if c.path == MOD + "restore_persisted_snapshots"][0]
        gated = False
        for fl in sb.bool_flags():
            if (sb.local_name(fl) or "").startswith("recover"):
                st = sb.reachable_with_flag(0, fl, states=True)
                vals = {v for (bb, v) in st if bb == rc.bb}
                if 1 not in vals:
                    gated = True
        if gated:
            ctx.violation("R14", "main::start_server|restore-gated-on-recovery", where(s, rc.line),
                          "restore_persisted_snapshots is only reached when RocksDB recovery found nothing: once any RESP write has been persisted, an acknowledged import is dropped on restart")
        else:
            ctx.ok("R14f", "main|restore-unconditional", "restore is reached whatever the recovery outcome")
    return ("Decided: the crash clause for persist_snapshot on every CFG path (each edge between file-system calls is a crash point): no early "
            "destruction of the previous artefacts, write -> fsync -> rename -> dir fsync -> marker -> fsyncs; restore requires both artefacts; a persist "
            "failure is not acknowledged; and the boot-time restore and cumulativeness clauses (two known findings). Not decided: file-system semantics below the std::fs calls.")
