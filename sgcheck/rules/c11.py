"""C11 — unique constraints reject exactly the duplicates: constraint-index insert/remove pairing,
check-before-write order, constraint errors not dropped by the write operators."""
from ..cfg import Body
from ..report import where
from ..facts import in_module
from .. import storemodel as sm, pairing
from .. import storerules as sr

LEVEL = "other"
STORE_ERR_FNS = ("set_node_property",)


def dropped_results(F, callee_suffixes, module_prefix="samyama::query::executor::"):
    """Call sites in the executor whose Result from the given GraphStore methods is discarded:
    the destination local is never used (no `?`, no match, no return)."""
    out = []
    total = 0
    for p, r in sorted(F.fns.items()):
        if not in_module(p, module_prefix):
            continue
        if not any(c.rsplit("::", 1)[-1] in callee_suffixes and "GraphStore" in c for c in r["calls"]):
            continue
        b = Body(F.mir(p), r)
        ordn = {}
        for c in b.calls():
            m = c.path.rsplit("::", 1)[-1]
            if m in callee_suffixes and "GraphStore" in c.path:
                total += 1
                k = ordn.get(m, 0)
                ordn[m] = k + 1
                uses = [u for u in b.uses_of(c.dest[0]) if not (u[0] == "stmt" and u[3][0] == c.dest[0])]
                real = [u for u in uses if u[0] in ("call", "switch") or (u[0] == "stmt" and u[4][0] in ("use", "discr", "ref"))]
                if not real:
                    out.append((p, r, c, m, k))
    return out, total


def run(ctx, F, cg):
    ctx.rule("R11a", "the store populates the unique-constraint index (constraint_insert), so every mutator that ends a node's hold on a value (property overwrite, property removal, label removal, node deletion) must reach a removal from that index; otherwise the value stays taken forever and a legitimate write is refused")
    ctx.rule("R11b", "in set_node_property the constraint lookup dominates every write to the column/row stores and a violation returns before them")
    ctx.rule("R11c", "constraint-index maintenance never releases the old value after claiming the new one in one pass (old == new would free a value the node still holds)")
    ctx.rule("R11d", "every fallible store mutator rejects (constraint violation, missing node) before its first mutation: a refused write leaves the constraint index and the node untouched")
    sr.remove_before_insert(ctx, F, cg, "R11c", pairs=(("constraint_insert", "constraint_remove"),))
    sr.validate_then_mutate(ctx, F, cg, "R11d", kinds=("prop-set", "prop-kill", "label-add", "label-kill", "node-add"), floor=3)
    ctx.rule("R04b", "no Result of a constraint-checking store write is discarded by a write operator (a swallowed ConstraintViolation reports success and C05 cannot even see the failure)")
    pairing.matrix(ctx, F, cg, "R11a", "constraint-index", ["IndexManager::constraint_insert"],
                   ["IndexManager::constraint_remove", "IndexManager::constraint_delete", "IndexManager::constraint_release", "IndexManager::release_unique_value"],
                   ["prop-set", "prop-kill", "label-kill", "node-kill"],
                   "%(fn)s (%(kind)s) never removes the node's old value from the unique-constraint index: after it, another node can no longer take that value although no live node holds it")
    # ---- R11b ------------------------------------------------------------------------------------------
    sp = sm.fn_of(F, "set_node_property")
    b = Body(F.mir(sp["path"]), sp)
    ctx.saw_fn(sp["path"]); ctx.saw_calls(len(b.calls()))
    holders = [c for c in b.calls() if c.path.endswith("IndexManager::unique_constraint_holder") or c.path.endswith("IndexManager::check_unique_constraint")]
    writes = [c for c in b.calls() if (c.path.endswith("ColumnStore::set_property") or c.path.endswith("Node::set_property") or c.path.endswith("IndexManager::constraint_insert"))]
    viol = [i for i, j, pl, rv, line, exp in b.stmts() if rv[0] == "agg" and rv[1].endswith("GraphError::ConstraintViolation")]
    if not holders or not viol:
        ctx.violation("R11b", "set_node_property|no-check", where(sp), "set_node_property never checks the unique constraint")
    else:
        before = [w for w in writes if any(w.bb in b.reachable(0, avoid={h.bb}) and not b.dominates(h.bb, w.bb) for h in holders)]
        # a write must not be reachable on a path that has not yet passed the loop of checks: conservative test — every
        # write block is unreachable from entry when the ConstraintViolation-returning region is the only way past a failed check
        leak = [w for w in writes if any(w.bb in b.reachable(v) for v in viol)]
        early = [w for w in writes if not any(True for h in holders) ]
        if leak:
            ctx.violation("R11b", "set_node_property|write-after-violation", where(sp, leak[0].line), "a store write is reachable after a constraint violation was detected")
        else:
            # order: the first write must come after the check loop: no write may reach a holder lookup
            bad = [w for w in writes if any(h.bb in b.reachable(w.bb) for h in holders)]
            if bad:
                ctx.violation("R11b", "set_node_property|write-before-check", where(sp, bad[0].line), "%s happens before the constraint lookup" % bad[0].path.rsplit("::", 1)[-1])
            else:
                ctx.ok("R11b", "set_node_property|check-then-write", "%d store writes, none before the lookup, none after a violation" % len(writes))
    # ---- R04b ------------------------------------------------------------------------------------------
    dropped, total = dropped_results(F, STORE_ERR_FNS)
    ctx.floor("R04b", "executor call sites of constraint-checking store writes", total, 8)
    for p, r, c, m, k in dropped:
        ctx.violation("R04b", "%s|%s|%d" % (p.replace("samyama::query::executor::", ""), m, k), where(r, c.line),
                      "the Result of GraphStore::%s is discarded: a unique-constraint violation is swallowed and the statement reports success" % m)
    if not dropped:
        ctx.ok("R04b", "no-dropped-store-results", "all %d call sites use the Result" % total)
    return ("Decided: whether each way a node can give up a constrained value releases it in the constraint index, that the check precedes the writes, and that "
            "write operators do not discard the store's constraint error. Not decided: value equality classes of the index keys (C10).")
