"""C11 — unique constraints reject exactly the duplicates: constraint-index insert/remove pairing,
check-before-write order, constraint errors not dropped by the write operators."""
from ..cfg import Body
from ..report import where
from ..facts import in_module
from .. import storemodel as sm, pairing
from .. import storerules as sr
from .. import orderdom as od

LEVEL = "other"
STORE_ERR_FNS = ("set_node_property",)


def dropped_results(F, callee_suffixes, module_prefix="samyama::query::executor::"):
    """Call sites in the executor whose Result from the given GraphStore methods is discarded:
    the destination local is never used (no `?`, no match, no return)."""
    out = []
    total = 0
    for p, r in sorted(F.fns.items()):
        if not in_module(p, module_prefix):
            continue
        if not any(c.rsplit("::", 1)[-1] in callee_suffixes and "GraphStore" in c for c in r["calls"]):
            continue
        b = Body(F.mir(p), r)
        ordn = {}
        for c in b.calls():
            m = c.path.rsplit("::", 1)[-1]
            if m in callee_suffixes and "GraphStore" in c.path:
                total += 1
                k = ordn.get(m, 0)
                ordn[m] = k + 1
                uses = [u for u in b.uses_of(c.dest[0]) if not (u[0] == "stmt" and u[3][0] == c.dest[0])]
                real = [u for u in uses if u[0] in ("call", "switch") or (u[0] == "stmt" and u[4][0] in ("use", "discr", "ref"))]
                if not real:
                    out.append((p, r, c, m, k))
    return out, total


def run(ctx, F, cg):
    ctx.rule("R11a", "the store populates the unique-constraint index (constraint_insert), so every mutator that ends a node's hold on a value (property overwrite, property removal, label removal, node deletion) must reach a removal from that index; otherwise the value stays taken forever and a legitimate write is refused")
    ctx.rule("R11b", "in set_node_property the constraint lookup dominates every write to the column/row stores and a violation returns before them")
    ctx.rule("R11c", "constraint-index maintenance never releases the old value after claiming the new one in one pass (old == new would free a value the node still holds)")
    ctx.rule("R11d", "every fallible store mutator rejects (constraint violation, missing node) before its first mutation: a refused write leaves the constraint index and the node untouched")
    sr.remove_before_insert(ctx, F, cg, "R11c", pairs=(("constraint_insert", "constraint_remove"),))
    sr.validate_then_mutate(ctx, F, cg, "R11d", kinds=("prop-set", "prop-kill", "label-add", "label-kill", "node-add"), floor=3)
    ctx.rule("R11e", "a unique constraint is registered before its index is filled: constraint_insert ignores a (label, property) pair that is not registered, so in any function doing both, create_unique_constraint dominates every constraint_insert")
    n_e = 0
    for p, r in sorted(F.fns.items()):
        if "::tests::" in p:
            continue
        if any(c.endswith("::create_unique_constraint") for c in r["calls"]) and any(c.endswith("::constraint_insert") for c in r["calls"]):
            b = Body(F.mir(p), r)
            ctx.saw_fn(p)
            n_e += 1
            reg = [c for c in b.calls() if c.path.endswith("::create_unique_constraint")]
            ins = [c for c in b.calls() if c.path.endswith("::constraint_insert")]
            short = p.replace("samyama::query::executor::operator::", "").replace("samyama::", "")
            late = [c for c in ins if not any(b.dominates(g.bb, c.bb) and g.bb != c.bb for g in reg)]
            if late:
                ctx.violation("R11e", short + "|backfill-before-registration", where(r, late[0].line),
                              "%s fills the constraint index (line %d) before the constraint is registered: constraint_insert drops values of an unregistered pair, so the index starts empty and existing values can be duplicated afterwards" % (short, late[0].line))
            else:
                ctx.ok("R11e", short, "registration dominates %d backfill insertion(s)" % len(ins))
    ctx.floor("R11e", "functions that register a constraint and fill its index", n_e, 1)
    ctx.rule("R11f", "every mutator through which a node can *start* to hold a constrained value under a label (property write, label addition) looks the value up in the constraint index before mutating (refusing a duplicate) and registers it: otherwise `SET n:L` puts two equal values under :L and later writes cannot see them")
    for kind in ("prop-set", "label-add"):
        for n in sm.KINDS[kind]:
            r = sm.fn_of(F, n)
            if r is None:
                ctx.anchor_failure("R11f", sm.GS + "::" + n)
                continue
            if n == "set_column_property":
                continue    # known finding under R11a (bulk column write)
            b = Body(F.mir(r["path"]), r)
            ctx.saw_fn(r["path"]); ctx.saw_calls(len(b.calls()))
            chk = _constraint_checkers(F)
            looks = [c for c in b.calls() if c.path.endswith("IndexManager::unique_constraint_holder") or c.path.endswith("IndexManager::check_unique_constraint")]
            regs = [c for c in b.calls() if c.path.endswith("IndexManager::constraint_insert")]
            viol = [i for i, j, pl, rv, line, exp in b.stmts() if rv[0] == "agg" and rv[1].endswith("GraphError::ConstraintViolation")]
            for c in b.calls():
                if c.path in chk and _fail_targets(b, c):
                    looks.append(c)
                    viol.extend(_fail_targets(b, c))
            if looks and regs and viol:
                ctx.ok("R11f", "%s|%s" % (kind, n), "looks the value up (%d), can refuse, and registers it (%d)" % (len(looks), len(regs)))
            else:
                ctx.violation("R11f", "%s|%s|gains-without-constraint" % (kind, n), where(r),
                              "GraphStore::%s lets a node start holding a value under a constrained label without %s" % (n, " and ".join(x for x, ok in (("looking it up in the constraint index", looks), ("refusing a duplicate", viol), ("registering it", regs)) if not ok)))
    ctx.rule("R11g", "overwriting a constrained value releases it whatever the new value is: from both sides of every is_null test on the new value in set_node_property a constraint_remove is reachable")
    sp_ = sm.fn_of(F, "set_node_property")
    if sp_ is None:
        ctx.anchor_failure("R11g", "GraphStore::set_node_property")
    else:
        b = Body(F.mir(sp_["path"]), sp_)
        rem = {c.bb for c in b.calls() if c.path.endswith("IndexManager::constraint_remove")}
        tests = [c for c in b.calls() if c.path.endswith("PropertyValue::is_null") and c.target is not None]
        bad = None
        for c in tests:
            # the switch on this test's result (directly or through `!` / `&&` lowering)
            for i in sorted(b.live_blocks()):
                t = b.blocks[i]["t"]
                if t[0] != "switch" or t[1][0] == "k":
                    continue
                e = od.expr_of(b, t[1])
                if not any(x[0] == "call" and x[2] == c.bb for x in od.roots(e)):
                    continue
                for s_ in b.succ(i):
                    if not (b.reachable(s_, avoid={i}) & rem) and not (s_ in rem):
                        # a side from which no release is reachable: acceptable only if the release already happened
                        if not any(b.dominates(rb, i) for rb in rem):
                            bad = c
        # data form of the same skip: the release loop iterates a collection that one side of an is_null test
        # defines as an empty Vec
        if bad is None:
            rem_calls = [c for c in b.calls() if c.path.endswith("IndexManager::constraint_remove")]
            iters = [c for c in b.calls() if c.path.rsplit("::", 1)[-1] in ("into_iter", "iter") and any(b.dominates(c.bb, rc.bb) for rc in rem_calls)]
            for it in iters:
                if not it.args or it.args[0][0] == "k":
                    continue
                coll = od.chain_locals(b, it.args[0], through=("deref", "as_ref", "borrow", "as_slice", "iter", "into_iter"))
                for l in coll:
                    ds = b.defs().get(l, [])
                    if len(ds) < 2:
                        continue
                    def empty(d):
                        return d[0] == "call" and d[2].path.rsplit("::", 1)[-1] in ("new", "default") and "Vec" in d[2].path
                    def blk(d):
                        return d[1]
                    for c in tests:
                        for i in sorted(b.live_blocks()):
                            t = b.blocks[i]["t"]
                            if t[0] != "switch" or t[1][0] == "k":
                                continue
                            e = od.expr_of(b, t[1])
                            if not (any(x[0] == "call" and x[2] == c.bb for x in od.roots(e)) or _cond_chain_has(b, i, c)):
                                continue
                            for s_ in b.succ(i):
                                reach = b.reachable(s_, avoid={i})
                                dr = [d for d in ds if blk(d) in reach]
                                if dr and all(empty(d) for d in dr):
                                    bad = c
        if not rem:
            ctx.violation("R11g", "set_node_property|no-release", where(sp_), "set_node_property never releases the overwritten value")
        elif bad is not None:
            ctx.violation("R11g", "set_node_property|release-skipped-for-null", where(sp_, bad.line),
                          "set_node_property skips the constraint code on one side of an is_null test of the new value: SET n.p = null overwrites the old value but leaves it taken in the constraint index")
        else:
            ctx.ok("R11g", "set_node_property", "a release is reachable from both sides of %d is_null test(s)" % len(tests))
    ctx.rule("R04b", "no Result of a constraint-checking store write is discarded by a write operator (a swallowed ConstraintViolation reports success and C05 cannot even see the failure)")
    pairing.matrix(ctx, F, cg, "R11a", "constraint-index", ["IndexManager::constraint_insert"],
                   ["IndexManager::constraint_remove", "IndexManager::constraint_delete", "IndexManager::constraint_release", "IndexManager::release_unique_value"],
                   ["prop-set", "prop-kill", "label-kill", "node-kill"],
                   "%(fn)s (%(kind)s) never removes the node's old value from the unique-constraint index: after it, another node can no longer take that value although no live node holds it")
    # ---- R11b ------------------------------------------------------------------------------------------
    sp = sm.fn_of(F, "set_node_property")
    b = Body(F.mir(sp["path"]), sp)
    ctx.saw_fn(sp["path"]); ctx.saw_calls(len(b.calls()))
    holders = [c for c in b.calls() if c.path.endswith("IndexManager::unique_constraint_holder") or c.path.endswith("IndexManager::check_unique_constraint")]
    writes = [c for c in b.calls() if (c.path.endswith("ColumnStore::set_property") or c.path.endswith("Node::set_property") or c.path.endswith("IndexManager::constraint_insert"))]
    viol = [i for i, j, pl, rv, line, exp in b.stmts() if rv[0] == "agg" and rv[1].endswith("GraphError::ConstraintViolation")]
    for c in b.calls():
        if c.path in _constraint_checkers(F) and _fail_targets(b, c):
            holders.append(c)
            viol.extend(_fail_targets(b, c))
    if not holders or not viol:
        ctx.violation("R11b", "set_node_property|no-check", where(sp), "set_node_property never checks the unique constraint")
    else:
        before = [w for w in writes if any(w.bb in b.reachable(0, avoid={h.bb}) and not b.dominates(h.bb, w.bb) for h in holders)]
        # a write must not be reachable on a path that has not yet passed the loop of checks: conservative test — every
        # write block is unreachable from entry when the ConstraintViolation-returning region is the only way past a failed check
        leak = [w for w in writes if any(w.bb in b.reachable(v) for v in viol)]
        early = [w for w in writes if not any(True for h in holders) ]
        if leak:
            ctx.violation("R11b", "set_node_property|write-after-violation", where(sp, leak[0].line), "a store write is reachable after a constraint violation was detected")
        else:
            # order: the first write must come after the check loop: no write may reach a holder lookup
            bad = [w for w in writes if any(h.bb in b.reachable(w.bb) for h in holders)]
            if bad:
                ctx.violation("R11b", "set_node_property|write-before-check", where(sp, bad[0].line), "%s happens before the constraint lookup" % bad[0].path.rsplit("::", 1)[-1])
            else:
                ctx.ok("R11b", "set_node_property|check-then-write", "%d store writes, none before the lookup, none after a violation" % len(writes))
    # ---- R04b ------------------------------------------------------------------------------------------
    dropped, total = dropped_results(F, STORE_ERR_FNS)
    ctx.floor("R04b", "executor call sites of constraint-checking store writes", total, 8)
    for p, r, c, m, k in dropped:
        ctx.violation("R04b", "%s|%s|%d" % (p.replace("samyama::query::executor::", ""), m, k), where(r, c.line),
                      "the Result of GraphStore::%s is discarded: a unique-constraint violation is swallowed and the statement reports success" % m)
    if not dropped:
        ctx.ok("R04b", "no-dropped-store-results", "all %d call sites use the Result" % total)
    return ("Decided: whether each way a node can give up a constrained value releases it in the constraint index, that the check precedes the writes, and that "
            "write operators do not discard the store's constraint error. Not decided: value equality classes of the index keys (C10).")


def _constraint_checkers(F):
    """GraphStore-local helpers that look a value up in the constraint index and can refuse (build ConstraintViolation):
    a call of one, with its error propagated, is the lookup-and-refuse step moved into a function."""
    out = set()
    for p_, r_ in F.fns.items():
        if not p_.startswith(sm.GS + "::") or "{closure" in p_:
            continue
        if not any(c.endswith("IndexManager::unique_constraint_holder") or c.endswith("IndexManager::check_unique_constraint") for c in r_["calls"]):
            continue
        if "Result<" not in r_["sig"].rsplit("->", 1)[-1]:
            continue
        m_ = F.mir(p_)
        if m_ is None:
            continue
        hb = Body(m_, r_)
        if any(rv[0] == "agg" and rv[1].endswith("GraphError::ConstraintViolation") for i, j, pl, rv, line, exp in hb.stmts()):
            # no store write inside: it only checks
            if not any(c.endswith("ColumnStore::set_property") or c.endswith("Node::set_property") for c in r_["calls"]):
                out.add(p_)
    return out


def _fail_targets(b, call):
    from .. import mutpoints as mp_
    side = mp_.some_side(b, call)
    if side is None:
        return []
    sb_, ok_t = side
    t_ = b.blocks[sb_]["t"]
    return [tgt for v, tgt in t_[2] if tgt != ok_t] + ([t_[3]] if t_[3] != ok_t else [])


def _cond_chain_has(b, sw_block, test_call):
    """`a && !is_null(v)` lowers to nested switches: the switch at sw_block is reached only through the test's block"""
    return test_call.target is not None and (test_call.target == sw_block or (b.dominates(test_call.bb, sw_block) and sw_block in b.succ(test_call.target)))
