"""C36 — RDF round trips (weak): the three format wrappers agree on term / literal tables, writer
vs reader.  String content (escaping) lives in the rio_* libraries and is not decided."""
from ..cfg import Body
from ..report import where
from .c10 import pats, vname
from .c03 import id_through

LEVEL = "other"
FORMATS = ("ntriples", "turtle", "rdfxml")
LIT = {"Simple": "new_simple_literal", "LanguageTaggedString": "new_language_tagged_literal", "Typed": "new_typed_literal"}
XSD_STRING = "http://www.w3.org/2001/XMLSchema#string"
SER = "samyama::rdf::serialization::"


def _with_helpers(F, path, depth=2):
    """the function and the serialization-module helpers it calls (a match moved into `convert_literal` is still the reader's table)"""
    out, work = [path], [path]
    for _ in range(depth):
        nxt = []
        for p in work:
            for c in F.fns.get(p, {}).get("calls", []):
                if c.startswith(SER) and c in F.fns and c not in out:
                    out.append(c); nxt.append(c)
        work = nxt
    return out


def run(ctx, F, cg):
    ctx.rule("R36a", "each serializer builds rio Literal::{Simple, LanguageTaggedString, Typed} and both subject kinds / all three object kinds, with xsd:string as the plain-literal datatype")
    ctx.rule("R36b", "each reader maps rio Literal::Simple / LanguageTaggedString / Typed back through new_simple_literal / new_language_tagged_literal / new_typed_literal, and NamedNode / BlankNode through their constructors")
    ctx.rule("R36c", "the three format wrappers agree with each other on these tables")
    ctx.rule("R36d", "each reader hands the literal's lexical value to the literal constructor by identity operations only (no trim / case change / replace): the value is content, not markup")
    ctx.rule("R36e", "each serializer returns the text produced by the rio formatter unchanged (from_utf8 and error mapping only): no escaping or rewriting is applied outside the formatter")
    tables = {}
    for fmt in FORMATS:
        mod = "samyama::rdf::serialization::%s::" % fmt
        ser = [r for p, r in F.fns.items() if p.startswith(mod) and p.endswith("::serialize")]
        co = [r for p, r in F.fns.items() if p == mod + "convert_object"]
        cs = [r for p, r in F.fns.items() if p == mod + "convert_subject"]
        # one shared copy of the conversion functions (in a sibling format's module) is the same table for all
        called = set()
        for p, r in F.fns.items():
            if p.startswith(mod):
                called |= set(r["calls"])
        if not co:
            co = [F.fns[c] for c in sorted(called) if c.startswith(SER) and c.endswith("::convert_object") and c in F.fns][:1]
        if not cs:
            cs = [F.fns[c] for c in sorted(called) if c.startswith(SER) and c.endswith("::convert_subject") and c in F.fns][:1]
        if not ser or not co or not cs:
            ctx.anchor_failure("R36", "%s: serialize/convert_object/convert_subject (found %d/%d/%d)" % (fmt, len(ser), len(co), len(cs)))
            continue
        b = Body(F.mir(ser[0]["path"]), ser[0])
        ctx.saw_fn(ser[0]["path"], co[0]["path"], cs[0]["path"]); ctx.saw_calls(len(b.calls()))
        aggs = set()
        consts = set()
        for i, j, pl, rv, line, exp in b.stmts():
            if rv[0] == "agg" and rv[1].startswith("adt:rio_api::model::"):
                aggs.add(rv[1].replace("adt:rio_api::model::", ""))
        txt = str(F.mir(ser[0]["path"])["blocks"]) + str(F.mir(ser[0]["path"]).get("prom"))
        has_xsd = XSD_STRING in txt
        want = {"Literal::Simple", "Literal::LanguageTaggedString", "Literal::Typed", "Subject::NamedNode", "Subject::BlankNode", "Term::NamedNode", "Term::BlankNode", "Term::Literal"}
        miss = sorted(want - aggs)
        if miss or not has_xsd:
            ctx.violation("R36a", "%s|serialize|table" % fmt, where(ser[0]), "serializer does not build %s%s" % (miss, "" if has_xsd else "; xsd:string constant missing (plain literals would be written as typed or vice versa)"))
        else:
            ctx.ok("R36a", "%s|serialize" % fmt, "all term and literal kinds built; xsd:string is the plain-literal datatype")
        # reader
        rd = {}
        for m in [m_ for hp_ in _with_helpers(F, co[0]["path"]) for m_ in F.arms(hp_)]:
            for arm in m["arms"]:
                for p in pats(arm["pat"]):
                    v = vname(p)
                    if v in LIT:
                        rd[v] = sorted(c.rsplit("::", 1)[-1] for c in arm["calls"] if c.rsplit("::", 1)[-1].startswith("new_") and "literal" in c.rsplit("::", 1)[-1])
                    elif v in ("NamedNode", "BlankNode", "Literal") and "Term" in p["p"]:
                        rd["Term::" + v] = sorted({c.rsplit("::", 2)[-2] for c in arm["calls"] if c.rsplit("::", 1)[-1] in ("new", "from_str", "new_unchecked")})
        bad = [k for k, fn in LIT.items() if rd.get(k) != [fn]]
        if bad:
            ctx.violation("R36b", "%s|convert_object|literals" % fmt, where(co[0]), "literal kinds %s are not mapped through their matching constructor (found %s)" % (bad, {k: rd.get(k) for k in bad}))
        else:
            ctx.ok("R36b", "%s|convert_object" % fmt, "Simple/LanguageTaggedString/Typed -> matching constructors")
        sd = {}
        for m in [m_ for hp_ in _with_helpers(F, cs[0]["path"]) for m_ in F.arms(hp_)]:
            for arm in m["arms"]:
                for p in pats(arm["pat"]):
                    v = vname(p)
                    if v in ("NamedNode", "BlankNode") and "Subject" in p["p"]:
                        sd[v] = sorted({c.rsplit("::", 1)[-1] for c in arm["ctors"] if "RdfSubject::" in c})
        if sd.get("NamedNode") != ["NamedNode"] or sd.get("BlankNode") != ["BlankNode"]:
            ctx.violation("R36b", "%s|convert_subject" % fmt, where(cs[0]), "subject kinds are not mapped to the same kind: %s" % sd)
        else:
            ctx.ok("R36b", "%s|convert_subject" % fmt, "NamedNode/BlankNode preserved")
        # ---- R36d: lexical values pass through the reader unchanged ----
        from .. import inline as inl_
        _ser = lambda p_: p_.startswith(SER) and "{closure" not in p_
        _ser._key = "rdf-ser"
        cob = Body(inl_.inlined_mir(F, co[0]["path"], _ser, 2) or F.mir(co[0]["path"]), co[0])
        nlit = 0
        for c in cob.calls():
            nm = c.path.rsplit("::", 1)[-1]
            if nm not in LIT.values() or not c.args or c.args[0][0] == "k":
                continue
            nlit += 1
            og = cob.origins(c.args[0][1][0], through_calls=id_through)
            changed = sorted({o[1].path.rsplit("::", 1)[-1] for o in og if o[0] == "call"})
            inst = "%s|convert_object|%s" % (fmt, nm)
            if changed:
                ctx.violation("R36d", inst + "|value-transformed", where(co[0], c.line),
                              "the %s reader passes the literal's lexical value through %s before building the literal: a value with leading/trailing whitespace (or whatever the call changes) does not come back as it was written" % (fmt, changed))
            else:
                ctx.ok("R36d", inst, "lexical value reaches the constructor by identity operations only")
        ctx.floor("R36d", "%s: literal constructions in the reader" % fmt, nlit, 3)
        # ---- R36e: the serializer returns the formatter's bytes unchanged ----
        transforms = []
        for d in b.defs().get(0, []):
            ops = []
            if d[0] == "call":
                ops = [a for a in d[2].args if a[0] != "k"]
                first = d[2]
            else:
                continue
            seen_calls = []
            og = b.origins(0, through_calls=lambda cc: [0] if cc.path.rsplit("::", 1)[-1] in ("map_err", "from_utf8", "branch", "into_inner", "finish", "into", "from") else None)
            for o in og:
                if o[0] == "call" and o[1].path.rsplit("::", 1)[-1] not in ("from_residual",):
                    seen_calls.append(o[1])
            transforms = [cc for cc in seen_calls if cc.path.rsplit("::", 1)[-1] in ("map", "and_then", "replace", "to_uppercase", "to_lowercase", "trim", "escape_default", "escape_unicode") or (cc.path in F.fns and not cc.path.endswith("::serialize"))]
        inst = "%s|serialize|output" % fmt
        if transforms:
            ctx.violation("R36e", inst + "|post-processed", where(ser[0], transforms[0].line),
                          "the %s serializer rewrites the formatter's output (%s) before returning it: escaping done outside the rio formatter is not the format's escaping (e.g. a 4-digit \\u escape for a character above U+FFFF parses back as two characters)" % (fmt, transforms[0].path.rsplit("::", 1)[-1]))
        else:
            ctx.ok("R36e", inst, "the returned text is the formatter's output (from_utf8 / map_err only)")
        tables[fmt] = (sorted(aggs & want), has_xsd, rd, sd)
    ctx.floor("R36", "format wrappers analysed", len(tables), 3)
    vals = list(tables.values())
    if vals and all(v == vals[0] for v in vals):
        ctx.ok("R36c", "siblings-agree", "ntriples, turtle and rdfxml wrappers have identical tables")
    elif vals:
        ctx.violation("R36c", "siblings-disagree", "src/rdf/serialization", "the three wrappers differ: %s" % {k: (v[0], v[1]) for k, v in tables.items()})
    return ("Decided (weak): the wrappers' variant tables — which rio term/literal kind is built from which of ours, and back — agree per format and across formats. "
            "Also decided: lexical values cross the wrappers unchanged in both directions (identity flow in the reader, no post-processing of the formatter output). Not decided: the escaping done inside the rio_* serializers and parsers.")
