"""C01 — read queries return the openCypher rows: conjunctive multi-label scan, index scans check
every label and keep a residual (shared with C02), evaluator siblings agree."""
from ..cfg import Body
from ..report import where
from ..facts import in_module
from .c02 import residual_rule
from .c10 import pats, vname
from .. import storerules as sr
from .. import kleene

LEVEL = "other"
OPS = "samyama::query::executor::operator::"
SEMANTIC = ("eval_binary_op", "eval_unary_op", "eval_function", "eval_case", "eval_index", "eval_list_slice", "eval_exists_subquery",
            "eval_list_comprehension", "eval_predicate_function", "eval_reduce", "eval_pattern_comprehension", "read_property")
# frozen exception table for evaluator siblings: (function, variant) -> reason
SIBLING_EXCEPTIONS = {
    ("FilterOperator::evaluate_expression", "Binary"): "calls FilterOperator::evaluate_binary_op (node identity fast path, then reaches eval_binary_op) — checked: that wrapper must reach eval_binary_op",
    ("FilterOperator::evaluate_expression", "Unary"): "IS NULL / IS NOT NULL / NOT inlined on the already-evaluated operand (three-valued NOT written out); no helper to compare",
}


def run(ctx, F, cg):
    ctx.rule("R01a", "the multi-label branch of NodeScanOperator::initialize tests membership (has_label / contains / retain / intersection): a branch that only inserts computes the union, but (n:A:B) matches nodes carrying all labels")
    ctx.rule("R01b", "(shared with C02) an index lookup keeps its predicate in the residual filter")
    ctx.rule("R01c", "the operator-local copies of the expression evaluator agree with eval_expression, variant by variant, on the semantic helper each arm calls; no arm is empty")
    ctx.rule("R01e", "sum() keeps its total across the integer -> float switch: the aggregate state selects the float accumulator alone once its integer flag is false, so every writer that may clear the flag (row update, partial-group merge) folds the integer accumulator into the float one on that path")
    sr.flag_selected_accumulators(ctx, F, cg, "R01e")
    ctx.rule("R01f", "OPTIONAL MATCH keeps every left row: the left outer join resets each of its per-left-row flags (fields it sets `true` while probing a row) wherever it advances to the next left row")
    sr.per_row_flags_reset(ctx, F, cg, "R01f")
    ctx.rule("R01g", "an aggregate never drops its DISTINCT: in the constructor of the aggregate state, the distinct flag is matched as a wildcard only for aggregates that do not depend on multiplicity (min, max) — `(Sum, _)` means sum(DISTINCT x) sums the duplicates too")
    an = F.fn_opt("query::executor::operator::AggregatorState::new")
    if an is None:
        ctx.anchor_failure("R01g", "AggregatorState::new")
    else:
        ctx.saw_fn(an["path"])
        IDEMP = {"Min", "Max"}
        ms_ = [m for m in F.arms(an["path"]) if "AggregateType" in m["sty"]]
        if not ms_:
            ctx.anchor_failure("R01g", "match over (AggregateType, distinct) in AggregatorState::new")
        else:
            covered_true = set()
            wild_before = {}
            order = []
            for arm in ms_[0]["arms"]:
                pt = arm["pat"]
                if pt.get("k") != "tuple" or len(pt["e"]) != 2:
                    continue
                kinds = [v.rsplit("::", 1)[-1] for v in _variants(pt["e"][0])]
                flag = pt["e"][1]
                lit = [l for l in arm["lits"]]
                is_true = flag.get("k") == "lit" and "true" in str(flag) or (flag.get("k") not in ("wild", "bind") and "b:true" in lit and "b:false" not in lit)
                is_wild = flag.get("k") in ("wild", "bind")
                for kd in kinds:
                    order.append((kd, "true" if is_true else ("wild" if is_wild else "other")))
            seen_true = set()
            bad = []
            for kd, fl in order:
                if fl == "true":
                    seen_true.add(kd)
                elif fl == "wild" and kd not in seen_true and kd not in IDEMP:
                    bad.append(kd)
            if bad:
                ctx.violation("R01g", "AggregatorState::new|distinct-ignored|" + ",".join(sorted(set(bad))), where(an), "the aggregate state for %s is built without looking at the DISTINCT flag: %s(DISTINCT x) counts duplicate inputs" % (sorted(set(bad)), sorted(set(bad))[0].lower()))
            else:
                ctx.ok("R01g", "AggregatorState::new", "every multiplicity-sensitive aggregate has a DISTINCT arm before its wildcard arm (%d arms)" % len(order))
    # ---- R01h: AND / OR tables are commutative and Kleene ------------------------------------------------------
    ctx.rule("R01h", "every AND / OR table of the evaluator (a match on a pair of PropertyValues with a Boolean literal arm) is commutative and agrees with Kleene's three-valued table: the arm list is evaluated over the 16 operand classes {true,false,null,other}^2 — `null AND false` is false on either side, so NOT(null AND false) keeps the row")
    ntab = 0
    for p in sorted(F.all_arm_fns()):
        if not p.startswith(OPS):
            continue
        k = 0
        for m in F.arms(p):
            if not kleene.is_table(m):
                continue
            ntab += 1
            short = p.replace(OPS, "")
            probs, cells = kleene.check(m)
            inst = "%s|table|%d" % (short, k)
            k += 1
            ctx.saw_fn(p)
            for kind, text in probs[:3]:
                ctx.violation("R01h", "%s|%s" % (inst, kind), "%s:%s" % (F.fns[p]["file"], m["line"]) if p in F.fns else p, text + " (%s)" % p)
            if not probs:
                ctx.ok("R01h", inst, "%d operand-class pairs evaluated; commutative and Kleene" % cells)
    ctx.floor("R01h", "three-valued AND/OR tables in the executor", ntab, 4)
    ctx.rule("R01d", "every IndexScanOperator built by the planner is given the pattern's labels (with_labels)")
    # ---- R01a ------------------------------------------------------------------------------------------
    ini = [r for p, r in F.fns.items() if p == OPS + "NodeScanOperator::initialize"]
    if not ini:
        ctx.anchor_failure("R01a", "NodeScanOperator::initialize")
    else:
        r = ini[0]
        b = Body(F.mir(r["path"]), r)
        ctx.saw_fn(r["path"]); ctx.saw_calls(len(b.calls()))
        # the multi-label branch: blocks that iterate self.labels (IntoIterator on &Vec<Label>) — the loop body region
        loops = [c for c in b.calls() if c.path.endswith("Iterator>::next") and "ForLoop" in c.expname and "Label" in c.full]
        region = set()
        for c in b.calls():
            if c.path.rsplit("::", 1)[-1] == "node_ids_by_label":
                region |= b.reachable(c.bb)
        # restrict to blocks not reachable from the single-label call only: use the multi branch = blocks dominated by a label loop, or the split_first branch
        multi = set()
        for l in loops:
            multi |= {x for x in b.live_blocks() if b.dominates(l.bb, x)}
        if not multi:
            for c in b.calls():
                if c.path.rsplit("::", 1)[-1] in ("split_first", "split_at", "iter", "skip") and "Label" in c.full:
                    multi |= {x for x in b.live_blocks() if b.dominates(c.bb, x)}
        names = set()
        for c in b.calls():
            if c.bb in multi:
                names.add(c.path.rsplit("::", 1)[-1])
        for cl in r["closures"]:
            names |= {c.rsplit("::", 1)[-1] for c in F.fns.get(cl, {}).get("calls", [])}
        member = names & {"has_label", "contains", "retain", "intersection", "all", "is_subset", "filter"}
        if not multi:
            ctx.violation("R01a", "NodeScanOperator::initialize|multi-label-branch-not-found", where(r), "cannot locate the multi-label branch (checker needs update)")
        elif member:
            ctx.ok("R01a", "NodeScanOperator::initialize|conjunctive", "multi-label branch tests membership via %s" % sorted(member))
        else:
            ctx.violation("R01a", "NodeScanOperator::initialize|multi-label-union", where(r), "the multi-label branch only inserts the ids of each label (%s): MATCH (n:A:B) returns every :A node and every :B node instead of the nodes carrying both" % sorted(names & {"insert", "extend", "push"}))
    # ---- R01b / R01d -------------------------------------------------------------------------------------
    residual_rule(ctx, F, "R01b")
    nsc = 0
    for p, r in sorted(F.fns.items()):
        if in_module(p, "samyama::query::executor::planner") and any(c.endswith("IndexScanOperator::new") for c in r["calls"]):
            b = Body(F.mir(p), r)
            news = [c for c in b.calls() if c.path.endswith("IndexScanOperator::new")]
            withs = [c for c in b.calls() if c.path.endswith("IndexScanOperator::with_labels")]
            short = p.replace("samyama::query::executor::planner::", "")
            for k, c in enumerate(news):
                nsc += 1
                fed = any(w.args and w.args[0][0] != "k" and any(o[0] == "call" and o[1].bb == c.bb for o in b.origins(w.args[0][1][0])) for w in withs)
                if fed:
                    ctx.ok("R01d", "%s|index-scan|%d" % (short, k), "labels of the pattern passed to the scan")
                else:
                    ctx.violation("R01d", "%s|index-scan|%d|labels-dropped" % (short, k), where(r, c.line), "IndexScanOperator is built for one label and the pattern's other labels are never checked")
    ctx.floor("R01d", "IndexScanOperator construction sites in the planner", nsc, 3)
    # ---- R01c ------------------------------------------------------------------------------------------
    ref = F.fn_opt(OPS + "eval_expression")
    evs = [r for p, r in F.fns.items() if (p.endswith("::evaluate_expression") or p == OPS + "eval_expression") and in_module(p, OPS)]
    ctx.floor("R01c", "expression evaluator copies", len(evs), 6)
    adt = F.adt("query::ast::Expression")
    variants = [v["name"] for v in adt["variants"]]

    def table(fn):
        t = {}
        for m in F.arms(fn):
            if not m["sty"].replace("&", "").strip().endswith("ast::Expression"):
                continue
            for arm in m["arms"]:
                for p in pats(arm["pat"]):
                    v = vname(p)
                    if v:
                        sem = sorted({c.rsplit("::", 1)[-1] for c in arm["calls"] if c.rsplit("::", 1)[-1] in SEMANTIC})
                        t.setdefault(v, (sem, arm["empty"], arm["n"], arm["lo"]))
            break
        return t
    if ref is None:
        ctx.anchor_failure("R01c", "operator::eval_expression")
    else:
        rt = table(ref["path"])
        for r in sorted(evs, key=lambda x: x["path"]):
            if r["path"] == ref["path"]:
                continue
            ctx.saw_fn(r["path"])
            t = table(r["path"])
            short = r["path"].replace(OPS, "")
            diffs = []
            for v in variants:
                if v not in t:
                    continue        # falls to a delegating wildcard arm (checked below)
                sem, empty, n, lo = t[v]
                if empty or n <= 1 and not sem and v not in ("Literal",):
                    diffs.append("%s: empty arm" % v)
                rs = rt.get(v, ([], False, 0, 0))[0]
                if (short, v) == ("FilterOperator::evaluate_expression", "Binary") and not cg.reaches(OPS + "FilterOperator::evaluate_binary_op", ["operator::eval_binary_op"]):
                    diffs.append("Binary: FilterOperator::evaluate_binary_op no longer reaches eval_binary_op")
                if sem != rs and (short, v) not in SIBLING_EXCEPTIONS:
                    # a copy may delegate the whole variant to the reference evaluator
                    if not sem and any(True for _ in [0]) and _delegates(F, r["path"], v):
                        continue
                    diffs.append("%s: calls %s, reference calls %s" % (v, sem, rs))
            if diffs:
                ctx.violation("R01c", short + "|sibling-disagreement", where(r), "; ".join(diffs[:4]))
            else:
                ctx.ok("R01c", short, "agrees with eval_expression on %d explicit variants" % len(t))
    return ("Decided: three structural clauses — conjunctive multi-label scan (known finding: the scan unions), index scans keep residual predicates and all labels, "
            "and sibling agreement of the six evaluator copies. Not decided: three-valued logic, expansion isomorphism, aggregation, ordering, other rewrites.")


def _delegates(F, fn, variant):
    for m in F.arms(fn):
        if not m["sty"].replace("&", "").strip().endswith("ast::Expression"):
            continue
        for arm in m["arms"]:
            vs = [vname(p) for p in pats(arm["pat"])]
            if variant in vs or arm["pat"].get("k") in ("wild", "bind"):
                if any(c.endswith("operator::eval_expression") for c in arm["calls"]):
                    return True
    return False


def _variants(p):
    k = p.get("k")
    if k == "variant":
        return [p["p"]]
    if k in ("or", "tuple"):
        out = []
        for e in p["e"]:
            out += _variants(e)
        return out
    if k == "bind" and p.get("sub"):
        return _variants(p["sub"])
    return []
