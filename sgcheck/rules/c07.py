"""C07 — versioned reads stable, duplicate-free, deletion respected: copy-on-write guard on every
version-chain mutation, latest-only scans, delete empties the chain."""
from ..cfg import Body
from ..report import where
from .. import storemodel as sm

LEVEL = "other"
GS = sm.GS
NODE_VEC = "std::vec::Vec<samyama::graph::node::Node>"


def run(ctx, F, cg):
    ctx.rule("R07a", "every GraphStore function that takes `last_mut()` of a node's version chain compares that entry's version with current_version and pushes a clone on the older-version branch (copy-on-write); mutating the last entry unconditionally rewrites history")
    ctx.rule("R07b", "scans over the outer `nodes` vector select one entry per chain; `flatten`/`flat_map` over Vec<Vec<Node>> yields every version of every node")
    ctx.rule("R07c", "delete_node empties the version chain (clear/take/drain/assignment); `pop` leaves older versions readable at the current version and under the recycled id")
    # ---- R07a ------------------------------------------------------------------------------------------
    n = 0
    for p, r in sorted(F.fns.items()):
        if not p.startswith(GS + "::") or "{closure" in p.split(GS + "::", 1)[1].split("::")[0]:
            continue
        if not any(c.rsplit("::", 1)[-1] == "last_mut" for c in r["calls"]):
            continue
        m = F.mir(p)
        if m is None:
            continue
        b = Body(m, r)
        lm = [c for c in b.calls() if c.path.rsplit("::", 1)[-1] == "last_mut" and "node::Node" in c.full]
        # closures inside (and_then(|v| v.last_mut())) belong to the parent function
        if not lm:
            continue
        owner = p.split("::{closure")[0]
        short = owner.replace(GS + "::", "")
        n += 1
        ctx.saw_fn(p)
        ob = Body(F.mir(owner), F.fns[owner]) if owner in F.fns else b
        reads_ver = any(x.endswith("node::Node.version") for x in F.fns[owner]["r"]) and any(x.endswith("GraphStore.current_version") for x in F.fns[owner]["r"])
        pushes = any(c.path.rsplit("::", 1)[-1] == "push" and "node::Node" in c.full for c in ob.calls())
        cmpv = False
        for i, j, pl, rv, line, exp in ob.stmts():
            if rv[0] == "bin" and rv[1] in ("Lt", "Le", "Gt", "Ge", "Eq", "Ne"):
                cmpv = True
        if reads_ver and pushes and cmpv:
            ctx.ok("R07a", short, "version compared with current_version; older-version branch pushes a clone")
        else:
            ctx.violation("R07a", "in-place-history-mutation|" + short, where(F.fns[owner]),
                          "%s takes last_mut() of the version chain without a copy-on-write guard (version compare=%s, push of a new version=%s): a read at an older version changes after this call" % (short, reads_ver and cmpv, pushes))
    ctx.floor("R07a", "functions taking last_mut of a node chain", n, 4)
    # ---- R07b ------------------------------------------------------------------------------------------
    nb = 0
    for p, r in sorted(F.fns.items()):
        if not any(x.endswith("GraphStore.nodes") for x in r["r"]) or not any(c.rsplit("::", 1)[-1] in ("flatten", "flat_map") for c in r["calls"]):
            continue
        m = F.mir(p)
        if m is None:
            continue
        b = Body(m, r)
        for c in b.calls():
            if c.path.rsplit("::", 1)[-1] in ("flatten", "flat_map") and NODE_VEC in c.full:
                nb += 1
                short = p.replace("samyama::", "")
                ctx.violation("R07b", "all-versions-scan|" + short, where(r, c.line), "%s iterates every version of every node (%s over Vec<Vec<Node>>): a node with k versions is returned / counted k times" % (short, c.path.rsplit("::", 1)[-1]))
    scans = [p for p, r in F.fns.items() if any(x.endswith("GraphStore.nodes") for x in r["r"]) and p.startswith(GS)]
    ctx.floor("R07b", "GraphStore functions reading the node chains", len(scans), 10)
    if nb == 0:
        ctx.ok("R07b", "latest-only-scans", "no flatten/flat_map over the version chains in %d readers" % len(scans))
    # ---- R07c ------------------------------------------------------------------------------------------
    dn = sm.fn_of(F, "delete_node")
    b = Body(F.mir(dn["path"]), dn)
    ctx.saw_fn(dn["path"])
    pops = [c for c in b.calls() if c.path.rsplit("::", 1)[-1] in ("pop", "remove", "swap_remove", "truncate") and "node::Node" in c.full]
    clears = [c for c in b.calls() if c.path.rsplit("::", 1)[-1] in ("clear", "take", "drain", "replace") and "node::Node" in c.full]
    oks = [i for i, j, pl, rv, line, exp in b.stmts() if pl[0] == 0 and not pl[1] and rv[0] == "agg" and rv[1].endswith("Result::Ok")]
    if clears and all(b.must_pass(0, o, {c.bb for c in clears}) for o in oks):
        ctx.ok("R07c", "delete_node|chain-emptied", "version chain emptied with %s on every path to Ok" % clears[0].path.rsplit("::", 1)[-1])
    elif pops:
        ctx.violation("R07c", "delete_node|pops-one-version", where(dn, pops[0].line), "delete_node removes only the newest version (%s): after SET at version v2 and DELETE, get_node still finds the v1 entry, and the recycled id inherits it" % pops[0].path.rsplit("::", 1)[-1])
    else:
        ctx.violation("R07c", "delete_node|chain-untouched", where(dn), "delete_node does not empty the version chain")
    return ("Decided: which store functions can rewrite an old version in place (no copy-on-write guard), which scans enumerate all versions, and whether "
            "deletion empties the chain — the three structural ways the property breaks. Not decided: edge version-log pre/post-image semantics, values at a version.")
