"""C07 — versioned reads stable, duplicate-free, deletion respected: copy-on-write guard on every
version-chain mutation, latest-only scans, delete empties the chain."""
from ..cfg import Body
from ..report import where
from .. import storemodel as sm
from .. import mutpoints as mp
from .. import orderdom as od

LEVEL = "other"
GS = sm.GS
NODE_VEC = "std::vec::Vec<samyama::graph::node::Node>"


def run(ctx, F, cg):
    ctx.rule("R07a", "every GraphStore function that takes `last_mut()` of a node's version chain compares that entry's version with current_version and pushes a clone on the older-version branch (copy-on-write); mutating the last entry unconditionally rewrites history")
    ctx.rule("R07b", "scans over the outer `nodes` vector select one entry per chain; `flatten`/`flat_map` over Vec<Vec<Node>> yields every version of every node")
    ctx.rule("R07c", "delete_node empties the version chain (clear/take/drain/assignment); `pop` leaves older versions readable at the current version and under the recycled id")
    # ---- R07a ------------------------------------------------------------------------------------------
    n = 0
    for p, r in sorted(F.fns.items()):
        if not p.startswith(GS + "::") or "{closure" in p.split(GS + "::", 1)[1].split("::")[0]:
            continue
        if not any(c.rsplit("::", 1)[-1] == "last_mut" for c in r["calls"]):
            continue
        m = F.mir(p)
        if m is None:
            continue
        b = Body(m, r)
        lm = [c for c in b.calls() if c.path.rsplit("::", 1)[-1] == "last_mut" and "node::Node" in c.full]
        # closures inside (and_then(|v| v.last_mut())) belong to the parent function
        if not lm:
            continue
        owner = p.split("::{closure")[0]
        short = owner.replace(GS + "::", "")
        n += 1
        ctx.saw_fn(p)
        ob = Body(F.mir(owner), F.fns[owner]) if owner in F.fns else b
        reads_ver = any(x.endswith("node::Node.version") for x in F.fns[owner]["r"]) and any(x.endswith("GraphStore.current_version") for x in F.fns[owner]["r"])
        pushes = any(c.path.rsplit("::", 1)[-1] == "push" and "node::Node" in c.full for c in ob.calls())
        cmpv = False
        for i, j, pl, rv, line, exp in ob.stmts():
            if rv[0] == "bin" and rv[1] in ("Lt", "Le", "Gt", "Ge", "Eq", "Ne"):
                cmpv = True
        guard_hole = _cow_guard_hole(ob) if (reads_ver and pushes and cmpv and owner == p) else None
        if reads_ver and pushes and cmpv and guard_hole is None:
            ctx.ok("R07a", short, "version compared with current_version; every in-place access on the older-version side comes after the push of a clone")
        elif reads_ver and pushes and cmpv:
            ctx.violation("R07a", "cow-guard-bypassed|" + short, where(F.fns[owner], guard_hole),
                          "%s compares the latest version with current_version, but on the older-version side it can still reach last_mut() without pushing a clone first (the copy-on-write test has an extra condition): that write lands in the old version and a read at that version changes" % short)
        else:
            ctx.violation("R07a", "in-place-history-mutation|" + short, where(F.fns[owner]),
                          "%s takes last_mut() of the version chain without a copy-on-write guard (version compare=%s, push of a new version=%s): a read at an older version changes after this call" % (short, reads_ver and cmpv, pushes))
    ctx.floor("R07a", "functions taking last_mut of a node chain", n, 3)
    # ---- R07b ------------------------------------------------------------------------------------------
    nb = 0
    for p, r in sorted(F.fns.items()):
        if not any(x.endswith("GraphStore.nodes") for x in r["r"]) or not any(c.rsplit("::", 1)[-1] in ("flatten", "flat_map") for c in r["calls"]):
            continue
        m = F.mir(p)
        if m is None:
            continue
        b = Body(m, r)
        for c in b.calls():
            if c.path.rsplit("::", 1)[-1] in ("flatten", "flat_map") and NODE_VEC in c.full:
                nb += 1
                short = p.replace("samyama::", "")
                ctx.violation("R07b", "all-versions-scan|" + short, where(r, c.line), "%s iterates every version of every node (%s over Vec<Vec<Node>>): a node with k versions is returned / counted k times" % (short, c.path.rsplit("::", 1)[-1]))
    scans = [p for p, r in F.fns.items() if any(x.endswith("GraphStore.nodes") for x in r["r"]) and p.startswith(GS)]
    ctx.floor("R07b", "GraphStore functions reading the node chains", len(scans), 10)
    if nb == 0:
        ctx.ok("R07b", "latest-only-scans", "no flatten/flat_map over the version chains in %d readers" % len(scans))
    # ---- R07c ------------------------------------------------------------------------------------------
    dn = sm.fn_of(F, "delete_node")
    b = Body(F.mir(dn["path"]), dn)
    ctx.saw_fn(dn["path"])
    pops = [c for c in b.calls() if c.path.rsplit("::", 1)[-1] in ("pop", "remove", "swap_remove", "truncate") and "node::Node" in c.full]
    clears = [c for c in b.calls() if c.path.rsplit("::", 1)[-1] in ("clear", "take", "drain", "replace") and "node::Node" in c.full]
    oks = [i for i, j, pl, rv, line, exp in b.stmts() if pl[0] == 0 and not pl[1] and rv[0] == "agg" and rv[1].endswith("Result::Ok")]
    if clears and all(b.must_pass(0, o, {c.bb for c in clears}) for o in oks) and b.success_passes(0, {c.bb for c in clears}):
        ctx.ok("R07c", "delete_node|chain-emptied", "version chain emptied with %s on every path to Ok" % clears[0].path.rsplit("::", 1)[-1])
    elif pops:
        ctx.violation("R07c", "delete_node|pops-one-version", where(dn, pops[0].line), "delete_node removes only the newest version (%s): after SET at version v2 and DELETE, get_node still finds the v1 entry, and the recycled id inherits it" % pops[0].path.rsplit("::", 1)[-1])
    else:
        ctx.violation("R07c", "delete_node|chain-untouched", where(dn), "delete_node does not empty the version chain")
    # ---- R07d / R07e: relationship property history -----------------------------------------------------
    ctx.rule("R07d", "every store mutator that changes the properties of an existing relationship (set / remove) writes the relationship version log: an unlogged change makes a read at that version return the previously logged state once the version moves on")
    ctx.rule("R07e", "the log holds post-images, so the function that appends to it also records the state a relationship's first logged write replaces: some appended entry takes its properties from a read of the live property map made before the first property mutation of that call")
    LOG = "edge_version_log"
    for kind in ("edge-prop-set", "edge-prop-kill"):
        for n in sm.KINDS[kind]:
            r = sm.fn_of(F, n)
            if r is None:
                ctx.anchor_failure("R07d", GS + "::" + n)
                continue
            w = sm.weffects(F, cg, n) or set()
            callers = [p for p, rr in F.fns.items() if r["path"] in rr["calls"] and "::tests::" not in p]
            if LOG in w:
                ctx.ok("R07d", n, "writes the relationship version log (transitively)")
            elif callers and all((p.startswith(GS + "::") and LOG in (sm.weffects(F, cg, p.replace(GS + "::", "")) or set())) or _creates_edge(F, p) for p in callers):
                ctx.ok("R07d", n + "|creation-or-logged-caller", "only called while creating a relationship or from a store mutator that logs (%d callers)" % len(callers))
            else:
                bad = [p for p in callers if not ((p.startswith(GS + "::") and LOG in (sm.weffects(F, cg, p.replace(GS + "::", "")) or set())) or _creates_edge(F, p))]
                ctx.violation("R07d", n + "|unlogged-property-change", where(r), "GraphStore::%s changes relationship properties without writing the version log%s" % (n, (" (reached from %s)" % bad[0].replace("samyama::", "")) if bad else ""))
    appenders = []
    for p, r in sorted(F.fns.items()):
        if not p.startswith(GS + "::") or "::tests::" in p:
            continue
        m = F.mir(p)
        if not m:
            continue
        b = Body(m, r)
        aggs = [(i, rv, line) for i, j, pl, rv, line, exp in b.stmts() if rv[0] == "agg" and rv[1].endswith("EdgeVersionEntry")]
        if aggs:
            appenders.append((p, r, b, aggs))
    ctx.floor("R07e", "functions appending to the relationship version log", len(appenders), 1)
    adt = F.adt("store::EdgeVersionEntry")
    fields = [f[0] for f in adt["variants"][0]["fields"]]
    for p, r, b, aggs in appenders:
        short = p.replace(GS + "::", "")
        ctx.saw_fn(p)
        # a pre-image is an entry whose properties come from a parameter (handed in by a caller that read them before mutating)
        # or from a read of edge_properties not reachable from a mutation point of this function
        muts = mp.mutation_points(F, cg, b)
        pre = False
        for i, rv, line in aggs:
            o = rv[2][fields.index("properties")]
            if o[0] == "k":
                continue
            og = b.origins(o[1][0], through_calls=lambda c: list(range(len(c.args))) if c.path.rsplit("::", 1)[-1] in ("cloned", "clone", "unwrap_or_default", "unwrap_or", "get", "deref", "as_ref", "unwrap", "expect", "branch", "map", "take") else None)
            if any(x[0] == "arg" and 1 < x[1] <= b.argc for x in og):
                # parameter: every caller must compute it before its own first mutation
                ok_callers = True
                for q, rq in F.fns.items():
                    if p in rq["calls"] and "::tests::" not in q:
                        bq = Body(F.mir(q), rq)
                        mq = mp.mutation_points(F, cg, bq)
                        for c in bq.calls():
                            if c.path != p:
                                continue
                            argl = [a for a in c.args[1:] if a[0] != "k"]
                            srcs = [x for a in argl for x in bq.origins(a[1][0]) if x[0] == "call" and x[1].path.startswith(GS + "::")]
                            first_mut = [mb for mb, ml, mw in mq]
                            for x in srcs:
                                if any(x[1].bb in bq.reachable(mb) and x[1].bb != mb for mb in first_mut if mb != c.bb):
                                    ok_callers = False
                if ok_callers:
                    pre = True
        if pre:
            ctx.ok("R07e", short, "an appended entry carries the state read before the call's first property mutation (base image)")
        else:
            ctx.violation("R07e", short + "|no-base-image", where(r, aggs[0][2]),
                          "%s appends only post-images to the relationship version log: a relationship created with properties has no entry until its first update, and a read at an older version then returns the current properties" % short)
    return ("Decided: which store functions can rewrite an old version in place (no copy-on-write guard), which scans enumerate all versions, and whether "
            "deletion empties the chain — the three structural ways the property breaks. and, for relationships, that every property change is logged and the first logged write keeps the state it replaces. Not decided: values at a version.")


def _creates_edge(F, p):
    r = F.fns.get(p)
    if not r:
        return False
    return any(c.startswith(GS + "::create_edge") for c in r["calls"])


def _cow_guard_hole(b):
    """line of a last_mut() reachable from the `latest.version < current_version` side without passing the push of a
    new version; None when there is no such path (or 0-line sentinel when the comparison cannot be located)."""
    def kind(op):
        if op[0] == "k":
            return None
        pl = op[1]
        for _ in range(8):
            fs = [x for x in pl[1] if x.startswith("f:")]
            if fs:
                if fs[-1].endswith("node::Node.version"):
                    return "V"
                if fs[-1].endswith("GraphStore.current_version"):
                    return "C"
                return None
            ds = b.defs().get(pl[0], [])
            if len(ds) != 1 or ds[0][0] != "stmt" or ds[0][4][0] != "use" or ds[0][4][1][0] == "k":
                return None
            pl = ds[0][4][1][1]
        return None
    lms = [c for c in b.calls() if c.path.rsplit("::", 1)[-1] == "last_mut" and "node::Node" in c.full]
    pushes = {c.bb for c in b.calls() if c.path.rsplit("::", 1)[-1] == "push" and "node::Node" in c.full}
    found = False
    for i, j, pl, rv, line, exp in b.stmts():
        if rv[0] != "bin" or rv[1] not in ("Lt", "Le", "Gt", "Ge", "Eq", "Ne"):
            continue
        ka, kb = kind(rv[2]), kind(rv[3])
        if {ka, kb} != {"V", "C"}:
            continue
        op = rv[1]
        if ka == "C":       # normalise to op(V, C)
            op = {"Lt": "Gt", "Le": "Ge", "Gt": "Lt", "Ge": "Le"}.get(op, op)
        older_true = op in ("Lt", "Le", "Ne")
        # the switch testing this comparison
        for bi in sorted(b.live_blocks()):
            t = b.blocks[bi]["t"]
            if t[0] == "switch" and t[1][0] != "k" and pl[0] in od.chain_locals(b, t[1]):      # also a switch on a named copy of the comparison
                found = True
                zero = [tgt for v, tgt in t[2] if v == "0"]
                older_t = t[3] if older_true else (zero[0] if zero else None)
                if older_t is None:
                    continue
                free = b.reachable(older_t, avoid=pushes)
                for c in lms:
                    if c.bb in free:
                        return c.line
    return None if found else 0
