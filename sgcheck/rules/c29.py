"""C29 — vector search returns live, current, ranked nodes: index maintenance matrix, declared
metric is used, consumer validates liveness."""
from ..cfg import Body
from ..report import where
from .. import storemodel as sm, pairing

LEVEL = "other"


def run(ctx, F, cg):
    ctx.rule("R29a", "the store populates the vector index (add_vector), so every mutator that invalidates an entry (vector overwrite, property removal, label removal, node deletion) must reach a removal/replacement in it")
    ctx.rule("R29b", "the index's declared DistanceMetric is read on the path that selects the distance function in new/search/brute-force search")
    ctx.rule("R29c", "operators that bind node ids obtained from a secondary index validate them against the primary store (sibling agreement with IndexScanOperator)")
    pairing.matrix(ctx, F, cg, "R29a", "vector-index", ["VectorIndexManager::add_vector"],
                   ["VectorIndexManager::remove_vector", "VectorIndexManager::remove", "VectorIndexManager::delete_vector", "VectorIndex::remove", "VectorIndexManager::update_vector", "VectorIndexManager::rebuild_for_label"],
                   ["prop-set", "prop-kill", "label-kill", "node-kill"],
                   "%(fn)s (%(kind)s) never removes or replaces the node's entry in the vector index: a search keeps ranking the node by a vector it no longer has (or keeps returning a deleted node)")
    # ---- R29b ------------------------------------------------------------------------------------------
    vi = [r for p, r in F.fns.items() if p.startswith("samyama::vector::index::VectorIndex::") and "{closure" not in p]
    ctx.floor("R29b", "VectorIndex methods", len(vi), 5)
    readers = [r["path"].rsplit("::", 1)[-1] for r in vi if any(x.endswith("VectorIndex.metric") for x in r["r"])]
    deciding = [n for n in readers if n not in ("metric", "fmt")]
    if deciding:
        ctx.ok("R29b", "metric-used", "DistanceMetric read by %s" % deciding)
    else:
        adt = F.adt("vector::index::VectorIndex")
        ctx.violation("R29b", "VectorIndex|metric-ignored", "%s:%s" % (adt["file"], adt["line"]),
                      "the declared `metric` is only read by its getter/Debug (%s); new(), search() and the brute-force path hard-wire CosineDistance, so an index declared L2 or InnerProduct ranks by cosine" % readers)
    # ---- R29c ------------------------------------------------------------------------------------------
    ops = {}
    for nm in ("IndexScanOperator", "VectorSearchOperator"):
        fs = [r for p, r in F.fns.items() if ("operator::" + nm + "::") in p or ("operator::" + nm + " as") in p]
        calls = set()
        for r in fs:
            calls |= set(r["calls"])
            for cl in r["closures"]:
                if cl in F.fns:
                    calls |= set(F.fns[cl]["calls"])
        ops[nm] = (fs, calls)
        ctx.saw_fn(*[r["path"] for r in fs])
    validators = ("GraphStore::has_node", "GraphStore::get_node", "GraphStore::get_node_at_version")
    for nm, (fs, calls) in ops.items():
        if not fs:
            ctx.anchor_failure("R29c", nm)
            continue
        if any(c.endswith(v) for c in calls for v in validators):
            ctx.ok("R29c", nm, "validates index hits against the store")
        else:
            ctx.violation("R29c", nm + "|no-liveness-check", where(fs[0]), "%s binds node ids returned by a secondary index without checking that the node still exists" % nm)
    return ("Decided: which store mutators keep the vector index current, whether the declared metric influences ranking at all, and whether the consuming "
            "operator validates hits. Not decided: ranking values, HNSW recall.")
