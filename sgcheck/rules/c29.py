"""C29 — vector search returns live, current, ranked nodes: index maintenance matrix, declared
metric is used, consumer validates liveness."""
from ..cfg import Body
from ..report import where
from .. import storemodel as sm, pairing
from .. import orderdom as od
from .. import divguard as dg

LEVEL = "other"


def run(ctx, F, cg):
    ctx.rule("R29a", "the store populates the vector index (add_vector), so every mutator that invalidates an entry (vector overwrite, property removal, label removal, node deletion) must reach a removal/replacement in it")
    ctx.rule("R29b", "the index's declared DistanceMetric is read on the path that selects the distance function in new/search/brute-force search")
    ctx.rule("R29c", "operators that bind node ids obtained from a secondary index validate them against the primary store (sibling agreement with IndexScanOperator)")
    pairing.matrix(ctx, F, cg, "R29a", "vector-index", ["VectorIndexManager::add_vector"],
                   ["VectorIndexManager::remove_vector", "VectorIndexManager::remove", "VectorIndexManager::delete_vector", "VectorIndex::remove", "VectorIndexManager::update_vector", "VectorIndexManager::rebuild_for_label"],
                   ["prop-set", "prop-kill", "label-kill", "node-kill"],
                   "%(fn)s (%(kind)s) never removes or replaces the node's entry in the vector index: a search keeps ranking the node by a vector it no longer has (or keeps returning a deleted node)")
    # ---- R29b ------------------------------------------------------------------------------------------
    vi = [r for p, r in F.fns.items() if p.startswith("samyama::vector::index::VectorIndex::") and "{closure" not in p]
    ctx.floor("R29b", "VectorIndex methods", len(vi), 5)
    readers = [r["path"].rsplit("::", 1)[-1] for r in vi if any(x.endswith("VectorIndex.metric") for x in r["r"])]
    deciding = [n for n in readers if n not in ("metric", "fmt")]
    if deciding:
        ctx.ok("R29b", "metric-used", "DistanceMetric read by %s" % deciding)
    else:
        adt = F.adt("vector::index::VectorIndex")
        ctx.violation("R29b", "VectorIndex|metric-ignored", "%s:%s" % (adt["file"], adt["line"]),
                      "the declared `metric` is only read by its getter/Debug (%s); new(), search() and the brute-force path hard-wire CosineDistance, so an index declared L2 or InnerProduct ranks by cosine" % readers)
    # ---- R29c ------------------------------------------------------------------------------------------
    ops = {}
    for nm in ("IndexScanOperator", "VectorSearchOperator"):
        fs = [r for p, r in F.fns.items() if ("operator::" + nm + "::") in p or ("operator::" + nm + " as") in p]
        calls = set()
        for r in fs:
            calls |= set(r["calls"])
            for cl in r["closures"]:
                if cl in F.fns:
                    calls |= set(F.fns[cl]["calls"])
        ops[nm] = (fs, calls)
        ctx.saw_fn(*[r["path"] for r in fs])
    validators = ("GraphStore::has_node", "GraphStore::get_node", "GraphStore::get_node_at_version")
    for nm, (fs, calls) in ops.items():
        if not fs:
            ctx.anchor_failure("R29c", nm)
            continue
        if any(c.endswith(v) for c in calls for v in validators):
            ctx.ok("R29c", nm, "validates index hits against the store")
        else:
            ctx.violation("R29c", nm + "|no-liveness-check", where(fs[0]), "%s binds node ids returned by a secondary index without checking that the node still exists" % nm)
    # ---- R29d: one conversion from property value to vector at every indexing site -------------------------------
    ctx.rule("R29d", "every add_vector call of the graph store whose vector comes from a PropertyValue obtains it through PropertyValue::to_vector (which accepts the Vector variant and numeric lists alike): a site matching on one representation silently leaves nodes whose embedding is stored in the other out of the index")
    n_sites = 0
    for p, r in sorted(F.fns.items()):
        if not p.startswith("samyama::graph::store") or not any(c.endswith("VectorIndexManager::add_vector") for c in r["calls"]):
            continue
        b = Body(F.mir(p), r)
        ctx.saw_fn(p)
        k = 0
        for c in b.calls():
            if not c.path.endswith("VectorIndexManager::add_vector") or not c.args or c.args[-1][0] == "k":
                continue
            a = c.args[-1]
            tys = {b.local_ty(l) for l in od.chain_locals(b, a)}
            og = b.origins(a[1][0], through_calls=lambda cc: [0] if cc.path.rsplit("::", 1)[-1] in ("deref", "as_slice", "as_ref", "branch", "unwrap", "borrow", "index", "clone", "to_vec", "as_deref") else None)
            conv = any(o[0] == "call" and o[1].path.endswith("PropertyValue::to_vector") for o in og)
            if not conv and not any("property::PropertyValue" in t for t in tys):
                continue        # e.g. an embedding produced by the auto-embed pipeline
            n_sites += 1
            short = p.replace("samyama::graph::store::", "")
            inst = "%s|add_vector|%d" % (short, k)
            k += 1
            if conv:
                ctx.ok("R29d", inst, "vector obtained through to_vector")
            else:
                ctx.violation("R29d", inst, where(r, c.line), "the vector handed to add_vector is taken from a PropertyValue without to_vector(): an embedding stored in the other representation (numeric list vs Vector) is not indexed here although the sibling sites index it")
    ctx.floor("R29d", "add_vector sites fed from a property value", n_sites, 1)
    # ---- R29e: cosine distance is scale invariant ---------------------------------------------------------------
    ctx.rule("R29e", "cosine distance does not depend on the length of either vector: in CosineDistance::eval a comparison of an accumulated norm with a constant compares with exactly zero — a positive threshold ranks every short vector as equidistant from everything")
    ev = [r for p, r in F.fns.items() if p.startswith("<samyama::vector::index::CosineDistance as ") and p.endswith("::eval")]
    if len(ev) != 1:
        ctx.anchor_failure("R29e", "CosineDistance::eval (found %d)" % len(ev))
    else:
        r = ev[0]
        b = Body(F.mir(r["path"]), r)
        ctx.saw_fn(r["path"])
        bad = None
        ncmp = 0
        for i, j, pl, rv, line, exp in b.stmts():
            if rv[0] == "bin" and rv[1] in od.CMP:
                ks = [o for o in rv[2:4] if o[0] == "k"]
                if ks and ks[0][2] in ("f32", "f64"):
                    ncmp += 1
                    if ks[0][3] not in ("0", "2147483648", "9223372036854775808"):
                        bad = (line, ks[0][1])
        if bad:
            ctx.violation("R29e", "CosineDistance::eval|threshold", where(r, bad[0]), "a norm is compared with the non-zero constant `%s`: vectors shorter than that are all reported at the same distance, whatever their direction" % bad[1])
        else:
            ctx.ok("R29e", "CosineDistance::eval|zero-guard", "%d float comparison(s) with a constant, all with zero" % ncmp)
    # ---- R29f: every distance division is guarded against a zero norm ---------------------------------------------
    ctx.rule("R29f", "in the vector index module every float division with a computed divisor (a norm, a product of norms) is dominated by a comparison of each divisor leaf with a constant, or the leaf is floored by max(positive constant): an unguarded 0/0 is NaN, NaN survives clamp and `(1.0 - NaN).max(0.0)` is 0.0, so a zero vector would be ranked first for every query instead of at the declared distance")
    ndiv = 0
    for p, r in sorted(F.fns.items()):
        if not (p.startswith("samyama::vector::") or p.startswith("<samyama::vector::")):
            continue
        bad, n = dg.unguarded(F, p)
        if n:
            ctx.saw_fn(p)
        ndiv += n
        short = p.replace("samyama::vector::", "")
        for k, (line, what) in enumerate(bad):
            ctx.violation("R29f", "%s|unguarded-div|%d" % (short, k), where(r, line), "float division whose divisor depends on %s with no dominating comparison of it with a constant: a zero-norm stored vector or query makes the distance NaN, which the clamp/max/partial_cmp chain turns into distance 0 (ranked first) or an arbitrary position" % what)
        if n and not bad:
            ctx.ok("R29f", short + "|div-guarded", "%d float division(s), every divisor leaf compared with a constant first" % n)
    ctx.floor("R29f", "float divisions in the vector module", ndiv, 1)
    return ("Decided: which store mutators keep the vector index current, whether the declared metric influences ranking at all, and whether the consuming "
            "operator validates hits, and that every distance division in the vector module is guarded against a zero divisor. Not decided: ranking values, HNSW recall.")
