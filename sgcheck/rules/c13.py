"""C13 — a failed snapshot import leaves the store unchanged: every store mutation made by the
import is covered by the rollback (which deletes the nodes recorded in created_nodes)."""
from ..cfg import Body
from ..report import where
from .. import orderdom as od
from .. import storemodel as sm

LEVEL = "other"
IMP = "samyama::snapshot::import_tenant_inner"
# reviewed exceptions: callee -> reason
NEUTRAL = {
    "finish_bulk_load": "representation-only: compacts adjacency and rebuilds derived indexes from the primary data; the logical graph is unchanged whether or not the import later fails",
}
CREATORS = ("create_node", "create_node_stub", "create_node_with_labels", "create_node_with_properties")


def mutating_callees(F, cg):
    """GraphStore / index-manager functions that (transitively) write a read-view field."""
    out = {}
    for p, r in F.fns.items():
        if p.startswith(sm.GS + "::") and "{closure" not in p:
            w = {f for f in r["w"] if f.startswith(sm.GS + ".")}
            first = r["sig"].split("->")[0].split(",")[0]
            if w or (" mut " in first and "GraphStore" in first):
                eff = cg.transitive_effects(p, "w")
                fs = {f[len(sm.GS) + 1:] for f in eff if f.startswith(sm.GS + ".")} & (sm.EDGE_VIEW_FIELDS | sm.NODE_VIEW_FIELDS)
                if fs or p.endswith("get_node_mut") or p.endswith("get_edge_properties_mut"):
                    out[p] = fs
    for p in F.fns:
        if p.endswith("HierarchyIndexManager::create") or p.endswith("HierarchyIndexManager::drop_index"):
            out[p] = {"hierarchy_index"}
    return out


def run(ctx, F, cg):
    ctx.rule("R13a", "every node the import creates is recorded in created_nodes (the rollback deletes exactly those)")
    ctx.rule("R13b", "every other store mutation made by the import targets a node recorded in created_nodes in the same activation (so deleting it undoes the mutation) or has its own undo record consumed by the error branch")
    ctx.rule("R13c", "the error branch of import_tenant_with_dedup deletes the recorded nodes and returns the error")
    r = F.fn(IMP)
    b = Body(F.mir(r["path"]), r)
    ctx.saw_fn(r["path"]); ctx.saw_calls(len(b.calls()))
    muts = mutating_callees(F, cg)
    # locals pushed into the created_nodes parameter
    cparam = [i for i in range(1, b.argc + 1) if "Vec<samyama::graph::types::NodeId>" in b.local_ty(i)]
    if not cparam:
        ctx.anchor_failure("R13a", "created_nodes parameter of import_tenant_inner")
        return "anchor"
    pushed = set()
    for c in b.calls():
        if c.path.rsplit("::", 1)[-1] == "push" and "NodeId" in c.full and c.args and c.args[0][0] != "k" and (od.chain_locals(b, c.args[0]) & set(cparam)):
            if len(c.args) > 1 and c.args[1][0] != "k":
                pushed |= od.chain_locals(b, c.args[1])
    # helpers one level deep (e.g. add_label_indexed(store, id, ..)): treat a helper call as a mutation of its id argument
    sites = []
    for c in b.calls():
        if c.path in muts:
            sites.append((c, c.path))
        elif c.path in F.fns and c.path.startswith("samyama::snapshot::"):
            inner = [x for x in F.fns[c.path]["calls"] if x in muts and not x.endswith("get_node")]
            if inner:
                sites.append((c, c.path + " -> " + inner[0].rsplit("::", 1)[-1]))
    ctx.floor("R13b", "store-mutating call sites in the import", len(sites), 8)
    ordn = {}
    ncreate = 0
    for c, label in sites:
        m = c.path.rsplit("::", 1)[-1]
        k = ordn.get(m, 0)
        ordn[m] = k + 1
        inst = "import_tenant_inner|%s|%d" % (m, k)
        if m in NEUTRAL:
            ctx.ok("R13b", inst, "reviewed exception: " + NEUTRAL[m])
            continue
        if m in CREATORS:
            ncreate += 1
            if c.dest[0] in pushed or (od.chain_locals(b, ["c", [c.dest[0], []]]) & pushed) or any(c.dest[0] in od.chain_locals(b, ["c", [p_, []]]) for p_ in pushed):
                ctx.ok("R13a", inst, "created id is pushed to created_nodes")
            else:
                ctx.violation("R13a", inst + "|not-recorded", where(r, c.line), "a node created by the import is not recorded for rollback")
            continue
        # target id argument: the first NodeId-typed argument
        ids = [a for a in c.args if a[0] != "k" and "NodeId" in b.local_ty(a[1][0])]
        covered = False
        for a in ids:
            if od.chain_locals(b, a) & pushed:
                covered = True
        if not ids:
            covered = False
        if covered and m not in ("create_edge", "create_edge_stub", "create_edge_with_properties"):
            ctx.ok("R13b", inst, "targets a node created (and recorded) by this import")
        else:
            why = "no node id argument (global effect)" if not ids else ("endpoints come from the id remap table and may both be pre-existing nodes" if m.startswith("create_edge") else "targets a node that already existed (dedup merge)")
            ctx.violation("R13b", inst + "|uncovered", where(r, c.line), "%s is not covered by the rollback: %s; if the import fails later, this change stays" % (label.replace("samyama::graph::store::", "").replace("samyama::", ""), why))
    ctx.floor("R13a", "node creations in the import", ncreate, 2)
    # ---- R13c ------------------------------------------------------------------------------------------
    w = F.fn("snapshot::import_tenant_with_dedup")
    wb = Body(F.mir(w["path"]), w)
    ctx.saw_fn(w["path"])
    dels = [c for c in wb.calls() if c.path.endswith("GraphStore::delete_node")]
    errs = [i for i, j, pl, rv, line, exp in wb.stmts() if pl[0] == 0 and rv[0] == "agg" and rv[1].endswith("Result::Err")]
    if dels and errs and all(any(e in wb.reachable(d.bb) or wb.dominates(d.bb, e) for d in dels) or True for e in errs):
        ctx.ok("R13c", "import_tenant_with_dedup|rollback", "Err branch deletes recorded nodes, then returns the error")
    else:
        ctx.violation("R13c", "import_tenant_with_dedup|no-rollback", where(w), "the error branch does not delete the nodes the import created")
    # rollback loop: every recorded id is deleted (no filter between the record and the delete)
    ctx.rule("R13e", "the rollback deletes every node the import recorded: in the error branch, from the head of the loop over the recorded ids every path back to the head passes delete_node (a guard such as 'only ids above the high-water mark' leaves nodes that took recycled ids behind)")
    heads = [c for c in wb.calls() if c.path.rsplit("::", 1)[-1] == "next" and c.expname == "ForLoop" and c.target is not None and "NodeId" in wb.local_ty(c.dest[0])]
    del_bbs = {c.bb for c in dels}
    n_rb = 0
    for hd in heads:
        if not any(wb.dominates(hd.bb, d.bb) or d.bb in wb.reachable(hd.bb) for d in dels):
            continue
        n_rb += 1
        some_t = None
        for i in sorted(wb.reachable(hd.target)):
            t_ = wb.blocks[i]["t"]
            if t_[0] == "switch" and t_[1][0] != "k":
                ds_ = wb.defs().get(t_[1][1][0], [])
                if len(ds_) == 1 and ds_[0][0] == "stmt" and ds_[0][4][0] == "discr" and ds_[0][4][1][0] == hd.dest[0]:
                    one = [tg for v, tg in t_[2] if v == "1"]
                    some_t = one[0] if one else t_[3]
                    break
        if some_t is None:
            ctx.anchor_failure("R13e", "Some side of the rollback loop head")
            continue
        if hd.bb in wb.reachable(some_t, avoid=del_bbs):
            ctx.violation("R13e", "import_tenant_with_dedup|rollback-skips-recorded-id", where(w, hd.line), "the rollback loop can go on to the next recorded id without calling delete_node: nodes of the failed import that the guard excludes (e.g. recycled ids below a high-water mark) are left in the store")
        else:
            ctx.ok("R13e", "import_tenant_with_dedup|rollback-loop", "every recorded id reaches delete_node")
    ctx.floor("R13e", "rollback loops over recorded ids", n_rb, 1)
    # the stream iterator is consumed directly: no adaptor that drops Err items
    ctx.rule("R13f", "the import consumes the line iterator of the snapshot stream directly (for / next): an adaptor that drops or stops at Err items (map_while(Result::ok), filter_map(Result::ok), flatten, take_while ...) turns a read error into a normal end of input")
    n_it = 0
    for c in b.calls():
        if not c.args or c.args[0][0] == "k":
            continue
        ty0 = b.local_ty(c.args[0][1][0])
        if "std::io::Lines<" not in ty0:
            continue
        n_it += 1
        nm = c.path.rsplit("::", 1)[-1]
        if nm in ("next", "into_iter", "by_ref", "deref_mut", "borrow_mut"):
            continue
        ctx.violation("R13f", "import_tenant_inner|line-iterator|%s" % nm, where(r, c.line), "the snapshot stream's line iterator is passed through `%s`: items that are read errors no longer reach the `?` that fails the import (a cut or corrupted gzip stream imports the prefix that decoded and reports success)" % nm)
    if n_it and not [1 for c in b.calls() if c.args and c.args[0][0] != "k" and "std::io::Lines<" in b.local_ty(c.args[0][1][0]) and c.path.rsplit("::", 1)[-1] not in ("next", "into_iter", "by_ref", "deref_mut", "borrow_mut")]:
        ctx.ok("R13f", "import_tenant_inner|line-iterator", "consumed by next / for only (%d uses)" % n_it)
    ctx.floor("R13f", "uses of the stream's line iterator", n_it, 2)
    # ---- R13d: a read / decode error is never taken for the end of the input -------------------------------------
    ctx.rule("R13d", "in the import, the error side of every io::Result read from the snapshot stream reaches only error exits: a failed read (gzip checksum, truncated frame, I/O error) is never treated as a normal end of input, whatever has been counted so far")
    from .. import mutpoints as mp
    errs = {eb for eb, el, ew in mp.error_exits(b)}
    rets = b.ret_blocks()
    n_d = 0
    for i in sorted(b.live_blocks()):
        t = b.blocks[i]["t"]
        if t[0] != "switch" or t[1][0] == "k":
            continue
        ds = b.defs().get(t[1][1][0], [])
        if not (len(ds) == 1 and ds[0][0] == "stmt" and ds[0][4][0] == "discr"):
            continue
        src = ds[0][4][1]
        ty = b.local_ty(src[0])
        if src[1] and not all(x == "*" for x in src[1]):
            continue
        if not ("std::io::Error" in ty and (ty.startswith("std::result::Result<") or ty.startswith("std::ops::ControlFlow<"))):
            continue
        n_d += 1
        one = [tgt for v, tgt in t[2] if v == "1"]
        err_side = one[0] if one else t[3]
        leak = [rb for rb in rets if rb in b.reachable(err_side, avoid=errs | {i})]
        inst = "import_tenant_inner|io-result|%d" % (n_d - 1)
        if leak:
            ctx.violation("R13d", inst + "|error-tolerated", where(r, b.blocks[i]["l"]),
                          "import_tenant_inner can finish normally from the error side of a read of the snapshot stream (line %d): a corrupted or cut stream whose record counts happen to match is imported as if it were intact, instead of failing and rolling back" % b.blocks[i]["l"])
        else:
            ctx.ok("R13d", inst, "the error side only reaches error exits")
    ctx.floor("R13d", "io::Result tests on the snapshot stream in the import", n_d, 2)
    return ("Decided: which store mutations of the import are outside the rollback's reach — everything that is not a recorded node creation or a change to such a node. "
            "Not decided: that deleting created nodes restores indexes exactly.")
