"""C20 — RESP framing under any chunking: resumable decode (no consumption before an
incomplete return), the connection loop keeps the buffer on 'need more data', encoder and
decoder agree on the type-byte table."""
from ..cfg import Body, name_matches, const_int, const_str, lits_strings
from ..report import where
from .. import orderdom as od
from .. import typestate

LEVEL = "other"
MODULE = "samyama::protocol::resp::"


def run(ctx, F, cg):
    ctx.rule("R20a", "in every function that takes the connection buffer mutably, no path that returns Ok(None)/Err(Incomplete) (or propagates one with `?`) has consumed from the buffer")
    ctx.rule("R20b", "the connection loop performs no consuming operation on the buffer itself and every decoded frame reaches a write_all before the next decode")
    ctx.rule("R20c", "the type bytes the encoder emits are the type bytes the decoder dispatches on")
    fam = typestate.Family(F, MODULE)
    ctx.floor("R20a", "functions taking &mut BytesMut in protocol::resp", len(fam.members), 1)
    nexits = 0
    for p in sorted(fam.members):
        r, b, bufs = fam.members[p]
        ctx.saw_fn(p)
        ctx.saw_calls(len(b.calls()))
        bad, exits, nfam, ndirect = typestate.analyse(fam, p)
        nexits += exits
        if not bad:
            ctx.ok("R20a", p, "%d incomplete exits, %d family calls, %d direct consuming calls; none reached in a consumed state" % (exits, nfam, ndirect))
        seen = set()
        for kind, line, detail in bad:
            key = "%s|%s" % (p.replace(MODULE, ""), kind)
            if key in seen:
                continue
            seen.add(key)
            ctx.violation("R20a", key, where(r, line), detail)
    dec = F.fn("protocol::resp::RespValue::decode")
    if dec["path"] not in fam.members:
        ctx.anchor_failure("R20a", "RespValue::decode no longer takes &mut BytesMut")
    ctx.floor("R20a", "incomplete exits examined", nexits, 1)
    # ---- R20d: what is consumed is what the parser measured --------------------------------------
    ctx.rule("R20d", "the amount passed to a consuming call in the decoder entry derives from the result of the non-consuming parser (not from a constant or an unrelated length)")
    r, b, bufs = fam.members[dec["path"]]
    for k, c in enumerate([c for c in b.calls() if typestate.is_consuming_call(c)]):
        if len(c.args) < 2:
            continue
        a = c.args[1]
        srcs = []
        if a[0] != "k":
            srcs = [o[1].path for o in b.origins(a[1][0], through_calls=lambda cc: [0] if cc.path.rsplit("::", 1)[-1] in ("branch",) else None) if o[0] == "call"]
        local_parsers = [p for p in srcs if p.startswith(MODULE)]
        if local_parsers:
            ctx.ok("R20d", "decode|consume-amount|%d" % k, "amount derives from %s" % ",".join(sorted(set(local_parsers))))
        elif p_is_family(fam, b, c):
            ctx.ok("R20d", "decode|consume-amount|%d" % k, "consuming helper of the decoder family")
        else:
            ctx.violation("R20d", "decode|consume-amount|%d" % k, where(r, c.line), "the consumed amount does not derive from the parser's measured frame length (origins: %s)" % (srcs or "constant"))

    # ---- R20e: a "malformed" verdict is only drawn from bytes known to be present --------------------------------
    ctx.rule("R20e", "a content test (starts_with / ends_with / slice ==) whose outcome leads to Err(Protocol) is made on a slice with explicit bounds (a closed range the length guard covers), never on an open-ended tail: with an open tail a frame whose terminator has not arrived yet is reported malformed instead of incomplete")
    scope = [p for p in cg.reach([dec["path"]], stop=lambda q: not q.startswith(MODULE)) if p.startswith(MODULE) and p in F.fns]
    ntests = 0
    for p in sorted(scope):
        r = F.fns[p]
        if not any(c.rsplit("::", 1)[-1] in ("starts_with", "ends_with", "eq", "ne") for c in r["calls"]):
            continue
        b = Body(F.mir(p), r)
        proto = {i for i, j, pl, rv, line, exp in b.stmts() if rv[0] == "agg" and rv[1].endswith("RespError::Protocol")}
        if not proto:
            continue
        k = 0
        for c in b.calls():
            m = c.path.rsplit("::", 1)[-1]
            if m not in ("starts_with", "ends_with", "eq", "ne") or not ("[u8]" in c.full or "slice" in c.path or "&[u8" in c.full):
                continue
            if c.target is None:
                continue
            t = b.blocks[c.target]["t"]
            if t[0] != "switch":
                continue
            sides = b.succ(c.target)
            leads = [s_ for s_ in sides if proto & b.reachable(s_, avoid={c.target})]
            other = [s_ for s_ in sides if s_ not in leads]
            if not leads or not other:
                continue            # both or neither side ends in a protocol error: not a deciding test
            ntests += 1
            inst = "%s|content-test|%d" % (p.replace(MODULE, ""), k)
            k += 1
            a = c.args[0]
            og = b.origins(a[1][0], through_calls=lambda cc: [0] if cc.path.rsplit("::", 1)[-1] in ("deref", "as_ref", "borrow", "as_slice") else None) if a[0] != "k" else []
            producers = [o[1] for o in og if o[0] == "call"]
            closed = [x for x in producers if x.path.rsplit("::", 1)[-1] in ("index", "get") and ("ops::Range<usize>" in x.full or "RangeInclusive<usize>" in x.full)]
            open_ = [x for x in producers if x.path.rsplit("::", 1)[-1] in ("split_at", "split_off", "split_first", "split_last") or (x.path.rsplit("::", 1)[-1] == "index" and ("RangeFrom" in x.full or "RangeTo<" in x.full or "RangeFull" in x.full))]
            if closed and not open_:
                ctx.ok("R20e", inst, "tested slice has explicit bounds (%s)" % closed[0].full[closed[0].full.rfind("<impl"):][:60])
            else:
                ctx.violation("R20e", inst, where(r, c.line), "%s decides 'malformed' on an open-ended slice (%s): when the bytes it looks for have not arrived yet the frame is reported as a protocol error instead of incomplete" % (m, [x.path.rsplit("::", 1)[-1] for x in (open_ or producers)] or "parameter"))
    ctx.floor("R20e", "content tests that decide a protocol error", ntests, 1)

    # ---- R20b connection loop ----------------------------------------------------------------
    hc = [r for p, r in F.fns.items() if p.startswith("samyama::protocol::server::handle_connection") and r["coroutine"]]
    if not hc:
        hc = [r for p, r in F.fns.items() if p.startswith("samyama::protocol::server::handle_connection::")]
    if not hc:
        ctx.anchor_failure("R20b", "protocol::server::handle_connection coroutine body")
    for r in hc:
        b = Body(F.mir(r["path"]), r)
        ctx.saw_fn(r["path"])
        ctx.saw_calls(len(b.calls()))
        decs = b.calls_to(["RespValue::decode"])
        if not decs:
            continue
        cons = [c for c in b.calls() if typestate.is_consuming_call(c)]
        if cons:
            for c in cons:
                ctx.violation("R20b", "loop-consumes|" + c.path.rsplit("::", 1)[-1], where(r, c.line),
                              "the connection loop itself consumes from the buffer (%s); a partial frame would be lost" % c.path)
        else:
            ctx.ok("R20b", "loop-does-not-consume", "%d decode call(s), no direct consuming call on the buffer" % len(decs))
        # each decoded frame is answered: from the Some-arm every path back to a decode call passes write_all
        writes = {c.bb for c in b.calls() if c.path.endswith("::write_all") or name_matches(c.decl, ["AsyncWriteExt::write_all"])}
        ctx.floor("R20b", "write_all calls in the connection loop", len(writes), 1)
        for d in decs:
            # find the switch on the decode result: Ok(Some) arm = blocks where the payload is moved out
            some_blocks = set()
            for i, j, pl, rv, line, exp in b.stmts():
                if rv[0] == "use" and rv[1][0] != "k":
                    src = rv[1][1]
                    if "d:Some" in src[1] and any(x.endswith("Result::Ok.0") for x in src[1]) and src[0] == d.dest[0]:
                        some_blocks.add(i)
            if not some_blocks:
                ctx.violation("R20b", "some-arm-not-found", where(r, d.line), "cannot locate the Ok(Some(frame)) arm of the decode loop (checker needs update)")
                continue
            for sb in some_blocks:
                # reachable back to decode without passing a write?
                if not b.must_pass(sb, d.bb, writes):
                    ctx.violation("R20b", "frame-without-reply", where(r, b.blocks[sb]["l"]),
                                  "a decoded frame can reach the next decode without any reply being written")
                else:
                    ctx.ok("R20b", "every-frame-answered", "all paths from the Ok(Some) arm to the next decode pass a write_all")

    # ---- R20c type bytes ------------------------------------------------------------------------
    enc = F.fn("protocol::resp::RespValue::encode")
    eb = Body(F.mir(enc["path"]), enc)
    ctx.saw_fn(enc["path"], dec["path"])
    enc_bytes = set()
    for i, j, pl, rv, line, exp in eb.stmts():
        for o in _ops(rv):
            s = const_str(o)
            if s:
                enc_bytes.add(s[0])
    # format pieces live in promoted consts; fall back to HIR literals of the encode arms
    for m in F.arms(enc["path"]):
        for arm in m["arms"]:
            for txt in lits_strings(arm["lits"]):
                if txt:
                    enc_bytes.add(txt[0])
    dec_bytes = set()
    db = Body(F.mir(dec["path"]), dec)
    for i in db.live_blocks():
        t = db.blocks[i]["t"]
        if t[0] == "switch":
            for val, tgt in t[2]:
                try:
                    v = int(val)
                    if 32 < v < 127:
                        dec_bytes.add(chr(v))
                except ValueError:
                    pass
    # decoder family may dispatch in a helper after the fix
    for p in F.fns:
        if p.startswith(MODULE + "RespValue::") and p != dec["path"]:
            m = F.mir(p)
            if m is None:
                continue
            bb = Body(m)
            for i in bb.live_blocks():
                t = bb.blocks[i]["t"]
                if t[0] == "switch" and len(t[2]) >= 4:
                    for val, tgt in t[2]:
                        try:
                            v = int(val)
                            if 32 < v < 127:
                                dec_bytes.add(chr(v))
                        except ValueError:
                            pass
    type_bytes = {c for c in enc_bytes if c in "+-:$*_#,(!=%~>|"}
    ctx.floor("R20c", "type bytes emitted by encode", len(type_bytes), 6)
    missing = sorted(type_bytes - dec_bytes)
    if missing:
        for c in missing:
            ctx.violation("R20c", "encoder-byte-not-decoded|" + c, where(dec), "encode emits type byte %r that decode does not dispatch on" % c)
    else:
        ctx.ok("R20c", "type-byte-table", "encoder bytes %s all dispatched by the decoder (%s)" % (sorted(type_bytes), sorted(dec_bytes)))
    # ---- R20f: "need more data" is decided by an exact test or propagated ------------------------------------------
    ctx.rule("R20f", "the parser reports Incomplete only (a) because a sub-parse reported it (the None / Incomplete side of a sub-parse result), or (b) on the failing side of a comparison of the available length with exactly the number of bytes it goes on to take (the bound reappears as a slice bound on the success side) — an estimate such as `elements * 4` declares complete frames made of 3-byte elements incomplete for ever")
    n_inc = 0
    for p_, r_ in sorted(F.fns.items()):
        if not p_.startswith("samyama::protocol::resp::") or "::tests::" in p_:
            continue
        m_ = F.mir(p_)
        if not m_:
            continue
        b_ = Body(m_, r_)
        incs = [(i, line) for i, j, pl, rv, line, exp in b_.stmts() if rv[0] == "agg" and rv[1].endswith("RespError::Incomplete")]
        k_ = 0
        for blk, line in incs:
            n_inc += 1
            short = p_.rsplit("::", 1)[-1]
            inst = "%s|incomplete|%d" % (short, k_)
            k_ += 1
            # deciding switch: the closest dominating switch one of whose sides does not reach this block
            dec = None
            for i in sorted(b_.live_blocks(), reverse=True):
                t = b_.blocks[i]["t"]
                if t[0] != "switch" or t[1][0] == "k" or not b_.dominates(i, blk) or i == blk:
                    continue
                if any(blk not in b_.reachable(s_, avoid={i}) for s_ in b_.succ(i)):
                    dec = (i, t)
                    break
            if dec is None:
                ctx.violation("R20f", inst + "|unconditional", where(r_, line), "%s reports Incomplete unconditionally" % short)
                continue
            i, t = dec
            ds = b_.defs().get(t[1][1][0], [])
            if len(ds) == 1 and ds[0][0] == "stmt" and ds[0][4][0] == "discr":
                srcl = ds[0][4][1][0]
                og = b_.origins(srcl, through_calls=lambda cc: [0] if cc.path.rsplit("::", 1)[-1] in ("branch",) else None)
                sub = [o[1].path.rsplit("::", 1)[-1] for o in og if o[0] == "call" and o[1].path.startswith("samyama::protocol::resp::")]
                if sub:
                    ctx.ok("R20f", inst, "propagates the outcome of %s" % sub[0])
                    continue
            e = od.expr_of(b_, t[1])
            if e[0] == "cmp":
                sides = [e[2], e[3]]
                lens = [x for x in sides if "len" in od.show(x) or "PtrMetadata" in od.show(x)]
                bounds = [x for x in sides if x not in lens]
                if lens and bounds:
                    btxt = od.show(bounds[0])
                    # the same bound used as a slice end / advance amount in this function
                    used = False
                    for c in b_.calls():
                        if c.path.rsplit("::", 1)[-1] in ("index", "index_mut", "advance", "split_to", "split_at", "get"):
                            for a in c.args[1:]:
                                if a[0] != "k":
                                    for d in b_.defs().get(a[1][0], []):
                                        if d[0] == "stmt" and d[4][0] == "agg":
                                            for o in d[4][2]:
                                                if od.show(od.expr_of(b_, o)) == btxt:
                                                    used = True
                                    if od.show(od.expr_of(b_, a)) == btxt:
                                        used = True
                    if used:
                        ctx.ok("R20f", inst, "available length compared with %s, which is then taken" % btxt)
                    else:
                        ctx.violation("R20f", inst + "|estimated-bound", where(r_, line), "%s reports Incomplete when the available length is below %s, but never takes exactly that many bytes: the bound is an estimate, and a complete frame smaller than the estimate is never decoded (nor anything pipelined behind it)" % (short, btxt))
                    continue
            ctx.violation("R20f", inst + "|unrecognised-test", where(r_, line), "%s reports Incomplete on a test the rule does not recognise (%s)" % (short, od.show(e)))
    ctx.floor("R20f", "constructions of RespError::Incomplete in the parser", n_inc, 2)
    return ("Decided: the structural clause of chunking-safety — a decoder function never consumes from the connection buffer on a path "
            "that then reports 'incomplete' (so a retry after more bytes sees the same prefix), the connection loop keeps the buffer and "
            "answers each decoded frame, and the encoder/decoder type-byte tables agree. Not decided: byte-level equality of "
            "decode(encode(v)) and arithmetic of consumed lengths.")


def p_is_family(fam, b, c):
    return len(fam.members) > 1 and any(cc.path in fam.members for cc in b.calls())


def _ops(rv):
    k = rv[0]
    if k in ("use", "repeat"):
        return [rv[1]]
    if k == "cast":
        return [rv[2]]
    if k == "bin":
        return rv[2:4]
    if k == "agg":
        return rv[2]
    return []
