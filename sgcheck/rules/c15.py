"""C15 — WAL replays the durable prefix: a torn record ends the log, the sequence continues from
the log's contents after a reopen, the checksum covers the record, append orders its writes."""
from ..cfg import Body
from ..report import where
from ..facts import in_module
from .. import orderdom as od

LEVEL = "other"
WAL = "samyama::persistence::wal::Wal::"


def run(ctx, F, cg):
    ctx.rule("R15a", "every read_exact in Wal::replay inspects io::Error::kind for UnexpectedEof instead of propagating the error (a torn tail is the end of the log)")
    ctx.rule("R15b", "Wal::new derives the starting sequence from a function that decodes WalRecords from the log files (not only from file names)")
    ctx.rule("R15c", "WalRecord::calculate_checksum reads every field of WalRecord except the checksum itself")
    ctx.rule("R15d", "Wal::append increments the sequence before writing, writes the length prefix before the payload, and the prefix is the payload's length")
    # ---- R15a ------------------------------------------------------------------------------------------
    rp = F.fn(WAL + "replay")
    from .. import inline as inl_
    b = inl_.body(F, rp["path"], inl_.private_helpers(F, rp["path"]))      # frame-reading helpers are read in place
    rp = b.fn
    ctx.saw_fn(rp["path"]); ctx.saw_calls(len(b.calls()))
    reads = [c for c in b.calls() if c.path.rsplit("::", 1)[-1] in ("read_exact", "read", "read_to_end", "read_until")]
    ctx.floor("R15a", "reads in Wal::replay", len(reads), 2)
    kinds = [c for c in b.calls() if c.path.endswith("io::Error::kind")]
    for k, c in enumerate(reads):
        inst = "replay|read|%d" % k
        # is the result fed to `?` directly?
        direct_q = any(cc.path.endswith("Try>::branch") and cc.args and cc.args[0][0] != "k" and cc.args[0][1][0] == c.dest[0] for cc in b.calls())
        handled = False
        for kc in kinds:
            og = b.origins(kc.args[0][1][0]) if kc.args and kc.args[0][0] != "k" else []
            if any(o[0] == "call" and o[1].bb == c.bb for o in og):
                # compared with UnexpectedEof?
                for e in b.calls():
                    if e.path.rsplit("::", 1)[-1] in ("eq", "ne") and any(a[0] != "k" and kc.dest[0] in od.chain_locals(b, a) for a in e.args):
                        txt = " ".join(b.operand_text(a) for a in e.args)
                        if "UnexpectedEof" in txt:
                            handled = True
        if handled and not direct_q:
            ctx.ok("R15a", inst, "UnexpectedEof on this read ends the log")
        else:
            ctx.violation("R15a", inst, where(rp, c.line), "a record cut short at this read fails the whole replay (error propagated with `?`) instead of ending the log")
    # ---- R15b ------------------------------------------------------------------------------------------
    nw = F.fn(WAL + "new")
    nb = Body(F.mir(nw["path"]), nw)
    ctx.saw_fn(nw["path"])
    seq_sources = set()
    for i, j, pl, rv, line, exp in nb.stmts():
        flds = [p for p in pl[1] if p.startswith("f:") and p.endswith("Wal.sequence")]
        ops = []
        if flds:
            ops = _ops(rv)
        elif rv[0] == "agg" and rv[1].endswith("wal::Wal"):
            adt = F.adt("persistence::wal::Wal")
            fields = [f[0] for f in adt["variants"][0]["fields"]]
            ops = [rv[2][fields.index("sequence")]]
        for o in ops:
            if o[0] != "k":
                for og in nb.origins(o[1][0], through_calls=lambda c: [0, 1] if c.path.rsplit("::", 1)[-1] in ("max", "branch", "unwrap_or", "unwrap_or_default") else None):
                    if og[0] == "call" and og[1].path in F.fns:
                        seq_sources.add(og[1].path)
    decoding = []
    for s in sorted(seq_sources):
        par = cg.reach([s])
        for p in par:
            if p in F.fns:
                bb = Body(F.mir(p), F.fns[p])
                if any("deserialize" in c.path and "WalRecord" in c.full for c in bb.calls()):
                    decoding.append(s)
                    break
    if decoding:
        ctx.ok("R15b", "new|sequence-from-contents", "sequence derives from %s which decodes WalRecords" % ", ".join(x.replace(WAL, "") for x in decoding))
    else:
        ctx.violation("R15b", "new|sequence-from-file-names", where(nw), "the starting sequence derives only from %s: file names carry the sequence at which a file was opened, so sequences repeat after close and reopen" % (sorted(x.replace(WAL, "") for x in seq_sources) or "constants"))
    # ---- R15c ------------------------------------------------------------------------------------------
    cc = F.fn("persistence::wal::WalRecord::calculate_checksum")
    adt = F.adt("persistence::wal::WalRecord")
    fields = [f[0] for f in adt["variants"][0]["fields"]]
    reads_ = set()
    par = cg.reach([cc["path"]], stop=lambda p: not in_module(p, "samyama::persistence::wal::"))
    for p in par:
        if p in F.fns:
            for x in F.fns[p]["r"] + F.fns[p]["w"]:
                if "WalRecord." in x:
                    reads_.add(x.rsplit(".", 1)[-1])
    # passing `self` whole to a serializer covers everything
    cb = Body(F.mir(cc["path"]), cc)
    whole = any("serialize" in c.path and c.args and c.args[0][0] != "k" and 1 in od.chain_locals(cb, c.args[0]) and "WalRecord" in c.full for c in cb.calls())
    ctx.saw_fn(cc["path"])
    for f in fields:
        if f == "checksum":
            continue
        if f in reads_ or whole:
            ctx.ok("R15c", "calculate_checksum|covers|" + f, "field %s is part of the checksummed bytes" % f)
        else:
            ctx.violation("R15c", "WalRecord::calculate_checksum|field-not-covered|" + f, where(cc), "the checksum does not cover WalRecord.%s: a corrupted %s is returned unnoticed" % (f, f))
    # ---- R15g: the checksum folds every byte ---------------------------------------------------------------------
    ctx.rule("R15g", "the checksum folds every byte of the serialized entry: the byte sequence reaches the fold through element-wise iteration only (iter / copied / cloned / for); a chunking, stepping, windowing or truncating adaptor (chunks_exact, step_by, take, skip, ...) leaves trailing or skipped bytes outside the checksum")
    PARTIAL = ("chunks_exact", "chunks", "rchunks", "rchunks_exact", "step_by", "take", "skip", "windows", "split_at", "split_first", "split_last", "take_while", "skip_while", "array_chunks", "truncate", "get")
    part = sorted({c.path.rsplit("::", 1)[-1] for c in cb.calls() if c.path.rsplit("::", 1)[-1] in PARTIAL})
    for clp in F.fns[cc["path"]]["closures"]:
        for c_ in F.fns.get(clp, {}).get("calls", []):
            if c_.rsplit("::", 1)[-1] in PARTIAL:
                part.append(c_.rsplit("::", 1)[-1])
    folds = [c for c in cb.calls() if c.path.rsplit("::", 1)[-1] in ("fold", "for_each", "sum", "next", "reduce")]
    if part and not any(c.path.rsplit("::", 1)[-1] == "remainder" for c in cb.calls()):
        ctx.violation("R15g", "calculate_checksum|partial-coverage|" + part[0], where(cc), "calculate_checksum walks the serialized entry through `%s`: the bytes that adaptor leaves out (e.g. the last len %% 4 bytes of chunks_exact(4)) are not covered, and a flip in them is returned by replay as a valid record" % part[0])
    elif not folds:
        ctx.violation("R15g", "calculate_checksum|no-fold", where(cc), "cannot find the fold over the serialized bytes")
    else:
        ctx.ok("R15g", "calculate_checksum|all-bytes", "element-wise %s over the serialized entry" % folds[0].path.rsplit("::", 1)[-1])
    # ---- R15h: the start sequence is at least everything already recorded -------------------------------------------
    ctx.rule("R15h", "a reopened log continues after everything it holds: evaluated on a grid, the value assigned to Wal.sequence in Wal::new is >= each of its sources (the newest file's name sequence, the last recorded sequence) — `x.saturating_sub(1)` re-issues a sequence and appends into an existing file after torn bytes")
    nb_ = Body(F.mir(nw["path"]), nw)
    assigns = [(i, rv, line) for i, j, pl, rv, line, exp in nb_.stmts() if any(p.endswith("Wal.sequence") for p in pl[1] if p.startswith("f:"))]
    aggs_ = [(i, rv, line) for i, j, pl, rv, line, exp in nb_.stmts() if rv[0] == "agg" and rv[1].endswith("wal::Wal")]
    exprs = []
    for i, rv, line in assigns:
        if rv[0] == "use":
            exprs.append((od.expr_of(nb_, rv[1]), line))
    wadt = F.adt("persistence::wal::Wal")
    wf = [f[0] for f in wadt["variants"][0]["fields"]]
    for i, rv, line in aggs_:
        exprs.append((od.expr_of(nb_, rv[2][wf.index("sequence")]), line))
    ctx.floor("R15h", "values given to Wal.sequence in Wal::new", len(exprs), 1)
    for k_, (e_, line) in enumerate(exprs):
        rts = od.roots(e_)
        # a read of the field itself (wal.sequence.max(..)) is a root standing for the previous value
        try:
            import itertools
            bad = None
            for vals in itertools.product(range(0, 4), repeat=len(rts)):
                env = dict(zip(rts, vals))
                v = od.evaluate(e_, env)
                if rts and v < max(vals):
                    bad = (vals, v)
                    break
            if bad:
                ctx.violation("R15h", "new|sequence|%d|below-its-source" % k_, where(nw, line), "Wal::new computes the starting sequence as %s, which is below one of its sources for %s -> %s: the reopened log re-issues a sequence number that is already in use" % (od.show(e_), bad[0], bad[1]))
            else:
                ctx.ok("R15h", "new|sequence|%d" % k_, "%s >= each of its %d source(s) on the grid" % (od.show(e_), len(rts)))
        except Exception as ex:
            ctx.violation("R15h", "new|sequence|%d|not-evaluable" % k_, where(nw, line), "the starting sequence %s cannot be evaluated (closed world: max, min, +, -, saturating_*): %s" % (od.show(e_), ex))
    # ---- R15d ------------------------------------------------------------------------------------------
    ap = F.fn(WAL + "append")
    ab = inl_.body(F, ap["path"], inl_.private_helpers(F, ap["path"]))
    ap = ab.fn
    ctx.saw_fn(ap["path"]); ctx.saw_calls(len(ab.calls()))
    writes = [c for c in ab.calls() if c.path.rsplit("::", 1)[-1] == "write_all"]
    incs = [i for i, j, pl, rv, line, exp in ab.stmts() if any(p.endswith("Wal.sequence") for p in pl[1]) ]
    if len(writes) < 2 or not incs:
        ctx.violation("R15d", "append|shape", where(ap), "append does not have the increment + two writes shape (writes=%d, increments=%d)" % (len(writes), len(incs)))
    else:
        w0, w1 = writes[0], writes[1]
        ok = all(ab.dominates(incs[0], w.bb) for w in writes) and ab.dominates(w0.bb, w1.bb)
        og0 = ab.origins(w0.args[1][1][0], through_calls=lambda c: [0] if c.path.rsplit("::", 1)[-1] in ("to_le_bytes", "to_be_bytes", "deref", "as_slice") else None) if w0.args[1][0] != "k" else []
        lens = [o[1] for o in og0 if o[0] == "call" and o[1].path.rsplit("::", 1)[-1] == "len"]
        data1 = od.chain_locals(ab, w1.args[1]) if w1.args[1][0] != "k" else set()
        same = any(l.args and l.args[0][0] != "k" and (od.chain_locals(ab, l.args[0]) & data1) for l in lens)
        if ok and same:
            ctx.ok("R15d", "append|order", "sequence++ dominates both writes; prefix = len(payload) written first")
        else:
            ctx.violation("R15d", "append|order", where(ap, w0.line), "append order broken: increment-dominates=%s, prefix-is-len-of-payload=%s" % (ok, same))
    # ---- R15e: file names sort in sequence order -------------------------------------------------------------------
    ctx.rule("R15e", "replay orders the log files by sorting their names, so the sequence in the file name is zero-padded hex of fixed width (>= 16 digits): unpadded names sort wal-10 before wal-2")
    from .. import consts as _consts
    onf = F.fn(WAL + "open_new_file")
    ob = Body(F.mir(onf["path"]), onf)
    gwf = F.fn(WAL + "get_wal_files")
    gb = Body(F.mir(gwf["path"]), gwf)
    ctx.saw_fn(onf["path"], gwf["path"])
    sorts_names = any(c.path.rsplit("::", 1)[-1] in ("sort", "sort_unstable") and "PathBuf" in c.full for c in gb.calls())
    numeric_sort = any(c.path.rsplit("::", 1)[-1] in ("sort_by_key", "sort_by_cached_key", "sort_by", "sort_unstable_by_key") for c in gb.calls())
    tpl = [t for line, t in _consts.format_templates(ob) if any(x[0] == "lit" and x[1].startswith("wal-") for x in t)]
    if not tpl:
        ctx.anchor_failure("R15e", "file-name format template in Wal::open_new_file")
    else:
        args_ = [x for x in tpl[0] if x[0] == "arg"]
        a = args_[0] if args_ else None
        width = a[4] if a else None
        zero = bool(a and a[3] is not None and (a[3] >> 24) & 1)
        if numeric_sort and not sorts_names:
            ctx.ok("R15e", "file-order", "files are ordered by a key function, not by name")
        elif width is not None and width >= 16 and zero:
            ctx.ok("R15e", "file-order", "names are sorted lexicographically and the sequence is zero-padded to %d hex digits" % width)
        else:
            ctx.violation("R15e", "open_new_file|unpadded-file-name", where(onf), "log files are replayed in name order but the sequence in the name is not zero-padded to a fixed width (width=%s, zero-pad=%s): from the 16th file on, records are replayed out of append order" % (width, zero))
    # ---- R15f: a torn record ends the *file*, not the replay ------------------------------------------------------
    ctx.rule("R15f", "on UnexpectedEof replay leaves the per-file loop and goes on to the next file: every path from the torn-record branch to the return passes the file iterator again (records appended after a reopen live in later files)")
    file_next = {c.bb for c in b.calls() if c.path.endswith("Iterator>::next") and "PathBuf" in c.full}
    if not file_next:
        ctx.anchor_failure("R15f", "iteration over the log files in Wal::replay")
    else:
        k = 0
        for e in b.calls():
            if e.path.rsplit("::", 1)[-1] in ("eq", "ne") and "ErrorKind" in e.full and "UnexpectedEof" in " ".join(b.operand_text(a) for a in e.args) and e.target is not None:
                t = b.blocks[e.target]["t"]
                if t[0] != "switch":
                    continue
                false_t = [tgt for v, tgt in t[2] if v == "0"]
                eof_t = t[3] if e.path.endswith("::eq") else (false_t[0] if false_t else None)
                if eof_t is None:
                    continue
                rets = b.ret_blocks()
                ok = all(b.must_pass(eof_t, rb, file_next) for rb in rets if rb in b.reachable(eof_t))
                if not ok and b.mir.get("inlined"):
                    # with the frame-reading helpers read in place, the helper's `Ok(false)` return meets the caller's
                    # `?` at a join; the error side of that join is not a path of the torn-record branch
                    ok = b.success_passes(eof_t, file_next)
                inst = "replay|torn-record-ends-file|%d" % k
                k += 1
                if ok:
                    ctx.ok("R15f", inst, "the torn-record branch continues with the next log file")
                else:
                    ctx.violation("R15f", inst, where(rp, b.blocks[eof_t]["l"]), "a torn record makes replay return at once: complete records in later files (appended after the reopen that followed the crash) are dropped")
        ctx.floor("R15f", "UnexpectedEof branches in replay", k, 2)
    return ("Decided: torn-tail handling on both reads of replay, sequence initialisation from decoded log contents, checksum field coverage, "
            "and the write order of append. Not decided: byte-level behaviour of bincode on torn/corrupt input, strength of the XOR checksum.")


def _ops(rv):
    k = rv[0]
    if k in ("use", "repeat"):
        return [rv[1]]
    if k == "cast":
        return [rv[2]]
    if k == "bin":
        return rv[2:4]
    if k == "agg":
        return rv[2]
    return []
