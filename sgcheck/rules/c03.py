"""C03 — the parsed-query cache never changes what a query means."""
from ..cfg import Body
from ..cfg import name_matches
from .. import orderdom as od
from ..report import where
from .. import grammar, consts
from ..facts import REPO

LEVEL = "other"
IDENTITY = ("to_string", "to_owned", "clone", "from", "into", "as_str", "deref", "borrow", "as_ref", "to_str", "into_string", "into_boxed_str", "as_mut_str")
CACHE_OPS = ("get", "put", "peek", "get_mut", "contains", "pop", "push", "get_or_insert", "get_or_insert_mut", "peek_mut", "promote")
SPLITTERS = ("split", "split_terminator", "rsplit", "split_inclusive")
BANNED = ("split_whitespace", "split_ascii_whitespace", "trim", "trim_start", "trim_end", "trim_matches", "to_lowercase", "to_uppercase",
          "to_ascii_lowercase", "to_ascii_uppercase", "replace", "replacen", "lines", "chars", "bytes", "char_indices", "truncate",
          "hash", "finish", "hash_one", "get_unchecked", "index", "format")
IMPURE = ("std::env::", "std::time::", "std::fs::", "rand::", "getrandom", "std::net::", "std::process::", "std::thread::current", "chrono::", "std::io::stdin", "tokio::time")


def id_through(c):
    m = c.path.rsplit("::", 1)[-1]
    if m in IDENTITY and ("str" in c.path or "String" in c.path or "string" in c.path or "Deref" in c.path or "Clone" in c.path or "From" in c.path or "Into" in c.path or "Borrow" in c.path or "AsRef" in c.path or "ToOwned" in c.path or "ToString" in c.path):
        return [0]
    return None


def check_normaliser(ctx, F, path, ws, delims, inst):
    """Whitespace normaliser: transformation only when no string/comment delimiter is present, and only of grammar whitespace."""
    r = F.fns[path]
    b = Body(F.mir(path), r)
    ctx.saw_fn(path); ctx.saw_calls(len(b.calls()))
    okall = True
    strparams = [i for i in range(1, b.argc + 1) if "str" in b.local_ty(i) or "String" in b.local_ty(i)]
    if len(strparams) != 1:
        ctx.violation("R03a", inst + "|normaliser-shape", where(r), "key function %s does not take exactly one string" % path)
        return False
    # containment tests over the delimiters
    tests = []
    for c in b.calls():
        m = c.path.rsplit("::", 1)[-1]
        if m in ("contains", "find", "any") and c.target is not None:
            chars = consts.closure_arg_chars(F, b, c)
            if delims <= chars:
                sb_, t = b.switch_on(c.dest[0], c.target)
                if t is not None:
                    false_t = [tgt for v, tgt in t[2] if v == "0"]
                    if false_t:
                        tests.append((c, sb_, false_t[0], t[3]))
    def _inspect_only(c):
        # `s.chars().any(pred)`: an iterator that only feeds a containment test inspects, it does not transform
        if c.path.rsplit("::", 1)[-1] not in ("chars", "bytes", "char_indices", "iter"):
            return False
        locs, us = {c.dest[0]}, []
        for _ in range(3):
            for l in list(locs):
                for u in b.uses_of(l):
                    if u[0] == "stmt" and u[4][0] in ("ref", "use") and not u[3][1]:
                        locs.add(u[3][0])       # `&mut it` / a move of the iterator
                    elif u not in us:
                        us.append(u)
        us = [u for u in us if not (u[0] == "stmt" and u[4][0] in ("ref", "use"))]
        return bool(us) and all(u[0] == "call" and u[1].path.rsplit("::", 1)[-1] in ("any", "all", "find", "position", "into_iter") for u in us)
    transforming = [c for c in b.calls() if id_through(c) is None and c.path.rsplit("::", 1)[-1] not in ("contains", "find", "any", "is_empty", "len") and not _inspect_only(c)]
    for c in transforming:
        m = c.path.rsplit("::", 1)[-1]
        guarded = any(c.bb in b.reachable(ft) and c.bb not in b.reachable(tt) and b.dominates(sb, c.bb) for (_, sb, ft, tt) in tests)
        if not guarded:
            okall = False
            ctx.violation("R03a", inst + "|unguarded-transformation|" + m, where(r, c.line),
                          "the cache key is transformed by %s without first establishing that the query has no string literal or comment (delimiters %s): whitespace inside them is significant" % (c.path, sorted(delims)))
            continue
        if m in BANNED:
            okall = False
            ctx.violation("R03a", inst + "|transformation-not-meaning-preserving|" + m, where(r, c.line),
                          "%s changes text the grammar does not treat as insignificant (e.g. Unicode whitespace, letter case)" % c.path)
        elif m in SPLITTERS:
            chars = consts.closure_arg_chars(F, b, c)
            if not chars or not chars <= ws:
                okall = False
                ctx.violation("R03a", inst + "|splits-on-non-grammar-whitespace", where(r, c.line),
                              "key splitting on %r is not limited to the grammar's WHITESPACE %r" % (sorted(chars), sorted(ws)))
        elif m == "join" or m == "concat":
            chars = consts.closure_arg_chars(F, b, c)
            if m == "join" and (len(chars) != 1 or not chars <= ws):
                okall = False
                ctx.violation("R03a", inst + "|join-separator", where(r, c.line), "tokens are re-joined with %r, not one grammar whitespace character" % sorted(chars))
    if okall:
        ctx.ok("R03a", inst + "|normaliser", "%s: transformations only behind a failed containment test for %s; splits on %s only" % (path, sorted(delims), sorted(ws)))
    return okall


def run(ctx, F, cg):
    ctx.rule("R03a", "the cache key derives from the query string by identity, or by a normaliser that only collapses the grammar's whitespace and only when the query contains no string-literal or comment delimiter")
    ctx.rule("R03b", "the value stored under the key is the Ok result of parse_query applied to the same query string in the same activation")
    ctx.rule("R03c", "a hit returns a clone of the stored value")
    ctx.rule("R03d", "parse_query reaches no environment, clock, RNG or file access (a cached AST is what a fresh parse would give)")
    rules = grammar.load(REPO)
    ws = grammar.whitespace_chars(rules)
    delims = grammar.delimiter_chars(rules)
    ctx.floor("R03a", "grammar whitespace characters", len(ws), 2)
    ctx.floor("R03a", "string/comment delimiter characters in the grammar", len(delims), 2)
    users = [r for p, r in F.fns.items() if any(x.endswith("QueryEngine.ast_cache") for x in r["r"] + r["w"])]
    ctx.floor("R03a", "functions using QueryEngine.ast_cache", len(users), 2)
    ncache = 0
    for r in sorted(users, key=lambda x: x["path"]):
        b = Body(F.mir(r["path"]), r)
        ctx.saw_fn(r["path"]); ctx.saw_calls(len(b.calls()))
        short = r["path"].replace("samyama::query::", "")
        ops = [c for c in b.calls() if "LruCache" in c.path and c.path.rsplit("::", 1)[-1] in CACHE_OPS]
        parse_calls = b.calls_to(["parser::parse_query"])
        strparams = [i for i in range(1, b.argc + 1) if b.local_ty(i).replace("'_ ", "") in ("&str", "&std::string::String", "std::string::String")]
        for k, c in enumerate(ops):
            ncache += 1
            m = c.path.rsplit("::", 1)[-1]
            inst = "%s|%s|%d" % (short, m, k)
            if len(c.args) < 2:
                continue
            og = b.origins(c.args[1][1][0], through_calls=id_through) if c.args[1][0] != "k" else [("const", c.args[1])]
            calls = [o[1] for o in og if o[0] == "call"]
            args = [o[1] for o in og if o[0] == "arg"]
            bad = [x for x in calls if x.path not in F.fns]
            if bad:
                ctx.violation("R03a", inst + "|key-transformed|" + bad[0].path.rsplit("::", 1)[-1], where(r, bad[0].line),
                              "cache key passes through %s — two different query strings can share one cache entry" % bad[0].path)
                continue
            norm = [x for x in calls if x.path in F.fns]
            okk = True
            # the key is not edited in place between the normaliser and the cache operation
            if c.args[1][0] != "k":
                keyl = od.chain_locals(b, c.args[1])
                mrefs = {pl[0]: line for i, j, pl, rv, line, exp in b.stmts() if rv[0] == "ref" and rv[1] == 1 and rv[2][0] in keyl and not pl[1]}
                edits = [cc for cc in b.calls() if any(a_[0] != "k" and a_[1][0] in mrefs for a_ in cc.args)]
                if edits:
                    okk = False
                    ctx.violation("R03a", inst + "|key-edited-in-place|" + edits[0].path.rsplit("::", 1)[-1], where(r, edits[0].line),
                                  "the cache key is edited in place by %s after it was derived from the query: two different query strings can end up under one key" % ", ".join(sorted({e.path.rsplit("::", 1)[-1] for e in edits})))
            for n in norm:
                # the normaliser must be applied to the query parameter
                aog = b.origins(n.args[0][1][0], through_calls=id_through) if n.args and n.args[0][0] != "k" else []
                if not any(o[0] == "arg" and o[1] in strparams for o in aog):
                    okk = False
                    ctx.violation("R03a", inst + "|key-not-from-query", where(r, n.line), "key function %s is not applied to the query string" % n.path)
                elif not check_normaliser(ctx, F, n.path, ws, delims, inst):
                    okk = False
            if not norm and not any(a in strparams for a in args):
                okk = False
                ctx.violation("R03a", inst + "|key-not-from-query", where(r, c.line), "cache key does not derive from the query string parameter")
            if okk:
                ctx.ok("R03a", inst, "key = %s(query)" % (norm[0].path.rsplit("::", 1)[-1] if norm else "identity"))
            # R03b
            if m in ("put", "push", "get_or_insert"):
                v = c.args[2] if len(c.args) > 2 else None
                vog = b.origins(v[1][0], through_calls=lambda cc: [0] if cc.path.rsplit("::", 1)[-1] in ("clone", "branch") else None) if v and v[0] != "k" else []
                pc = [o[1] for o in vog if o[0] == "call" and name_matches(o[1].path, ["parser::parse_query"])]
                if not pc:
                    ctx.violation("R03b", inst, where(r, c.line), "the cached value does not come from parse_query in this activation")
                else:
                    pa = pc[0].args[0]
                    pog = b.origins(pa[1][0], through_calls=id_through) if pa[0] != "k" else []
                    if any(o[0] == "arg" and o[1] in strparams for o in pog) and not [o for o in pog if o[0] == "call"]:
                        ctx.ok("R03b", inst, "value = parse_query(query)? (Ok branch), parse applied to the unmodified query parameter")
                    else:
                        ctx.violation("R03b", inst, where(r, pc[0].line), "parse_query is not applied to the unmodified query string")
            if m in ("get", "peek", "get_mut"):
                # R03c: find Ok(clone(payload)) returned
                hit = False
                for i, j, pl, rv, line, exp in b.stmts():
                    if pl[0] == 0 and rv[0] == "agg" and (rv[1].endswith("Result::Ok") or rv[1].endswith("Option::Some")) and rv[2] and rv[2][0][0] != "k":
                        og2 = b.origins(rv[2][0][1][0], through_calls=lambda cc: [0] if cc.path.rsplit("::", 1)[-1] in ("clone",) else None)
                        if any(o[0] == "call" and o[1] is c for o in og2) or any(o[0] == "via" for o in og2) and any(o[0] == "call" and o[1].bb == c.bb for o in og2):
                            hit = True
                if hit:
                    ctx.ok("R03c", inst, "hit returns Ok(clone(stored))")
                else:
                    ctx.violation("R03c", inst, where(r, c.line), "the value returned on a hit is not a clone of the stored AST")
    ctx.floor("R03a", "cache operations examined", ncache, 2)
    # ---- R03e: the verified cache is the only place parsed statements are kept / returned from -------------
    ctx.rule("R03e", "QueryEngine keeps parsed statements only in the verified cache, and every AST returned by a caching parse function is a clone of a verified-cache hit or this activation's parse_query result")
    qe = F.adt("query::QueryEngine")
    holders = [f[0] for f in qe["variants"][0]["fields"] if "ast::Query" in f[1]]
    extra = [h for h in holders if h != "ast_cache"]
    if extra:
        for h in extra:
            ctx.violation("R03e", "QueryEngine|extra-ast-store|" + h, "%s:%s" % (qe["file"], qe["line"]),
                          "field `%s` also stores parsed statements; a second cache/fast path needs the same key discipline as ast_cache" % h)
    else:
        ctx.ok("R03e", "QueryEngine|single-ast-store", "only `ast_cache` holds Query values (fields holding ast::Query: %s)" % holders)
    # lookup helpers: functions on the cache that return only clones of what LruCache::get / peek hands out
    cache_readers = set()
    for r in users:
        hb = Body(F.mir(r["path"]), r)
        if "ast::Query" not in hb.local_ty(0) or hb.calls_to(["parser::parse_query"]):
            continue
        payloads = [rv[2][0] for i, j, pl, rv, line, exp in hb.stmts() if pl[0] == 0 and rv[0] == "agg" and (rv[1].endswith("Option::Some") or rv[1].endswith("Result::Ok")) and rv[2] and rv[2][0][0] != "k"]
        okr = bool(payloads)
        for o_ in payloads:
            srcs_ = [x[1] for x in hb.origins(o_[1][0], through_calls=lambda cc: [0] if cc.path.rsplit("::", 1)[-1] in ("clone", "branch", "unwrap", "deref") else None) if x[0] == "call"]
            if not srcs_ or any(not ("LruCache" in c.path and c.path.rsplit("::", 1)[-1] in ("get", "peek", "get_mut")) for c in srcs_):
                okr = False
        if okr:
            cache_readers.add(r["path"])
    for r in sorted(users, key=lambda x: x["path"]):
        b = Body(F.mir(r["path"]), r)
        if "ast::Query" not in b.local_ty(0) or not b.calls_to(["parser::parse_query"]):
            continue
        short = r["path"].replace("samyama::query::", "")
        k = 0
        for i, j, pl, rv, line, exp in b.stmts():
            if pl[0] == 0 and not pl[1] and rv[0] == "agg" and rv[1].endswith("Result::Ok") and rv[2] and rv[2][0][0] != "k":
                og = b.origins(rv[2][0][1][0], through_calls=lambda cc: [0] if cc.path.rsplit("::", 1)[-1] in ("clone", "branch", "unwrap", "deref") else None)
                srcs = [o[1] for o in og if o[0] == "call"]
                bad = [c for c in srcs if not (c.path.endswith("parser::parse_query") or c.path in cache_readers or ("LruCache" in c.path and c.path.rsplit("::", 1)[-1] in ("get", "peek", "get_mut")))]
                good = [c for c in srcs if c not in bad]
                inst = "%s|returned-ast|%d" % (short, k)
                k += 1
                if bad or not good:
                    ctx.violation("R03e", inst, where(r, line), "an AST is returned that comes from %s rather than the verified cache or a fresh parse" % ([c.path for c in bad] or "an unknown source"))
                else:
                    ctx.ok("R03e", inst, "returned AST comes from %s" % sorted({c.path.rsplit("::", 1)[-1] for c in good}))
    # ---- R03d purity -------------------------------------------------------------------------
    pq = F.fn("query::parser::parse_query")
    par = cg.reach([pq["path"]], cha=True)
    ctx.saw_fn(*[p for p in par if p in F.fns])
    imp = [n for n in par if any(n.startswith(x) or ("::" + x) in n for x in IMPURE)]
    if imp:
        for n in sorted(imp)[:5]:
            ctx.violation("R03d", "parse-impure|" + n, where(pq), "parse_query can reach %s via %s" % (n, " -> ".join(cg.path_to(par, n)[-4:])))
    else:
        ctx.ok("R03d", "parse-pure", "no environment/clock/RNG/file callee among %d functions reachable from parse_query" % len(par))
    return ("Decided (jointly sufficient for the property on cached_parse): key identity up to a normaliser proven to act only on the grammar's "
            "whitespace and only in queries without string/comment delimiters (delimiters and whitespace set are read from cypher.pest), the stored "
            "value is parse_query of the same string, hits return its clone, and parsing is pure. Assumes the pest grammar treats runs of its "
            "WHITESPACE between tokens as equivalent to one (implicit whitespace, no whitespace-sensitive atomic rule besides strings).")
