"""C23 — RESP and HTTP run statements like the engine: routing derives from the engine's own
classification of the statement; the read path cannot mutate; the read executor refuses write plans."""
from ..cfg import Body, name_matches
from ..report import where
from .. import orderdom as od
from .c03 import id_through
from .c24 import check_planner_marks_writes

LEVEL = "other"
TEXT_TESTS = ("contains", "starts_with", "ends_with", "find", "rfind", "matches", "eq_ignore_ascii_case", "strip_prefix", "split_whitespace", "to_uppercase", "to_lowercase")
FRONT_ENDS = [
    ("RESP GRAPH.QUERY", "samyama::protocol::command::CommandHandler::handle_graph_query::"),
    ("HTTP /api/query", "samyama::http::handler::query_handler::"),
]


def engine_classifier_verdict(F, path):
    """fn(&self, &str, ..) -> bool returning only `false` or `plan.is_write` of the plan of the parse of that string."""
    r = F.fns.get(path)
    if r is None:
        return False, "%s is not a local function" % path
    b = Body(F.mir(path), r)
    if b.local_ty(0) != "bool":
        return False, "%s does not return bool" % path
    strparams = [i for i in range(1, b.argc + 1) if b.local_ty(i).replace("'_ ", "") in ("&str", "&std::string::String")]
    problems = []
    pq = b.calls_to(["parser::parse_query", "QueryEngine::cached_parse"])
    if not pq:
        return False, "%s never parses the statement" % path
    a = pq[0].args[-1]
    og = b.origins(a[1][0], through_calls=id_through) if a[0] != "k" else []
    if [o for o in og if o[0] == "call"] or not any(o[0] == "arg" and o[1] in strparams for o in og):
        problems.append("the parser is not applied to the unmodified statement text")
    plans = b.calls_to(["QueryPlanner::plan"])
    if not plans:
        problems.append("the parsed statement is never planned")
    for d in b.defs().get(0, []):
        if d[0] != "stmt":
            problems.append("return value produced by %s" % d[2].path)
            continue
        rv = d[4]
        if rv[0] == "use" and rv[1][0] == "k":
            if rv[1][1].strip() != "const false":
                problems.append("returns constant true on some path")
            elif not _on_failure_side(b, d[1], pq + plans):
                problems.append("answers `false` (read) on a path that is not the failure of parsing or planning — a pre-check that guesses from the AST is a second classifier that can disagree with the plan")
            continue
        ok = False
        if rv[0] == "use":
            src = od.base_place(b, rv[1])
            if src and any(x.endswith("ExecutionPlan.is_write") for x in src[1]):
                base_og = b.origins(src[0], through_calls=lambda c: None)
                if plans and any(o[0] == "call" and o[1].bb == plans[0].bb for o in base_og):
                    ok = True
        if not ok:
            problems.append("a returned value is neither `false` nor `plan.is_write` of this statement's plan")
    return (not problems), "; ".join(problems) if problems else "returns only false or plan(parse(stmt)).is_write"


def _on_failure_side(b, block, calls):
    """the block is dominated by the Err side of a switch on the Result of one of `calls`"""
    for c in calls:
        derived = b.forward_taint({c.dest[0]}, through_calls=lambda cc, ix: cc.path.rsplit("::", 1)[-1] in ("branch", "as_ref", "map_err"))
        for i in sorted(b.live_blocks()):
            t = b.blocks[i]["t"]
            if t[0] != "switch" or t[1][0] == "k":
                continue
            ds = b.defs().get(t[1][1][0], [])
            if len(ds) == 1 and ds[0][0] == "stmt" and ds[0][4][0] == "discr" and ds[0][4][1][0] in derived and b.local_ty(ds[0][4][1][0]).startswith("std::result::Result<"):
                one = [tgt for v, tgt in t[2] if v == "1"]
                err_t = one[0] if one else t[3]
                if b.dominates(err_t, block) and len(b.pred(err_t)) == 1:
                    return True
    return False


def run(ctx, F, cg):
    ctx.rule("R23a", "in each front end the branch choosing execute_mut vs execute is decided by an engine classifier (plan(parse(stmt)).is_write) applied to the statement that is then executed, not by substring tests on the text")
    ctx.rule("R23b", "no mutator of the interior-mutable index managers is reachable (CHA over dyn PhysicalOperator::next/next_batch) from the read executor")
    ctx.rule("R23c", "QueryExecutor::execute returns an error for plan.is_write before any operator is pulled")
    ctx.rule("R23d", "the classification itself is right: every plan whose root is built from an operator that can reach a store / index mutator carries is_write = true (path-linked, per ExecutionPlan literal)")
    check_planner_marks_writes(ctx, F, cg, "R23d")
    for name, prefix in FRONT_ENDS:
        cs = [r for p, r in F.fns.items() if p.startswith(prefix) and r["coroutine"]]
        if len(cs) != 1:
            ctx.anchor_failure("R23a", "%s coroutine body (%s) found %d" % (name, prefix, len(cs)))
            continue
        r = cs[0]
        b = Body(F.mir(r["path"]), r)
        ctx.saw_fn(r["path"]); ctx.saw_calls(len(b.calls()))
        wr = b.calls_to(["QueryEngine::execute_mut"])
        rd = b.calls_to(["QueryEngine::execute"])
        if not wr or not rd:
            ctx.violation("R23a", "%s|both-paths" % name, where(r), "%s does not call both QueryEngine::execute and execute_mut (write calls %d, read calls %d)" % (name, len(wr), len(rd)))
            continue
        # deciding switch: dominates both, separates them
        dec = None
        for i in sorted(b.live_blocks(), reverse=True):
            t = b.blocks[i]["t"]
            if t[0] != "switch" or not b.dominates(i, wr[0].bb) or not b.dominates(i, rd[0].bb):
                continue
            succs = b.succ(i)
            w_side = [s for s in succs if wr[0].bb in b.reachable(s, avoid={i})]
            r_side = [s for s in succs if rd[0].bb in b.reachable(s, avoid={i})]
            if w_side and r_side and not (set(w_side) & set(r_side)):
                dec = (i, t)
                break
        if dec is None:
            ctx.violation("R23a", "%s|no-decision" % name, where(r), "cannot find the branch that separates execute_mut from execute")
            continue
        i, t = dec
        dl = t[1][1][0] if t[1][0] != "k" else None
        og = b.origins(dl, through_calls=lambda c: [0] if (c.expname == "Await") else None) if dl is not None else []
        calls = [o[1] for o in og if o[0] == "call"]
        text = [c for c in calls if c.path.rsplit("::", 1)[-1] in TEXT_TESTS]
        local = [c for c in calls if c.path in F.fns]
        if text:
            ctx.violation("R23a", "%s|routes-by-text" % name, where(r, text[0].line),
                          "%s chooses the write path from %s over the query text (e.g. `MATCH (n) REMOVE n.x`, a newline before SET, or ' CREATE ' inside a string literal are misrouted)" % (name, ", ".join(sorted({c.path.rsplit('::', 1)[-1] for c in text}))))
            continue
        if not local:
            ctx.violation("R23a", "%s|routing-not-from-engine" % name, where(r, b.blocks[i]["l"]), "the routing decision does not come from an engine classifier")
            continue
        k = local[0]
        # the decision is the classifier's answer on every path: no constant, no second source
        others = [o for o in og if o[0] in ("const", "arg", "other", "bin", "agg") or (o[0] == "call" and o[1].bb != k.bb)]
        if others:
            o = others[0]
            what = "a constant" if o[0] == "const" else ("%s" % o[1].path if o[0] == "call" else o[0])
            ctx.violation("R23a", "%s|decision-bypasses-classifier" % name, where(r, k.line),
                          "%s takes the routing decision from %s on some path instead of asking the engine classifier (a statement routed by that shortcut is not run the way the engine runs it)" % (name, what))
            continue
        ok, why = engine_classifier_verdict(F, k.path)
        ctx.saw_fn(k.path)
        # classifier applied to the same string as both executions
        kstr = set()
        for a in k.args:
            if a[0] != "k":
                kstr |= od.chain_locals(b, a)
        same = True
        for ex in (wr[0], rd[0]):
            exs = set()
            for a in ex.args[1:2]:
                if a[0] != "k":
                    exs |= od.chain_locals(b, a)
            if not (exs & kstr):
                same = False
        if not ok:
            ctx.violation("R23a", "%s|classifier" % name, where(F.fns[k.path]), "routing classifier %s rejected: %s" % (k.path, why))
        elif not same:
            ctx.violation("R23a", "%s|classifier-other-string" % name, where(r, k.line), "the classifier is not applied to the statement that is executed")
        else:
            ctx.ok("R23a", name, "routes on %s(stmt): %s" % (k.path.rsplit("::", 1)[-1], why))
    # ---- R23c -----------------------------------------------------------------------------------------
    qe = [r for p, r in F.fns.items() if p == "samyama::query::executor::QueryExecutor::<'a>::execute" or (p.endswith("::execute") and r.get("self", "") and r["self"].startswith("samyama::query::executor::QueryExecutor") and not r.get("trait"))]
    if len(qe) != 1:
        ctx.anchor_failure("R23c", "QueryExecutor::execute (found %d)" % len(qe))
    else:
        r = qe[0]
        b = Body(F.mir(r["path"]), r)
        ctx.saw_fn(r["path"]); ctx.saw_calls(len(b.calls()))
        pulls = [c for c in b.calls() if c.path.rsplit("::", 1)[-1] in ("execute_plan", "execute_plan_profiled", "next", "next_batch", "execute_profiled") and "Iterator" not in c.path]
        sw = None
        for i in sorted(b.live_blocks()):
            t = b.blocks[i]["t"]
            if t[0] == "switch" and t[1][0] != "k":
                src = od.base_place(b, t[1])
                if src and any(x.endswith("ExecutionPlan.is_write") for x in src[1]):
                    sw = (i, t)
        if sw is None:
            ctx.violation("R23c", "no-is_write-test", where(r), "QueryExecutor::execute never tests plan.is_write")
        else:
            i, t = sw
            false_t = [tgt for v, tgt in t[2] if v == "0"]
            true_t = t[3]
            true_reach = b.reachable(true_t, avoid={i})
            bad = [c for c in pulls if c.bb in true_reach and (not false_t or c.bb not in b.reachable(false_t[0], avoid={i}))]
            not_dom = [c for c in pulls if not b.dominates(i, c.bb)]
            errs = [1 for bb in true_reach for s in b.blocks[bb]["s"] if s[1][0] == "agg" and s[1][1].endswith("Result::Err")]
            if bad or not errs:
                ctx.violation("R23c", "write-plan-executed", where(r, b.blocks[i]["l"]), "a plan with is_write=true can be executed by the read executor")
            elif not_dom:
                ctx.violation("R23c", "pull-before-check", where(r, not_dom[0].line), "%s runs before the is_write test" % not_dom[0].path)
            else:
                ctx.ok("R23c", "read-executor-refuses-writes", "is_write test dominates %d plan executions; true side returns Err" % len(pulls))
        ctx.floor("R23c", "plan executions in QueryExecutor::execute", len(pulls), 1)
    # ---- R23b -----------------------------------------------------------------------------------------
    mutators = []
    for p, r in F.fns.items():
        if r.get("self") and r["self"].rsplit("::", 1)[-1] in ("IndexManager", "VectorIndexManager", "HierarchyIndexManager", "HierarchyIndexManager<'a>") and not r.get("trait"):
            if any(c.endswith("RwLock::<T>::write") or c.endswith("RwLock<T>::write") or "RwLock" in c and c.endswith("::write") for c in r["calls"]):
                mutators.append(p)
    ctx.floor("R23b", "index-manager methods taking a write lock", len(mutators), 5)
    if len(qe) == 1:
        roots = [qe[0]["path"]]
        par = cg.reach(roots, cha=True)
        hits = [m for m in mutators if m in par]
        # lazily-populated caches are not graph mutations: keep only those writing index content
        if hits:
            for m in sorted(hits):
                ctx.violation("R23b", "read-path-reaches|" + m.replace("samyama::", ""), where(F.fns[m]),
                              "the read executor can reach the index mutator %s: %s" % (m, " -> ".join(x.replace("samyama::query::executor::", "") for x in cg.path_to(par, m)[-5:])))
        else:
            ctx.ok("R23b", "read-path-pure", "none of %d index-manager mutators reachable from QueryExecutor::execute over %d functions (CHA)" % (len(mutators), len(par)))
        ctx.saw_fn(*[p for p in par if p in F.fns][:50])
    return ("Decided: both front ends choose the write or read engine entry from plan(parse(stmt)).is_write computed by the engine on the very string they "
            "execute (no keyword heuristics), the read executor refuses write plans before pulling any operator, and — because QueryExecutor holds "
            "&GraphStore — the only remaining mutation channel, the interior-mutable index managers, is unreachable from it. "
            "Not decided: equality of rows / JSON rendering between front ends.")
