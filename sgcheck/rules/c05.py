"""C05 — a failing write statement changes nothing: compensation on the error exits of every
write driver (functions that pull a write plan), plus no swallowed store errors (shared R04b)."""
from ..cfg import Body
from ..report import where
from ..facts import in_module
from .c11 import dropped_results
from . import c04
from .. import storerules as sr

LEVEL = "other"
COMPENSATE = ("rollback", "restore", "undo", "abort", "revert", "clone_from", "swap", "replace", "restore_from", "apply_undo", "rollback_to", "abort_transaction")


def run(ctx, F, cg):
    ctx.rule("R05", "write operators mutate the store row by row, so a function that pulls a write plan (calls next_batch_mut / next_mut on the plan root from outside the operator tree) must, on every error exit after the first pull, pass a compensating write to the store (restore a copy, replay an undo log, abort a store transaction) before returning")
    ctx.rule("R04b", "(shared with C04) no store error is swallowed by a write operator: a swallowed failure is one the statement does not even report")
    ctx.rule("R05c", "each fallible store mutator validates before it mutates: no error exit is reachable from a mutation point (field write, mutating call, index-manager write) of the same call — otherwise a single failing SET / CREATE already leaves a half-applied store, whatever the statement driver does")
    ctx.rule("R05d", "the WITH barrier drains its input before emitting: after a pulled row the only continuations are another pull or an error, so an upstream failure cannot follow downstream writes")
    sr.validate_then_mutate(ctx, F, cg, "R05c")
    sr.barrier_drains(ctx, F, cg, "R05d")
    ctx.rule("R05e", "a schema statement is all or nothing: the operator of CREATE / DROP INDEX, CREATE CONSTRAINT, vector / composite / hierarchy index validates before it registers anything — no error exit is reachable from a store-mutating call of its next_mut (a manager method that can only fail before it takes its write lock counts on its Ok side only)")
    sr.ddl_operators_all_or_nothing(ctx, F, cg, "R05e")
    ctx.rule("R05f", "a failing row leaves no half-built node: in a write operator, every error exit reachable from a create_node* call (before the next row is pulled) passes delete_node; violations are keyed by the call whose failure escapes")
    sr.no_half_built_node(ctx, F, cg, "R05f")
    drivers = []
    for p, r in sorted(F.fns.items()):
        if not in_module(p, "samyama::query::"):
            continue
        if r.get("trait") and r["trait"].endswith("PhysicalOperator"):
            continue        # operators pulling their children
        if in_module(p, "samyama::query::executor::operator") or in_module(p, "samyama::query::executor::hierarchy_ops") or in_module(p, "samyama::query::executor::leapfrog"):
            continue
        if any(c in ("?samyama::query::executor::operator::PhysicalOperator::next_batch_mut", "?samyama::query::executor::operator::PhysicalOperator::next_mut") for c in r["calls"]):
            drivers.append(r)
    ctx.floor("R05", "write drivers (functions pulling a write plan)", len(drivers), 1)
    for r in drivers:
        b = Body(F.mir(r["path"]), r)
        ctx.saw_fn(r["path"]); ctx.saw_calls(len(b.calls()))
        short = r["path"].replace("samyama::query::executor::", "")
        pulls = [c for c in b.calls() if c.path.endswith("PhysicalOperator::next_batch_mut") or c.path.endswith("PhysicalOperator::next_mut")]
        comp = {c.bb for c in b.calls() if c.path.rsplit("::", 1)[-1] in COMPENSATE}
        # error exits: from_residual calls fed by a pull result, or Err aggregates reachable after a pull
        exits = []
        for c in b.calls():
            if c.path.endswith("from_residual") and any(c.bb in b.reachable(pl.bb) for pl in pulls):
                exits.append(c)
        bad = [e for e in exits if not any(b.must_pass(pl.target, e.bb, comp) for pl in pulls if pl.target is not None)]
        if not exits:
            ctx.ok("R05", short + "|no-error-exit", "no error exit after a pull")
        elif bad:
            ctx.violation("R05", short + "|no-compensation", where(r, bad[0].line),
                          "an error raised while pulling the write plan is returned at once: the rows already applied (created nodes, set properties, deleted relationships) stay in the store, contrary to docs/ACID_GUARANTEES.md")
        else:
            ctx.ok("R05", short, "every error exit after a pull passes a compensating store write")
    # shared R04b
    dropped, total = dropped_results(F, c04.ERR_FNS, module_prefix="samyama::query::executor::")
    n = 0
    for p, r, c, m, k in dropped:
        if c04.reviewed_drop(F, p, r, c, m):
            continue
        n += 1
        short = p.replace("samyama::query::executor::operator::", "").replace("samyama::query::executor::", "")
        ctx.violation("R04b", "%s|%s|%d" % (short, m, k), where(r, c.line), "the Result of GraphStore::%s is discarded" % m)
    if n == 0:
        ctx.ok("R04b", "no-dropped-store-results", "%d call sites examined" % total)
    return ("Decided: whether any function that drives a write plan compensates on its error exits (necessary for statement atomicity whatever form the rollback takes) — "
            "today it does not (known finding) — that no write operator swallows a store failure, that every fallible store mutator validates before it mutates, and that the WITH barrier drains before emitting. Not decided: completeness of a compensation once present.")
