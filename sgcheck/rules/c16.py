"""C16 — recovery returns the acknowledged persisted state: log-before-storage, every
acknowledged entry kind has a storage effect (recovery reads storage, never the log)."""
from ..cfg import Body
from ..report import where
from ..facts import in_module as in_module_
from .. import orderdom as od

LEVEL = "other"
PM = "samyama::persistence::PersistenceManager::"
STORAGE_WRITES = ("put_node", "put_edge", "delete_node", "delete_edge")
STORAGE_READS = ("get_node", "get_edge")


def pm_functions(F):
    return {p: r for p, r in F.fns.items() if p.startswith(PM) and "{closure" not in p}


def run(ctx, F, cg):
    ctx.rule("R16a", "in every PersistenceManager function the WAL append dominates every storage write (log before data)")
    ctx.rule("R16b", "for every data-bearing WalEntry variant, every path from its append to Ok(()) passes a storage write, or the not-found branch of a storage read of that entity — unless recovery replays that variant from the log")
    ctx.rule("R16c", "recover() reads nodes and edges through scans of the tenant it was asked for")
    fns = pm_functions(F)
    ctx.floor("R16", "PersistenceManager functions", len(fns), 10)
    # does recovery replay the WAL?
    rec = F.fn(PM + "recover")
    par = cg.reach([rec["path"]])
    replays = any(p.endswith("Wal::replay") for p in par)
    ctx.note("recover() reaches Wal::replay: %s" % replays)
    variants_seen = {}
    from ..wrappers import thin_wrappers
    APPENDW = thin_wrappers(F, lambda c_: c_.endswith("wal::Wal::append"), "samyama::persistence::PersistenceManager::")
    for p, r in sorted(fns.items()):
        b = Body(F.mir(p), r)
        appends = [c for c in b.calls() if c.path.endswith("wal::Wal::append") or (c.path in APPENDW and c.path != p)]
        if not appends:
            continue
        ctx.saw_fn(p); ctx.saw_calls(len(b.calls()))
        short = p.replace(PM, "")
        sw = [c for c in b.calls() if c.path.rsplit("::", 1)[-1] in STORAGE_WRITES and "PersistentStorage" in c.path]
        sr = [c for c in b.calls() if c.path.rsplit("::", 1)[-1] in STORAGE_READS and "PersistentStorage" in c.path]
        # R16a
        bad = [c for c in sw if not any(b.dominates(a.bb, c.bb) for a in appends)]
        if bad:
            ctx.violation("R16a", short + "|storage-before-log", where(r, bad[0].line), "%s can run before the WAL append" % bad[0].path)
        elif sw:
            ctx.ok("R16a", short, "append dominates %d storage write(s)" % len(sw))
        # R16b
        for a in appends:
            vs = []
            if a.args and len(a.args) > 1 and a.args[1][0] != "k":
                for o in b.origins(a.args[1][1][0]):
                    if o[0] == "agg" and "WalEntry::" in o[1]:
                        vs.append(o[1].rsplit("::", 1)[-1])
            for v in vs:
                if v == "Checkpoint":
                    continue
                variants_seen.setdefault(v, []).append(short)
                inst = "%s|%s" % (short, v)
                if replays:
                    ctx.ok("R16b", inst, "recovery replays the log")
                    continue
                oks = [i for i, j, pl, rv, line, exp in b.stmts() if pl[0] == 0 and not pl[1] and rv[0] == "agg" and rv[1].endswith("Result::Ok")]
                through = {c.bb for c in sw}
                # not-found branch of a storage read
                for c in sr:
                    for bb in b.reachable(c.bb):
                        t = b.blocks[bb]["t"]
                        if t[0] == "switch" and t[1][0] != "k":
                            ds = b.defs().get(t[1][1][0], [])
                            if ds and ds[0][0] == "stmt" and ds[0][4][0] == "discr":
                                src = ds[0][4][1]
                                og = b.origins(src[0], through_calls=lambda cc: [0] if cc.path.endswith("Try>::branch") else None)
                                if b.local_ty(src[0]).startswith("std::option::Option<") and not src[1] and any(o[0] == "call" and o[1].bb == c.bb for o in og):
                                    for val, tgt in t[2]:
                                        if val == "0":
                                            through.add(tgt)
                                    if not any(val == "0" for val, tgt in t[2]):
                                        through.add(t[3])
                start = a.target
                missing = [o for o in oks if not b.must_pass(start, o, through)]
                if not oks:
                    ctx.ok("R16b", inst, "no Ok(()) constructed here (result of a helper is returned)")
                elif missing:
                    ctx.violation("R16b", inst, where(r, a.line), "%s is acknowledged (Ok) after only the log append: recovery reads storage and never replays the log, so the %s is lost on restart" % (v, v))
                else:
                    ctx.ok("R16b", inst, "every path append -> Ok passes %s" % ("/".join(sorted({c.path.rsplit('::', 1)[-1] for c in sw})) or "a storage write"))
    ctx.floor("R16b", "data-bearing WalEntry variants appended by PersistenceManager", len(variants_seen), 6)
    # ---- R16e: nothing is acknowledged without having been logged ---------------------------------------------
    ctx.rule("R16e", "a PersistenceManager function that logs acknowledges only what it logged: every path from its entry to a constructed Ok(..) passes the WAL append (an early `return Ok(())` — e.g. 'already stored, nothing to do' decided on part of the record — acknowledges a change that reaches neither the log nor storage)")
    n16e = 0
    verified = set()
    pending = dict(fns)
    for rnd in range(3):
        progressed = False
        for p, r in sorted(pending.items()):
            b = Body(F.mir(p), r)
            direct = [c for c in b.calls() if c.path.endswith("wal::Wal::append")]
            via = [c for c in b.calls() if c.path in verified]
            if not direct and not via:
                continue
            if rnd == 0 and not direct:
                continue        # helpers with a direct append first, their callers in later rounds
            del pending[p]
            progressed = True
            n16e += 1
            short = p.replace(PM, "")
            oks = [(i, line) for i, j, pl, rv, line, exp in b.stmts() if pl[0] == 0 and not pl[1] and rv[0] == "agg" and rv[1].endswith("Result::Ok")]
            through = {c.bb for c in direct} | {c.bb for c in via}
            early = [(i, line) for i, line in oks if not b.must_pass(0, i, through)]
            if not early and not b.success_passes(0, through):
                # the success return is not an `Ok(..)` literal (a variable or a tail call): same obligation
                early = [(0, r.get("line", 0))]
            if early:
                ctx.violation("R16e", short + "|acknowledged-without-log", where(r, early[0][1]), "%s can return Ok without having appended to the WAL (line %d): the caller acknowledges a write that was neither logged nor stored" % (short, early[0][1]))
            else:
                verified.add(p)
                ctx.ok("R16e", short, "every constructed Ok is behind %s (%d)" % ("the append" if direct else "a call of an appending helper", len(oks)))
        if not progressed:
            break
    # public persist_* entry points that neither append nor call an appending helper
    for p, r in sorted(pending.items()):
        short = p.replace(PM, "")
        if short.startswith("persist_") and r.get("vis") == "pub":
            ctx.violation("R16e", short + "|never-logs", where(r), "%s neither appends to the WAL nor calls a function that does" % short)
    ctx.floor("R16e", "PersistenceManager functions that append", n16e, 6)
    # ---- R16f: storage writes keep RocksDB's own durability ---------------------------------------------------------
    ctx.rule("R16f", "recovery reads RocksDB and never replays the application log, so an acknowledged write must be as durable as RocksDB makes it: no write option in the persistence module disables RocksDB's WAL (disable_wal) — with it off, writes since the last memtable flush are lost by a kill although they were acknowledged")
    offenders = []
    n_w = 0
    for p_, r_ in sorted(F.fns.items()):
        if not in_module_(p_, "samyama::persistence::") or "::tests::" in p_:
            continue
        for c_ in r_["calls"]:
            if c_.rsplit("::", 1)[-1] in ("put_cf", "put_cf_opt", "delete_cf", "delete_cf_opt", "write", "write_opt", "put", "put_opt", "delete", "delete_opt") and "rocksdb" in c_:
                n_w += 1
            if c_.rsplit("::", 1)[-1] == "disable_wal" and "rocksdb" in c_:
                offenders.append((p_, r_))
    ctx.floor("R16f", "RocksDB write calls in the persistence module", n_w, 4)
    if offenders:
        for p_, r_ in offenders:
            ctx.violation("R16f", "%s|rocksdb-wal-disabled" % p_.replace("samyama::persistence::", ""), where(r_), "%s builds write options with RocksDB's WAL disabled: entity writes made with them are in the memtable only until the next flush, while recover() relies on RocksDB alone" % p_.rsplit("::", 1)[-1])
    else:
        ctx.ok("R16f", "rocksdb-wal-on", "no disable_wal in the persistence module (%d RocksDB write calls)" % n_w)
    # ---- R16d: an update is a read-modify-write that merges ---------------------------------------------------
    ctx.rule("R16d", "a property update writes back the entity it read from storage, and changes its property map only by merging (insert/extend): a wholesale assignment of the map from the argument drops the properties the update did not mention")
    nupd = 0
    for p, r in sorted(fns.items()):
        short = p.replace(PM, "")
        if "update" not in short:
            continue
        b = Body(F.mir(p), r)
        puts = [c for c in b.calls() if c.path.rsplit("::", 1)[-1] in ("put_node", "put_edge") and "PersistentStorage" in c.path]
        gets = [c for c in b.calls() if c.path.rsplit("::", 1)[-1] in STORAGE_READS and "PersistentStorage" in c.path]
        if not puts:
            continue
        nupd += 1
        okd = True
        for pc in puts:
            ent = pc.args[-1]
            og = b.origins(ent[1][0], through_calls=lambda cc: [0] if cc.path.endswith("Try>::branch") else None) if ent[0] != "k" else []
            if not any(o[0] == "call" and o[1] in gets for o in og):
                okd = False
                ctx.violation("R16d", short + "|not-read-modify-write", where(r, pc.line), "the entity written back does not come from a storage read of that entity: labels/endpoints/other properties are not preserved")
        for i, j, pl, rv, line, exp in b.stmts():
            fl = [x for x in pl[1] if x.startswith("f:") and (x.endswith("node::Node.properties") or x.endswith("edge::Edge.properties"))]
            if fl and pl[1][-1] == fl[-1]:
                # direct assignment to the whole map: the new value must derive from the old map
                srcs = []
                if rv[0] == "use" and rv[1][0] != "k":
                    srcs = b.origins(rv[1][1][0])
                keeps_old = any(o[0] == "call" and o[1].args and o[1].args[0][0] != "k" and any(f.endswith(".properties") and ("node::Node" in f or "edge::Edge" in f) for f in od.chain_fields(b, o[1].args[0])) for o in srcs)
                if not keeps_old:
                    okd = False
                    ctx.violation("R16d", short + "|properties-replaced", where(r, line), "the stored entity's property map is replaced wholesale: properties not named by this update are lost on recovery")
                else:
                    # the new map is computed from the old one by a call: a local merge helper must give the update precedence
                    for o in srcs:
                        if o[0] != "call" or o[1].path not in F.fns:
                            continue
                        hc = o[1]
                        old_ix = [k for k, a in enumerate(hc.args) if a[0] != "k" and any(f.endswith(".properties") for f in od.chain_fields(b, a))]
                        verdict = _merge_precedence(F, hc.path, set(old_ix))
                        if verdict is not True:
                            okd = False
                            ctx.violation("R16d", short + "|merge-precedence", where(r, line),
                                          "the stored map is rebuilt by %s, %s: on a key the entity already has, the acknowledged new value is lost on recovery" % (hc.path.rsplit("::", 1)[-1], verdict))
        if okd:
            ctx.ok("R16d", short, "writes back the entity it read; properties merged (no wholesale assignment)")
    ctx.floor("R16d", "update functions with a storage write", nupd, 2)
    # ---- R16c -----------------------------------------------------------------------------------------
    b = Body(F.mir(rec["path"]), rec)
    ctx.saw_fn(rec["path"])
    tparam = [i for i in range(1, b.argc + 1) if b.local_ty(i).replace("'_ ", "") == "&str"]
    for nm in ("scan_nodes", "scan_edges"):
        cs = [c for c in b.calls() if c.path.endswith("PersistentStorage::" + nm)]
        if not cs:
            ctx.violation("R16c", "recover|" + nm, where(rec), "recover() does not read %s" % nm)
            continue
        a = cs[0].args[1]
        if a[0] != "k" and (od.chain_locals(b, a) & set(tparam)):
            ctx.ok("R16c", "recover|" + nm, "scans the requested tenant")
        else:
            ctx.violation("R16c", "recover|" + nm, where(rec, cs[0].line), "%s is not called with recover()'s tenant" % nm)
    return ("Decided: log-before-data order in every persist function; every acknowledged entry kind reaches storage (or finds nothing to update) on "
            "every path to Ok, which is necessary because recover() is scans of storage and does not replay the log; recover scans its own tenant. "
            "Not decided: atomicity of the in-flight operation inside RocksDB, equality of recovered values.")


def _merge_precedence(F, helper, old_params):
    """True when the helper lets the update win on a key collision; otherwise a reason.
    Accepted forms: extend / insert of update entries into a clone of the stored map; collect of
    stored.iter().chain(update.iter()) (a later entry replaces an earlier one)."""
    r = F.fns.get(helper)
    m = F.mir(helper)
    if not r or not m:
        return "whose body is not available"
    hb = Body(m, r)
    oldp = {i + 1 for i in old_params}

    def from_params(op):
        if op[0] == "k":
            return set()
        og = hb.origins(op[1][0], through_calls=lambda c: list(range(len(c.args))))
        return {x[1] for x in og if x[0] == "arg"}
    chains = [c for c in hb.calls() if c.path.rsplit("::", 1)[-1] == "chain"]
    for c in chains:
        if len(c.args) >= 2:
            first, second = from_params(c.args[0]), from_params(c.args[1])
            if first and second:
                if first <= oldp and not (second & oldp):
                    return True
                if second <= oldp and not (first & oldp):
                    return "which chains the update BEFORE the stored entries, so the stored value replaces the new one when collected"
    for c in hb.calls():
        nm = c.path.rsplit("::", 1)[-1]
        if nm in ("extend", "insert") and c.args and c.args[0][0] != "k":
            recv = from_params(c.args[0])
            rest = set()
            for a in c.args[1:]:
                rest |= from_params(a)
            if recv and rest:
                if recv <= oldp and not (rest & oldp):
                    return True
                if (rest & oldp) and not (recv & oldp):
                    return "which writes the stored entries over the update (%s of the stored map into the new one)" % nm
    return "a merge form the rule does not recognise (accepted: insert/extend of the update into the stored map, or stored.chain(update).collect())"
