"""C09 — first-committer-wins with increasing versions: path obligations on commit/abort, conflict
predicate class, read version per isolation level."""
from ..cfg import Body, place_fields
from ..report import where
from .. import orderdom as od
from .. import storemodel as sm

LEVEL = "other"


def status_writes(b, variant):
    out = []
    for i, j, pl, rv, line, exp in b.stmts():
        if any(p.endswith("Transaction.status") for p in place_fields(pl)):
            txt = str(rv)
            if rv[0] == "use":
                txt += " " + b.operand_text(rv[1])
            if ("TxnStatus::" + variant) in txt:
                out.append(i)
    return out


def field_blocks(b, field, write=None):
    """blocks where GraphStore.<field> is read (ref/use) or written"""
    out = set()
    for i, j, pl, rv, line, exp in b.stmts():
        if any(p.endswith("GraphStore." + field) for p in place_fields(pl)):
            out.add((i, "w"))
        ops = []
        if rv[0] == "ref":
            if any(p.endswith("GraphStore." + field) for p in place_fields(rv[2])):
                out.add((i, "w" if rv[1] else "r"))
        for o in (rv[1:2] if rv[0] == "use" else rv[2:4] if rv[0] == "bin" else []):
            if o[0] != "k" and any(p.endswith("GraphStore." + field) for p in place_fields(o[1])):
                out.add((i, "r"))
    return out


def run(ctx, F, cg):
    ctx.rule("R09a", "commit_transaction: the status == Active test dominates every Ok; a non-active transaction gets Err")
    ctx.rule("R09b", "both write sets are checked against their last-commit map before the version bump, with the predicate `committed_at > start_version` ([F,F,T] over {s-1,s,s+1}) for nodes and for edges alike")
    ctx.rule("R09c", "current_version is incremented on every path to Ok and the returned version derives from it")
    ctx.rule("R09d", "both last-commit maps are written after the bump; conflict exits set Aborted before returning; success sets Committed")
    ctx.rule("R09e", "abort_transaction: Active test dominates Ok; sets Aborted")
    ctx.rule("R09f", "get_node_for_txn and get_edge_for_txn read at current_version under ReadCommitted and at start_version under SnapshotIsolation")
    ct = sm.fn_of(F, "commit_transaction")
    b = Body(F.mir(ct["path"]), ct)
    ctx.saw_fn(ct["path"]); ctx.saw_calls(len(b.calls()))
    oks = [i for i, j, pl, rv, line, exp in b.stmts() if pl[0] == 0 and not pl[1] and rv[0] == "agg" and rv[1].endswith("Result::Ok")]
    # R09a
    act = [c for c in b.calls() if c.path.rsplit("::", 1)[-1] in ("ne", "eq") and "TxnStatus" in c.full and "Active" in " ".join(b.operand_text(a) for a in c.args)]
    if act and oks and all(b.dominates(act[0].bb, o) for o in oks):
        c = act[0]
        t = b.blocks[c.target]["t"]
        # the side on which status != Active must not reach Ok
        neq = c.path.rsplit("::", 1)[-1] == "ne"
        false_t = [tgt for v, tgt in t[2] if v == "0"]
        not_active_side = t[3] if neq else (false_t[0] if false_t else None)
        if not_active_side is not None and not any(o in b.reachable(not_active_side, avoid={c.target}) for o in oks):
            ctx.ok("R09a", "commit|active-test", "status test dominates Ok; the not-active side cannot reach Ok")
        else:
            ctx.violation("R09a", "commit|active-test", where(ct, c.line), "a transaction that is not Active can still reach the commit")
    else:
        ctx.violation("R09a", "commit|active-test", where(ct), "no status == Active test dominating the commit")
    # R09c bump
    bumps = [i for i, j, pl, rv, line, exp in b.stmts() if any(p.endswith("GraphStore.current_version") for p in place_fields(pl))]
    if not bumps:
        ctx.violation("R09c", "commit|no-version-bump", where(ct), "current_version is never written")
        return "no bump"
    bump = bumps[0]
    inc_ok = False
    for i, j, pl, rv, line, exp in b.stmts():
        if i == bump and any(p.endswith("GraphStore.current_version") for p in place_fields(pl)):
            e = od.expr_of(b, rv[1]) if rv[0] == "use" else None
            if e and e[0] == "arith" and e[1] == "+" and od.roots(e):
                try:
                    inc_ok = od.evaluate(e, {r_: 5 for r_ in od.roots(e)}) > 5
                except Exception:
                    inc_ok = False
    allpass = all(b.must_pass(0, o, {bump}) for o in oks)
    ret_ok = False
    for i, j, pl, rv, line, exp in b.stmts():
        if i in oks and pl[0] == 0 and rv[0] == "agg" and rv[2]:
            fl = od.chain_fields(b, rv[2][0])
            ret_ok = any(x.endswith("GraphStore.current_version") for x in fl)
    if inc_ok and allpass and ret_ok:
        ctx.ok("R09c", "commit|version-bump", "current_version += positive constant on every path to Ok; Ok carries it")
    else:
        ctx.violation("R09c", "commit|version-bump", where(ct), "version discipline broken: strictly increasing=%s, on every Ok path=%s, returned=%s" % (inc_ok, allpass, ret_ok))
    # R09b conflict checks
    after = b.reachable(bump)
    for kind in ("node", "edge"):
        fld = kind + "_last_commit"
        rb = {i for (i, m) in field_blocks(b, fld) if i not in after or i == bump}
        gets = [c for c in b.calls() if c.path.rsplit("::", 1)[-1] == "get" and any(x.endswith("GraphStore." + fld) for x in od.chain_fields(b, c.args[0])) and c.bb not in after]
        inst = "commit|conflict-check|" + kind
        if not gets:
            ctx.violation("R09b", inst, where(ct), "the %s write set is never checked against %s before the version bump: a transaction that wrote a %s another transaction committed after it began still commits" % (kind, fld, kind))
            continue
        # find the comparison on the looked-up value
        good = False
        desc = ""
        for i, j, pl, rv, line, exp in b.stmts():
            if rv[0] == "bin" and rv[1] in od.CMP and i not in after:
                e = ("cmp", od.CMP[rv[1]], od.expr_of(b, rv[2]), od.expr_of(b, rv[3]))
                rs = od.roots(e)
                # one root from the get result, one from txn.start_version
                gl = [x for x in rs if any(g.dest[0] in _locals_of(b, rv[2:4]) or True for g in gets)]
                txt = str(e)
                if "start_version" in txt or any("start_version" in f for o in rv[2:4] if o[0] != "k" for f in od.chain_fields(b, o)):
                    # identify which operand is start_version
                    sv = None
                    for o in rv[2:4]:
                        if o[0] != "k" and any(f.endswith("Transaction.start_version") for f in od.chain_fields(b, o)):
                            sv = od.expr_of(b, o)
                    other = [od.expr_of(b, o) for o in rv[2:4] if od.expr_of(b, o) != sv]
                    if sv is None or not other:
                        continue
                    # the other operand must derive from this kind's map lookup
                    og = b.origins(_first_local(rv[2:4], b, sv)) if _first_local(rv[2:4], b, sv) is not None else []
                    if not any(o[0] == "call" and o[1] in gets for o in og):
                        continue
                    S = 10
                    tab = []
                    for cv in (S - 1, S, S + 1):
                        env = {}
                        for r_ in od.roots(e):
                            env[r_] = S if r_ in od.roots(sv) else cv
                        tab.append(bool(od.evaluate(e, env)))
                    desc = od.show(e)
                    if tab == [False, False, True]:
                        good = True
        if good:
            ctx.ok("R09b", inst, "conflict iff committed_at > start_version (%s)" % desc)
        else:
            ctx.violation("R09b", inst, where(ct), "no `committed_at > start_version` test on the %s last-commit lookup (%s)" % (kind, desc or "no comparison found"))
    # R09d
    for kind in ("node", "edge"):
        fld = kind + "_last_commit"
        ins = [c for c in b.calls() if c.path.rsplit("::", 1)[-1] == "insert" and any(x.endswith("GraphStore." + fld) for x in od.chain_fields(b, c.args[0]))]
        if ins and all(c.bb in after for c in ins):
            vals = any(any(x.endswith("GraphStore.current_version") for x in od.chain_fields(b, c.args[2])) for c in ins if len(c.args) > 2)
            if vals:
                ctx.ok("R09d", "commit|record|" + kind, "%s written after the bump with the commit version" % fld)
            else:
                ctx.violation("R09d", "commit|record-value|" + kind, where(ct, ins[0].line), "%s is not stamped with the new commit version" % fld)
        else:
            ctx.violation("R09d", "commit|record|" + kind, where(ct), "%s is not updated after the version bump: later committers cannot see this commit" % fld)
    ab = status_writes(b, "Aborted")
    conflicts = [i for i, j, pl, rv, line, exp in b.stmts() if rv[0] == "agg" and rv[1].endswith("GraphError::WriteConflict")]
    if conflicts and all(any(b.dominates(a, c) or a == c for a in ab) for c in conflicts):
        ctx.ok("R09d", "commit|conflict-aborts", "%d conflict exits, each after status = Aborted" % len(conflicts))
    else:
        ctx.violation("R09d", "commit|conflict-aborts", where(ct), "a conflict exit leaves the transaction Active (it could commit again)")
    cm = status_writes(b, "Committed")
    # the transaction was found at function entry (lookup dominating everything) and nothing removes it in
    # this function, so the not-found branch of a later lookup of the same map is infeasible: treat it as passed
    infeasible = set()
    lookups = [c for c in b.calls() if c.path.rsplit("::", 1)[-1] in ("get", "get_mut") and any(x.endswith("GraphStore.active_transactions") for x in od.chain_fields(b, c.args[0]))]
    removes = [c for c in b.calls() if c.path.rsplit("::", 1)[-1] in ("remove", "retain", "clear", "drain", "remove_entry") and c.args and any(x.endswith("GraphStore.active_transactions") for x in od.chain_fields(b, c.args[0]))]
    if lookups and not removes and all(b.dominates(lookups[0].bb, c.bb) for c in lookups):
        for c in lookups[1:]:
            for bb2 in b.reachable(c.bb):
                t2 = b.blocks[bb2]["t"]
                if t2[0] == "switch" and t2[1][0] != "k":
                    ds = b.defs().get(t2[1][1][0], [])
                    if ds and ds[0][0] == "stmt" and ds[0][4][0] == "discr" and ds[0][4][1][0] == c.dest[0]:
                        for val, tgt in t2[2]:
                            if val == "0":
                                infeasible.add(tgt)
                        if not any(val == "0" for val, tgt in t2[2]):
                            infeasible.add(t2[3])
                        break
    if cm and all(b.must_pass(bump, o, set(cm) | infeasible) for o in oks):
        ctx.ok("R09d", "commit|marks-committed", "status = Committed on every path to Ok")
    else:
        ctx.violation("R09d", "commit|marks-committed", where(ct), "a successful commit does not mark the transaction Committed")
    # ---- R09e ------------------------------------------------------------------------------------------
    at = sm.fn_of(F, "abort_transaction")
    a = Body(F.mir(at["path"]), at)
    ctx.saw_fn(at["path"])
    aoks = [i for i, j, pl, rv, line, exp in a.stmts() if pl[0] == 0 and not pl[1] and rv[0] == "agg" and rv[1].endswith("Result::Ok")]
    aact = [c for c in a.calls() if c.path.rsplit("::", 1)[-1] in ("ne", "eq") and "TxnStatus" in c.full]
    aab = status_writes(a, "Aborted")
    if aact and aoks and all(a.dominates(aact[0].bb, o) for o in aoks) and aab and all(a.must_pass(0, o, set(aab)) for o in aoks):
        ctx.ok("R09e", "abort|active-then-aborted", "Active test dominates Ok; Ok only after status = Aborted")
    else:
        ctx.violation("R09e", "abort|active-then-aborted", where(at), "abort_transaction does not (test Active and) mark Aborted on every path to Ok")
    # ---- R09f ------------------------------------------------------------------------------------------
    iso = F.adt("IsolationLevel")
    vnames = [v["name"] for v in iso["variants"]]
    tables = {}
    for nm in ("get_node_for_txn", "get_edge_for_txn"):
        r = sm.fn_of(F, nm)
        if r is None:
            ctx.anchor_failure("R09f", "GraphStore::" + nm)
            continue
        fb = Body(F.mir(r["path"]), r)
        ctx.saw_fn(r["path"])
        tab = {}
        for i in sorted(fb.live_blocks()):
            t = fb.blocks[i]["t"]
            if t[0] == "switch" and t[1][0] != "k":
                ds = fb.defs().get(t[1][1][0], [])
                if ds and ds[0][0] == "stmt" and ds[0][4][0] == "discr" and any(p.endswith("Transaction.isolation") for p in place_fields(ds[0][4][1])):
                    for val, tgt in t[2]:
                        # first assignment in the target chain reading a version field
                        seen = set()
                        cur = tgt
                        src = None
                        for _ in range(4):
                            for s in fb.blocks[cur]["s"]:
                                fl = place_fields(s[1][1][1]) if s[1][0] == "use" and s[1][1][0] != "k" else []
                                for f in fl:
                                    if f.endswith("current_version") or f.endswith("start_version"):
                                        src = f.rsplit(".", 1)[-1]
                            if src or not fb.succ(cur):
                                break
                            cur = fb.succ(cur)[0]
                        tab[vnames[int(val)]] = src
        tables[nm] = tab
        want = {"ReadCommitted": "current_version", "SnapshotIsolation": "start_version"}
        if tab == want:
            ctx.ok("R09f", nm, "ReadCommitted -> current_version, SnapshotIsolation -> start_version")
        else:
            ctx.violation("R09f", nm + "|read-version", where(r), "%s reads at %s; expected %s" % (nm, tab, want))
    return ("Decided: the path obligations that make commit first-committer-wins (status gate, conflict test of both write sets with the strict "
            "'committed after start' predicate, strictly increasing version on every success, bookkeeping after the bump, terminal statuses) and the "
            "read version per isolation level. Not decided: the enumeration of interleavings (the obligations are per-call; commit holds &mut self).")


def _locals_of(b, ops):
    return {o[1][0] for o in ops if o[0] != "k"}


def _first_local(ops, b, sv):
    for o in ops:
        if o[0] != "k" and od.expr_of(b, o) != sv:
            return o[1][0]
    return None
