"""C34 — optimisation solvers: RNG provenance, no order-dependent parallel float reductions,
every solver repairs bounds, degenerate-range sampling."""
from ..cfg import Body
from ..report import where
from ..facts import in_module
from .. import orderdom as od

LEVEL = "other"
CRATE = "samyama_optimization::"
BANNED_RNG = ("rand::thread_rng", "rand::random", "rand::rngs::OsRng", "rand::rngs::ThreadRng", "getrandom::getrandom")
ENTROPY = ("rand::SeedableRng::from_entropy", "rand::SeedableRng::from_os_rng")
REDUCTIONS = ("sum", "reduce", "fold", "min_by", "max_by", "find_any", "reduce_with", "product", "min_by_key", "max_by_key", "try_reduce", "try_fold")


def run(ctx, F, cg):
    ctx.rule("R34a", "inside the crate, nothing reachable from a solver's solve() draws from thread_rng / OsRng / rand::random, and entropy seeding happens only in common::rng (the `None` seed case)")
    ctx.rule("R34b", "no rayon reduction (sum/reduce/fold/min_by/...) is reachable from solve(): order-dependent float rounding and tie-breaking would make results depend on the thread count")
    ctx.rule("R34c", "every solver reaches a bound repair (f64::clamp or a crate-local clamp/repair helper) — candidates are put back inside the box")
    ctx.rule("R34d", "a gen_range over a half-open Range whose ends derive from the variable bounds panics when lower == upper (a degenerate box, which the property includes)")
    solves = sorted(p for p, r in F.fns.items() if p.startswith(CRATE) and p.endswith("::solve") and "{closure" not in p)
    ctx.floor("R34a", "solver solve() functions", len(solves), 29)
    in_crate = lambda p: in_module(p, CRATE)
    allr = {}
    for s in solves:
        par = cg.reach([s], cha=True, stop=lambda p: (p in F.fns) and not in_crate(p))
        allr[s] = par
        short = s.replace(CRATE + "algorithms::", "").replace("::solve", "")
        ctx.saw_fn(s)
        local = {n for n in par if in_crate(n) or n not in F.fns}
        bad = sorted(n for n in local if any(n == b or n.startswith(b) for b in BANNED_RNG))
        ent = [n for n in local if n in ENTROPY]
        ent_bad = []
        if ent:
            for e in ent:
                path = cg.path_to(par, e)
                if not any("common::rng::" in x for x in path):
                    ent_bad.append(" -> ".join(path[-3:]))
        if bad or ent_bad:
            ctx.violation("R34a", short + "|unseeded-randomness", where(F.fns[s]), "solve() reaches %s: the result is not a function of the seed" % (bad or ent_bad))
        else:
            ctx.ok("R34a", short, "randomness only via common::rng (solver_rng/child_rng)")
        red = sorted({n.rsplit("::", 1)[-1] for n in local if n.startswith("rayon::") and n.rsplit("::", 1)[-1] in REDUCTIONS})
        if red:
            ctx.violation("R34b", short + "|parallel-reduction", where(F.fns[s]), "solve() reaches rayon %s: float reductions in nondeterministic order" % red)
        else:
            ctx.ok("R34b", short, "no rayon reduction reachable")
        rep = [n for n in local if n.endswith("f64>::clamp") or n.endswith("::clamp") or n.rsplit("::", 1)[-1] in ("clamp", "clamp_to_bounds", "repair", "repair_bounds", "enforce_bounds", "clip")]
        minmax = [n for n in local if n.endswith("f64>::max") or n.endswith("f64>::min")]
        if rep or (minmax and len(minmax) >= 2):
            ctx.ok("R34c", short, "bound repair via %s" % sorted({x.rsplit("::", 1)[-1] for x in (rep or minmax)}))
        else:
            ctx.violation("R34c", short + "|no-bound-repair", where(F.fns[s]), "solve() never clamps candidates to the variable bounds")
    # ---- R34e: nothing a solver computes depends on the number of threads -----------------------------------------
    ctx.rule("R34e", "no solver reads the number of worker threads (rayon::current_num_threads, available_parallelism, num_cpus): a work partition, block size or RNG stream derived from it makes the same seed give different results on different pools")
    THREADS = ("current_num_threads", "available_parallelism", "max_num_threads", "num_cpus::get", "get_physical")
    n_t = 0
    for s_ in solves:
        short = s_.replace(CRATE + "algorithms::", "").replace("::solve", "")
        bodies = [s_] + [c for c in F.fns if c.startswith(s_ + "::{closure")]
        hits = []
        for bp in bodies:
            r_ = F.fns.get(bp)
            if not r_:
                continue
            for c in r_["calls"]:
                if any(c.endswith(t) or c.endswith(t + "()") or ("::" + t) in c for t in THREADS):
                    hits.append((bp, c))
        # helpers of the crate reached from solve
        for n in allr[s_]:
            if n in F.fns and in_crate(n) and n not in bodies:
                for c in F.fns[n]["calls"]:
                    if any(("::" + t) in c or c.endswith(t) for t in THREADS):
                        hits.append((n, c))
        n_t += 1
        if hits:
            ctx.violation("R34e", short + "|reads-thread-count", where(F.fns[s_]), "solve() reads the number of worker threads (%s in %s): whatever is sized or seeded from it differs between a 1-thread and an 8-thread pool" % (hits[0][1].rsplit("::", 1)[-1], hits[0][0].replace(CRATE, "")))
        else:
            ctx.ok("R34e", short, "no thread-count source reachable inside the crate")
    ctx.floor("R34e", "solvers examined for thread-count sources", n_t, 29)
    # ---- R34f: the incumbent of a solver without an elitist copy never moves -------------------------------------
    ctx.rule("R34f", "Firefly reports population[best_idx] as its history and keeps no separate best-so-far copy, so the history can only stay monotone if the best firefly never moves: in the attraction closure, the block that marks a firefly as moved is not reachable on the equal-fitness outcome of the fitness comparison that guards it (only the orderings <, =, > of the two fitness values matter)")
    ff = CRATE + "algorithms::firefly::FireflySolver::solve"
    if ff not in F.fns:
        ctx.anchor_failure("R34f", "FireflySolver::solve")
    else:
        fb = Body(F.mir(ff), F.fns[ff])
        elitist = True
        for c in fb.calls():
            if c.path.endswith("Vec::<T, A>::push") and c.args and c.args[0][0] != "k" and "Vec<f64>" in fb.local_ty(c.args[0][1][0]) and len(c.args) > 1 and c.args[1][0] != "k":
                og = fb.origins(c.args[1][1][0], through_calls=lambda cc: [0] if cc.path.rsplit("::", 1)[-1] in ("index", "deref") else None)
                if any(o[0] == "via" and o[1].path.rsplit("::", 1)[-1] == "index" for o in og):
                    elitist = False
        if elitist:
            ctx.ok("R34f", "firefly|elitist-copy", "history is not read from the population by index; the rule does not apply")
        else:
            found = 0
            for cp in sorted(c_ for c_ in F.fns if c_.startswith(ff + "::{closure")):
                cr = F.fns[cp]
                cb = Body(F.mir(cp), cr)
                from .. import histrules as hr_
                guards_ = [g for g in hr_._guards(cb) if hr_._reads_fitness(cb, g[4]) and hr_._reads_fitness(cb, g[5])]
                marks = [(i, line) for i, j, pl, rv, line, exp in cb.stmts() if rv[0] == "use" and rv[1][0] == "k" and rv[1][1].strip() == "const true" and cb.local_ty(pl[0]) == "bool" and not pl[1]]
                if not guards_ or not marks:
                    continue
                ctx.saw_fn(cp)
                for (sb, tt, ft, op, lhs, rhs, line) in guards_:
                    # the outcome of the comparison when the two fitness values are equal (switches on a copy of the
                    # comparison result are followed; `!c` in a condition is lowered to swapped targets)
                    taken = tt if op in ("Le", "Ge") else ft
                    reach = cb.reachable(taken, avoid={sb})
                    found += 1
                    hit = [m for m in marks if m[0] in reach]
                    if hit:
                        ctx.violation("R34f", "firefly|moves-on-tie", where(cr, line), "a firefly is moved (line %d) when the other one's fitness is merely equal to its own: two fireflies tied for best move each other, the incumbent gets worse and the reported history increases" % hit[0][1])
                    else:
                        ctx.ok("R34f", "firefly|strict-attraction", "the moved mark is unreachable on the equal-fitness outcome")
            if not found:
                ctx.anchor_failure("R34f", "fitness comparison guarding a moved mark in FireflySolver::solve closures")
    # ---- R34g: the history of every single-objective solver is monotone by construction ------------------------------
    ctx.rule("R34g", "the best-fitness history never gets worse, decided per single-objective solver from the shape of solve(): (A) the pushed value is a loop-carried best-so-far holder whose every in-loop assignment lies on the true side of `new < holder`; or (P) it is read from the population and every member written inside the iteration loop (solve() and the closures created in it) lies on the true side of a comparison against a member's current fitness; or (C) a reviewed mechanism: Firefly — the best never moves (R34f), GA — the recorded member is cloned into the next generation on every path")
    from .. import histrules as hr
    c_table = {"firefly": (lambda *a_: (True, "the best firefly never moves (decided by R34f)")), "ga": hr.ga_elitism}
    n_h = 0
    classes = {}
    for s_ in solves:
        r_ = F.fns[s_]
        if "OptimizationResult" not in r_["sig"] or "MultiObjective" in r_["sig"]:
            continue
        short = s_.replace(CRATE + "algorithms::", "").replace("::solve", "")
        res = hr.classify(F, s_, c_table)
        n_h += 1
        classes.setdefault(res["cls"], []).append(short.split("::")[0])
        if res["ok"]:
            ctx.ok("R34g", short + "|history", "class %s: %s" % (res["cls"], res["why"]))
        else:
            ctx.violation("R34g", short + "|history", where(F.fns.get(res.get("fn", s_), r_), res.get("line")), res["why"])
    ctx.floor("R34g", "single-objective solvers whose history is decided", n_h, 25)
    ctx.note("history classes: " + "; ".join("%s: %s" % (k, ", ".join(sorted(v))) for k, v in sorted(classes.items())))
    # ---- R34h: a placeholder fitness never reaches the result ----------------------------------------------------------
    ctx.rule("R34h", "the reported best fitness is the fitness of the reported best variables: where solve() writes a constant into the fitness of an Individual that feeds OptimizationResult (a placeholder such as infinity), every path from that write to the result passes a whole reassignment of that individual or a call of a crate function that takes it by `&mut` (the ranking scan) — including the path that never enters the iteration loop")
    n_ph = 0
    for s_ in solves:
        r_ = F.fns[s_]
        if "OptimizationResult" not in r_["sig"]:
            continue
        sb_ = Body(F.mir(s_), r_)
        short = s_.replace(CRATE + "algorithms::", "").replace("::solve", "")
        aggs = [(i, rv) for i, j, pl, rv, line, exp in sb_.stmts() if rv[0] == "agg" and rv[1].endswith("OptimizationResult")]
        feeds = set()
        for i, rv in aggs:
            for o in rv[2][:2]:
                if o[0] != "k":
                    feeds |= od.chain_locals(sb_, o)
        k = 0
        for i, j, pl, rv, line, exp in sb_.stmts():
            if not (rv[0] == "use" and rv[1][0] == "k" and any(isinstance(x, str) and x.endswith("Individual.fitness") for x in pl[1])):
                continue
            X = pl[0]
            if X not in feeds:
                continue
            n_ph += 1
            mrefs = {pl2[0] for i2, j2, pl2, rv2, l2, e2 in sb_.stmts() if rv2[0] == "ref" and rv2[1] == 1 and rv2[2][0] == X and not rv2[2][1] and not pl2[1]}
            for _ in range(4):      # reborrows (`&mut *r`) and moves of the reference
                mrefs |= {pl2[0] for i2, j2, pl2, rv2, l2, e2 in sb_.stmts() if not pl2[1] and ((rv2[0] == "ref" and rv2[2][0] in mrefs) or (rv2[0] == "use" and rv2[1][0] != "k" and rv2[1][1][0] in mrefs and not rv2[1][1][1]))}
            redefs = {i2 for i2, j2, pl2, rv2, l2, e2 in sb_.stmts() if pl2[0] == X and not pl2[1]}
            for c in sb_.calls():
                if c.dest[0] == X and not c.dest[1]:
                    redefs.add(c.bb)
                if c.path in F.fns and any(a_[0] != "k" and a_[1][0] in mrefs for a_ in c.args):
                    redefs.add(c.bb)
            redefs.discard(i)
            inst = "%s|placeholder-fitness|%d" % (short, k)
            k += 1
            if all(sb_.must_pass(i, ai, redefs) for ai, _ in aggs if ai in sb_.reachable(i)):
                ctx.ok("R34h", inst, "the placeholder written at line %d is replaced on every path to the result" % line)
            else:
                ctx.violation("R34h", inst, where(r_, line), "the constant written into the best individual's fitness (line %d) can reach OptimizationResult unchanged — on the path that skips the iteration loop the solver reports that placeholder as best_fitness, next to variables whose real fitness is different" % line)
    ctx.floor("R34h", "placeholder fitness writes feeding a result", n_ph, 1)
    # ---- R34d ------------------------------------------------------------------------------------------
    per = {}
    total = 0
    nguarded = 0
    for p, r in sorted(F.fns.items()):
        if not in_crate(p) or not any("gen_range" in c for c in r["calls"]):
            continue
        m = F.mir(p)
        if m is None:
            continue
        b = Body(m, r)
        for c in b.calls():
            if "gen_range" not in c.path:
                continue
            g = c.full
            if "std::ops::Range<f64>" not in g and "std::ops::Range<f32>" not in g:
                continue
            # range operand: aggregate Range{start,end}; constant ends cannot be degenerate
            a = c.args[1] if len(c.args) > 1 else None
            const_ends = False
            if a and a[0] != "k":
                for o in b.origins(a[1][0]):
                    if o[0] == "agg" and o[1].endswith("ops::Range"):
                        const_ends = all(x[0] == "k" for x in o[2])
            if const_ends:
                continue
            total += 1
            # guarded: the call is on the true side of a dominating `start < end` comparison over the same operands
            guarded = False
            ends = None
            if a and a[0] != "k":
                for o in b.origins(a[1][0]):
                    if o[0] == "agg" and o[1].endswith("ops::Range") and len(o[2]) == 2:
                        ends = [od.chain_locals(b, x) if x[0] != "k" else set() for x in o[2]]
            if ends:
                for i in sorted(b.live_blocks()):
                    t = b.blocks[i]["t"]
                    if t[0] != "switch" or t[1][0] == "k" or not b.dominates(i, c.bb):
                        continue
                    ds = [d for d in b.defs().get(t[1][1][0], []) if d[0] == "stmt"]
                    if len(ds) != 1 or ds[0][4][0] != "bin" or ds[0][4][1] not in ("Lt", "Gt"):
                        continue
                    l, rr = ds[0][4][2], ds[0][4][3]
                    if ds[0][4][1] == "Gt":
                        l, rr = rr, l
                    if l[0] == "k" or rr[0] == "k":
                        continue
                    if (od.chain_locals(b, l) & ends[0]) and (od.chain_locals(b, rr) & ends[1]):
                        false_t = [tgt for v, tgt in t[2] if v == "0"]
                        if false_t and c.bb not in b.reachable(false_t[0], avoid={i}):
                            guarded = True
            if guarded:
                nguarded += 1
                continue
            mod = p.replace(CRATE, "").split("::")
            key = mod[1] if mod[0] == "algorithms" and len(mod) > 1 else mod[0]
            per.setdefault(key, []).append((p, r, c))
    helper_sites = sum(1 for p, r in F.fns.items() if in_crate(p) for c in r["calls"] if c.endswith("common::rng::sample_in"))
    ctx.note("bounds-derived float samples: %d unguarded gen_range, %d guarded gen_range, %d functions using the guarded helper" % (sum(len(v) for v in per.values()), nguarded, helper_sites))
    total = total + helper_sites
    ctx.floor("R34d", "bounds-derived float sampling sites (functions using the helper + direct gen_range)", total, 25)
    if not per:
        ctx.ok("R34d", "no-unguarded-half-open-sampling", "every bounds-derived float gen_range is behind a `lower < upper` test (%d guarded)" % nguarded)
    for key, sites in sorted(per.items()):
        p, r, c = sites[0]
        ctx.violation("R34d", "%s|half-open-gen_range" % key, where(r, c.line), "%d gen_range(lower..upper) call(s) with bounds-derived ends in %s: panics ('cannot sample empty range') for a variable with lower == upper" % (len(sites), key))
    return ("Decided: seed-determinism prerequisites (no unseeded randomness, no order-dependent parallel reductions inside the crate), that every solver repairs bounds, "
            "and which solvers sample half-open ranges built from the bounds (known findings: degenerate boxes panic). Not decided: history monotonicity, dominance, fitness consistency.")
