"""C34 — optimisation solvers: RNG provenance, no order-dependent parallel float reductions,
every solver repairs bounds, degenerate-range sampling."""
from ..cfg import Body
from ..report import where
from ..facts import in_module
from .. import orderdom as od

LEVEL = "other"
CRATE = "samyama_optimization::"
BANNED_RNG = ("rand::thread_rng", "rand::random", "rand::rngs::OsRng", "rand::rngs::ThreadRng", "getrandom::getrandom")
ENTROPY = ("rand::SeedableRng::from_entropy", "rand::SeedableRng::from_os_rng")
REDUCTIONS = ("sum", "reduce", "fold", "min_by", "max_by", "find_any", "reduce_with", "product", "min_by_key", "max_by_key", "try_reduce", "try_fold")


def run(ctx, F, cg):
    ctx.rule("R34a", "inside the crate, nothing reachable from a solver's solve() draws from thread_rng / OsRng / rand::random, and entropy seeding happens only in common::rng (the `None` seed case)")
    ctx.rule("R34b", "no rayon reduction (sum/reduce/fold/min_by/...) is reachable from solve(): order-dependent float rounding and tie-breaking would make results depend on the thread count")
    ctx.rule("R34c", "every solver reaches a bound repair (f64::clamp or a crate-local clamp/repair helper) — candidates are put back inside the box")
    ctx.rule("R34d", "a gen_range over a half-open Range whose ends derive from the variable bounds panics when lower == upper (a degenerate box, which the property includes)")
    solves = sorted(p for p, r in F.fns.items() if p.startswith(CRATE) and p.endswith("::solve") and "{closure" not in p)
    ctx.floor("R34a", "solver solve() functions", len(solves), 29)
    in_crate = lambda p: in_module(p, CRATE)
    allr = {}
    for s in solves:
        par = cg.reach([s], cha=True, stop=lambda p: (p in F.fns) and not in_crate(p))
        allr[s] = par
        short = s.replace(CRATE + "algorithms::", "").replace("::solve", "")
        ctx.saw_fn(s)
        local = {n for n in par if in_crate(n) or n not in F.fns}
        bad = sorted(n for n in local if any(n == b or n.startswith(b) for b in BANNED_RNG))
        ent = [n for n in local if n in ENTROPY]
        ent_bad = []
        if ent:
            for e in ent:
                path = cg.path_to(par, e)
                if not any("common::rng::" in x for x in path):
                    ent_bad.append(" -> ".join(path[-3:]))
        if bad or ent_bad:
            ctx.violation("R34a", short + "|unseeded-randomness", where(F.fns[s]), "solve() reaches %s: the result is not a function of the seed" % (bad or ent_bad))
        else:
            ctx.ok("R34a", short, "randomness only via common::rng (solver_rng/child_rng)")
        red = sorted({n.rsplit("::", 1)[-1] for n in local if n.startswith("rayon::") and n.rsplit("::", 1)[-1] in REDUCTIONS})
        if red:
            ctx.violation("R34b", short + "|parallel-reduction", where(F.fns[s]), "solve() reaches rayon %s: float reductions in nondeterministic order" % red)
        else:
            ctx.ok("R34b", short, "no rayon reduction reachable")
        rep = [n for n in local if n.endswith("f64>::clamp") or n.endswith("::clamp") or n.rsplit("::", 1)[-1] in ("clamp", "clamp_to_bounds", "repair", "repair_bounds", "enforce_bounds", "clip")]
        minmax = [n for n in local if n.endswith("f64>::max") or n.endswith("f64>::min")]
        if rep or (minmax and len(minmax) >= 2):
            ctx.ok("R34c", short, "bound repair via %s" % sorted({x.rsplit("::", 1)[-1] for x in (rep or minmax)}))
        else:
            ctx.violation("R34c", short + "|no-bound-repair", where(F.fns[s]), "solve() never clamps candidates to the variable bounds")
    # ---- R34e: nothing a solver computes depends on the number of threads -----------------------------------------
    ctx.rule("R34e", "no solver reads the number of worker threads (rayon::current_num_threads, available_parallelism, num_cpus): a work partition, block size or RNG stream derived from it makes the same seed give different results on different pools")
    THREADS = ("current_num_threads", "available_parallelism", "max_num_threads", "num_cpus::get", "get_physical")
    n_t = 0
    for s_ in solves:
        short = s_.replace(CRATE + "algorithms::", "").replace("::solve", "")
        bodies = [s_] + [c for c in F.fns if c.startswith(s_ + "::{closure")]
        hits = []
        for bp in bodies:
            r_ = F.fns.get(bp)
            if not r_:
                continue
            for c in r_["calls"]:
                if any(c.endswith(t) or c.endswith(t + "()") or ("::" + t) in c for t in THREADS):
                    hits.append((bp, c))
        # helpers of the crate reached from solve
        for n in allr[s_]:
            if n in F.fns and in_crate(n) and n not in bodies:
                for c in F.fns[n]["calls"]:
                    if any(("::" + t) in c or c.endswith(t) for t in THREADS):
                        hits.append((n, c))
        n_t += 1
        if hits:
            ctx.violation("R34e", short + "|reads-thread-count", where(F.fns[s_]), "solve() reads the number of worker threads (%s in %s): whatever is sized or seeded from it differs between a 1-thread and an 8-thread pool" % (hits[0][1].rsplit("::", 1)[-1], hits[0][0].replace(CRATE, "")))
        else:
            ctx.ok("R34e", short, "no thread-count source reachable inside the crate")
    ctx.floor("R34e", "solvers examined for thread-count sources", n_t, 29)
    # ---- R34d ------------------------------------------------------------------------------------------
    per = {}
    total = 0
    nguarded = 0
    for p, r in sorted(F.fns.items()):
        if not in_crate(p) or not any("gen_range" in c for c in r["calls"]):
            continue
        m = F.mir(p)
        if m is None:
            continue
        b = Body(m, r)
        for c in b.calls():
            if "gen_range" not in c.path:
                continue
            g = c.full
            if "std::ops::Range<f64>" not in g and "std::ops::Range<f32>" not in g:
                continue
            # range operand: aggregate Range{start,end}; constant ends cannot be degenerate
            a = c.args[1] if len(c.args) > 1 else None
            const_ends = False
            if a and a[0] != "k":
                for o in b.origins(a[1][0]):
                    if o[0] == "agg" and o[1].endswith("ops::Range"):
                        const_ends = all(x[0] == "k" for x in o[2])
            if const_ends:
                continue
            total += 1
            # guarded: the call is on the true side of a dominating `start < end` comparison over the same operands
            guarded = False
            ends = None
            if a and a[0] != "k":
                for o in b.origins(a[1][0]):
                    if o[0] == "agg" and o[1].endswith("ops::Range") and len(o[2]) == 2:
                        ends = [od.chain_locals(b, x) if x[0] != "k" else set() for x in o[2]]
            if ends:
                for i in sorted(b.live_blocks()):
                    t = b.blocks[i]["t"]
                    if t[0] != "switch" or t[1][0] == "k" or not b.dominates(i, c.bb):
                        continue
                    ds = [d for d in b.defs().get(t[1][1][0], []) if d[0] == "stmt"]
                    if len(ds) != 1 or ds[0][4][0] != "bin" or ds[0][4][1] not in ("Lt", "Gt"):
                        continue
                    l, rr = ds[0][4][2], ds[0][4][3]
                    if ds[0][4][1] == "Gt":
                        l, rr = rr, l
                    if l[0] == "k" or rr[0] == "k":
                        continue
                    if (od.chain_locals(b, l) & ends[0]) and (od.chain_locals(b, rr) & ends[1]):
                        false_t = [tgt for v, tgt in t[2] if v == "0"]
                        if false_t and c.bb not in b.reachable(false_t[0], avoid={i}):
                            guarded = True
            if guarded:
                nguarded += 1
                continue
            mod = p.replace(CRATE, "").split("::")
            key = mod[1] if mod[0] == "algorithms" and len(mod) > 1 else mod[0]
            per.setdefault(key, []).append((p, r, c))
    helper_sites = sum(1 for p, r in F.fns.items() if in_crate(p) for c in r["calls"] if c.endswith("common::rng::sample_in"))
    ctx.note("bounds-derived float samples: %d unguarded gen_range, %d guarded gen_range, %d functions using the guarded helper" % (sum(len(v) for v in per.values()), nguarded, helper_sites))
    total = total + helper_sites
    ctx.floor("R34d", "bounds-derived float sampling sites (functions using the helper + direct gen_range)", total, 25)
    if not per:
        ctx.ok("R34d", "no-unguarded-half-open-sampling", "every bounds-derived float gen_range is behind a `lower < upper` test (%d guarded)" % nguarded)
    for key, sites in sorted(per.items()):
        p, r, c = sites[0]
        ctx.violation("R34d", "%s|half-open-gen_range" % key, where(r, c.line), "%d gen_range(lower..upper) call(s) with bounds-derived ends in %s: panics ('cannot sample empty range') for a variable with lower == upper" % (len(sites), key))
    return ("Decided: seed-determinism prerequisites (no unseeded randomness, no order-dependent parallel reductions inside the crate), that every solver repairs bounds, "
            "and which solvers sample half-open ranges built from the bounds (known findings: degenerate boxes panic). Not decided: history monotonicity, dominance, fitness consistency.")
