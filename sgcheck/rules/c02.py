"""C02 — results independent of indexes / tier / planner mode: property-index maintenance matrix,
index-consumed predicate keeps a residual, frozen tier agrees (shared with C06)."""
from ..cfg import Body
from ..report import where
from ..facts import in_module
from .. import storemodel as sm, pairing
from .c32 import _Collect
from . import c06
from .. import storerules as sr

LEVEL = "other"


def residual_rule(ctx, F, rule="R01b"):
    """The index answers under PropertyValue::Ord (Integer != Float keys, one label out of several): the predicate an
    index lookup was derived from must stay in the residual filter.  Violation: the position returned by
    find_index_predicate flows into a removal from the predicate list."""
    pl = [r for p, r in F.fns.items() if in_module(p, "samyama::query::executor::planner") and any(c.endswith("IndexScanOperator::new") for c in r["calls"])]
    ctx.floor(rule, "planner functions building an IndexScanOperator", len(pl), 1)
    n = 0
    for r in sorted(pl, key=lambda x: x["path"]):
        b = Body(F.mir(r["path"]), r)
        ctx.saw_fn(r["path"]); ctx.saw_calls(len(b.calls()))
        short = r["path"].replace("samyama::query::executor::planner::", "")
        finds = [c for c in b.calls() if c.path.rsplit("::", 1)[-1] in ("find_index_predicate", "find_indexable_predicate", "find_index_predicate_for")]
        scans = [c for c in b.calls() if c.path.endswith("IndexScanOperator::new")]
        removes = [c for c in b.calls() if c.path.rsplit("::", 1)[-1] in ("remove", "swap_remove", "drain", "retain") and "ast::Expression" in c.full]
        for k, sc in enumerate(scans):
            n += 1
            inst = "%s|index-scan|%d" % (short, k)
            tainted = set()
            for f in finds:
                tainted |= b.forward_taint({f.dest[0]}, through_calls=lambda c, ix: c.path.rsplit("::", 1)[-1] in ("branch", "unwrap", "clone", "map", "as_ref"))
            consumed = [rm for rm in removes if any(a[0] != "k" and a[1][0] in tainted for a in rm.args[1:])]
            consumed = [rm for rm in consumed if sc.bb in b.reachable(rm.bb) or rm.bb in b.reachable(sc.bb)]
            if consumed:
                ctx.violation(rule, inst + "|predicate-consumed", where(r, consumed[0].line),
                              "the predicate the index lookup was derived from is removed from the residual filter: the index matches under PropertyValue's Ord (Integer(1) and Float(1.0) are different keys; one label out of several), so results differ from the unindexed plan")
            else:
                ctx.ok(rule, inst, "index-derived predicate stays in the residual filter")
    return n


def run(ctx, F, cg):
    ctx.rule("R02a", "the store populates property indexes (index_insert), so every mutator that ends a node's membership under (label, property, value) must reach index_remove")
    ctx.rule("R01b", "an index lookup never consumes the predicate it was derived from (the residual filter re-checks it), so an index can only change cost")
    ctx.rule("R02e", "(tier independence) a read view of the adjacency reads whole (frozen tier, write buffer) pairs of one direction, so compaction cannot change what it returns; single-tier accessors are reviewed and their callers merge both tiers")
    ctx.rule("R02f", "(index independence) property-index maintenance never removes the old entry after inserting the new one within one pass: when old == new that drops the node from the index while a scan still finds it")
    sr.direction_coherence(ctx, F, cg, "R02e")
    sr.remove_before_insert(ctx, F, cg, "R02f", pairs=(("index_insert", "index_remove"),))
    ctx.rule("R02g", "(parallel-filter independence) the filter's parallel and sequential paths treat a failing predicate alike: no evaluation error is dropped in a filtering operator (dropping it turns 'the query fails' into 'the row does not match' only when the batch is large enough to go parallel)")
    from .c35 import error_discard_sites, SORT_KEY_SITES
    sites = [x for x in error_discard_sites(F) if not any(k in x[0] for k in SORT_KEY_SITES)]
    filt = [r_ for p_, r_ in F.fns.items() if "FilterOperator" in p_ and p_.endswith("::next_batch")]
    ctx.floor("R02g", "FilterOperator::next_batch bodies", len(filt), 1)
    if sites:
        for owner, callee, how, r_, line in sites:
            ctx.violation("R02g", "%s|%s|%s|error-dropped" % (owner, callee, how), where(r_, line), "%s drops the error of %s (%s): with a predicate that fails on some row the answer depends on whether this path or the error-propagating one is taken (batch size, SAMYAMA_FILTER_PARALLEL_COST)" % (owner, callee, how))
    else:
        ctx.ok("R02g", "no-dropped-evaluation-error", "no evaluation error is dropped outside the reviewed sort-key sites")
    ctx.rule("R02h", "(index independence) a literal-first comparison is served from the index through its mirror image: the operator table that turns `lit OP n.p` into `n.p OP' lit` maps <,>,<=,>= to >,<,>=,<= and leaves the rest alone (mirroring is not negation: `5 <= n.age` is `n.age >= 5`, not `n.age > 5`)")
    # type-driven: planner functions BinaryOp -> BinaryOp (a negation table, if one is ever added, would be named so)
    flips = [r_ for p_, r_ in F.fns.items() if p_.startswith("samyama::query::executor::") and "ast::BinaryOp) -> samyama::query::ast::BinaryOp" in r_["sig"]
             and not r_.get("trait") and "::tests::" not in p_ and not any(w in p_.rsplit("::", 1)[-1] for w in ("negat", "invert", "complement"))]
    ctx.floor("R02h", "comparison-mirroring tables in the planner", len(flips), 1)
    MIRROR = {"Lt": "Gt", "Gt": "Lt", "Le": "Ge", "Ge": "Le"}
    for fr in flips:
        ctx.saw_fn(fr["path"])
        table, wild_identity = {}, False
        for m_ in F.arms(fr["path"]):
            if not m_["sty"].replace("&", "").strip().endswith("ast::BinaryOp"):
                continue
            for arm in m_["arms"]:
                pt = arm["pat"]
                outs = [c.rsplit("::", 1)[-1] for c in arm["ctors"] if "BinaryOp::" in c]
                if pt.get("k") == "variant":
                    table[pt["p"].rsplit("::", 1)[-1]] = outs
                elif pt.get("k") == "or":
                    for e_ in pt["e"]:
                        if e_.get("k") == "variant":
                            table[e_["p"].rsplit("::", 1)[-1]] = outs
                elif pt.get("k") in ("bind", "wild"):
                    wild_identity = (not outs) and any(c.endswith("clone") for c in arm["calls"]) or (pt.get("k") == "bind" and not outs)
        short = fr["path"].rsplit("::", 1)[-1]
        wrong = {k: v for k, v in table.items() if (k in MIRROR and v != [MIRROR[k]]) or (k not in MIRROR and v not in ([k], []))}
        missing = [k for k in MIRROR if k not in table]
        if wrong:
            k0 = sorted(wrong)[0]
            ctx.violation("R02h", "%s|%s-maps-to-%s" % (short, k0, "+".join(wrong[k0]) or "nothing"), where(fr),
                          "%s maps %s to %s; the mirror image is %s. With an index, `lit %s n.p` is then looked up over a different range than the filter it replaces, so rows at the bound appear or vanish depending on whether an index exists" % (short, k0, wrong[k0], MIRROR.get(k0, k0), k0))
        elif missing and not wild_identity:
            ctx.violation("R02h", "%s|no-arm-for-%s" % (short, missing[0]), where(fr), "%s has no arm for %s" % (short, missing))
        elif missing:
            ctx.violation("R02h", "%s|%s-left-unmirrored" % (short, missing[0]), where(fr), "%s passes %s through unchanged: an ordering operator must be mirrored when the operands are swapped" % (short, missing))
        else:
            ctx.ok("R02h", short, "Lt<->Gt, Le<->Ge, everything else unchanged")
    ctx.rule("R06a", "(shared with C06) the compacted tier answers as the write buffer does: deletion covers every representation")
    pairing.matrix(ctx, F, cg, "R02a", "property-index", ["IndexManager::index_insert"], ["IndexManager::index_remove"],
                   ["prop-set", "prop-kill", "label-kill", "node-kill"],
                   "%(fn)s (%(kind)s) never removes the node from the property indexes: an indexed lookup keeps returning it while the unindexed scan does not")
    residual_rule(ctx, F)
    # shared frozen-tier rule: re-run C06's R06a/R06b and surface its verdicts here
    class Fwd(_Collect):
        def __init__(self, outer):
            _Collect.__init__(self)
            self.outer = outer
        def ok(self, rule, inst, detail=""):
            if rule in ("R06a", "R06b"):
                self.outer.ok(rule, inst, detail)
        def violation(self, rule, inst, where_, msg):
            if rule in ("R06a", "R06b"):
                self.outer.violation(rule, inst, where_, msg)
    c06.run(Fwd(ctx), F, cg)
    # planner mode / parallel threshold: evidence only
    envs = []
    for p, r in F.fns.items():
        if any(c == "std::env::var" for c in r["calls"]) and (in_module(p, "samyama::query")):
            envs.append(p)
    ctx.note("functions of the query engine reading environment variables (plan/thread policy selection; equality of the alternatives is not decided): %s" % sorted(envs)[:12])
    return ("Decided: that every way a node leaves an indexed (label, property, value) removes it from the index, that index-derived predicates are re-checked by "
            "the residual filter, and (shared with C06) that deletion covers the compacted tier. Not decided: that the two planners or the parallel filter agree "
            "on every query (semantic equivalence of alternatives).")
