"""C33 — cluster health claims quorum only with a strict majority of distinct voters and a leader."""
from ..cfg import Body
from ..report import where
from .. import orderdom as od

LEVEL = "other"
SETS = ("std::collections::HashSet", "std::collections::BTreeSet", "hashbrown::HashSet", "indexmap::IndexSet", "std::collections::hash_set", "std::collections::btree_set")


def chain_has_set(b, e, depth=0):
    """Does the receiver chain of a counting call reach a set-typed collection?  Returns the
    defining local of the set (for same-collection comparison) or None."""
    if e[0] != "call" or depth > 12:
        return None
    path = e[1]
    if any(s in path for s in SETS) and path.rsplit("::", 1)[-1] in ("len", "iter", "into_iter", "intersection", "difference", "union"):
        # receiver local
        if e[3] and e[3][0][0] == "ref":
            return _root_local(b, e[3][0][1])
        return -1
    if e[3] and e[3][0][0] == "ref":
        l = e[3][0][1]
        sub = od.expr_of_place(b, [l, []], 0, set())
        return chain_has_set(b, sub, depth + 1)
    return None


def receiver_chain(b, e, depth=0):
    """Callee paths along the receiver (arg 0) chain of a call expression."""
    out = []
    while e[0] == "call" and depth < 16:
        out.append(e[1])
        if not e[3] or e[3][0][0] != "ref":
            break
        e = od.expr_of_place(b, [e[3][0][1], []], 0, set())
        depth += 1
    return out


def _root_local(b, l):
    for _ in range(10):
        ds = [d for d in b.defs().get(l, ()) if d[0] == "stmt"]
        cs = [d for d in b.defs().get(l, ()) if d[0] == "call"]
        if cs and cs[0][2].path.rsplit("::", 1)[-1] in ("deref", "as_ref", "borrow"):
            a = cs[0][2].args[0]
            if a[0] == "k":
                return l
            l = a[1][0]
            continue
        if len(ds) == 1 and ds[0][4][0] in ("ref", "use") :
            rv = ds[0][4]
            nl = rv[2][0] if rv[0] == "ref" else (rv[1][1][0] if rv[1][0] != "k" else None)
            if nl is None:
                return l
            l = nl
            continue
        return l
    return l


def run(ctx, F, cg):
    ctx.rule("R33a", "the quorum predicate, evaluated over all (active, voters) with 0<=active<=voters<=8, equals 2*active > voters (strict majority)")
    ctx.rule("R33b", "both operands of the quorum predicate count elements of one set-typed collection of voter ids (distinct by construction)")
    ctx.rule("R33c", "`healthy` is the conjunction of the quorum predicate and has_leader")
    hs = [r for p, r in F.fns.items() if p.startswith("samyama::raft::cluster::ClusterManager::health_status") and r["coroutine"]]
    if len(hs) != 1:
        ctx.anchor_failure("R33", "ClusterManager::health_status coroutine body (found %d)" % len(hs))
        return "anchor failure"
    r = hs[0]
    b = Body(F.mir(r["path"]), r)
    ctx.saw_fn(r["path"])
    ctx.saw_calls(len(b.calls()))
    # the ClusterHealth aggregate
    aggs = [(i, rv, line) for i, j, pl, rv, line, exp in b.stmts() if rv[0] == "agg" and rv[1].endswith("ClusterHealth")]
    if not aggs:
        ctx.anchor_failure("R33", "construction of ClusterHealth in health_status")
        return "anchor failure"
    adt = F.adt("raft::cluster::ClusterHealth")
    fields = [f[0] for f in adt["variants"][0]["fields"]]
    hidx = fields.index("healthy")
    i, rv, line = aggs[0]
    hop = rv[2][hidx]
    if hop[0] == "k":
        ctx.violation("R33c", "healthy-constant", where(r, line), "`healthy` is a constant")
        return "constant"
    hl = hop[1][0]
    # the quorum comparison: a comparison statement between two counted quantities
    cmp_switches = []
    for bi, sj, pl, rv2, ln, ex in b.stmts():
        if rv2[0] == "bin" and rv2[1] in od.CMP and not pl[1]:
            e = ("cmp", od.CMP[rv2[1]], od.expr_of(b, rv2[2]), od.expr_of(b, rv2[3]))
            if e[0] == "cmp":
                rs = od.roots(e)
                if len(rs) == 2 and all(x[0] == "call" for x in rs):
                    cmp_switches.append((bi, e, rs, pl[0]))
    if not cmp_switches:
        ctx.violation("R33a", "no-quorum-comparison", where(r), "health_status contains no comparison between two counted quantities")
        return "no comparison"
    bb, e, rs, cmp_local = cmp_switches[0]
    # which root is 'voters' (divided / doubled side) — decide by evaluation: predicate must be monotone increasing in active
    verdicts = []
    for (ia, iv) in ((0, 1), (1, 0)):
        okk = True
        for n in range(0, 9):
            for a in range(0, n + 1):
                env = {rs[ia]: a, rs[iv]: n}
                if od.evaluate(e, env) != (2 * a > n):
                    okk = False
        verdicts.append(okk)
    # the switch may be taken on the negation; accept exactly-majority either as the predicate or its negation
    if not any(verdicts):
        neg = []
        for (ia, iv) in ((0, 1), (1, 0)):
            okk = True
            for n in range(0, 9):
                for a in range(0, n + 1):
                    if od.evaluate(e, {rs[ia]: a, rs[iv]: n}) != (not (2 * a > n)):
                        okk = False
            neg.append(okk)
        if any(neg):
            verdicts = neg
            negated = True
        else:
            ctx.violation("R33a", "threshold-class", where(r, b.blocks[bb]["l"]), "quorum predicate %s is not a strict majority test (evaluated over 0<=a<=n<=8)" % od.show(e))
            return "threshold"
    else:
        negated = False
    ia, iv = (0, 1) if verdicts[0] else (1, 0)
    ctx.ok("R33a", "threshold", "%s%s == (2*active > voters) on all 45 (active, voters) pairs" % ("!" if negated else "", od.show(e)))
    # ---- R33b distinctness -------------------------------------------------------------------------
    sa = chain_has_set(b, rs[ia])
    sv = chain_has_set(b, rs[iv])
    if sa is None:
        ctx.violation("R33b", "active-voters-not-distinct", where(r, b.blocks[rs[ia][2]]["l"]), "active voters are counted with %s over a collection that is not a set of ids: duplicate ids in the node list inflate the count" % rs[ia][1])
    if sv is None:
        ctx.violation("R33b", "voters-not-distinct", where(r, b.blocks[rs[iv][2]]["l"]), "voters are counted with %s over a collection that is not a set of ids: duplicate ids in the node list inflate the count" % rs[iv][1])
    if sa is not None and sv is not None:
        if sa != sv:
            ctx.violation("R33b", "different-collections", where(r), "active voters and voters are counted over different collections (locals _%s / _%s)" % (sa, sv))
        else:
            # the set is built from voter ids
            src = od.expr_of_place(b, [sa, []], 0, set())
            txt = " ".join(receiver_chain(b, src))
            # the inlined form: config.nodes.iter().filter(|n| n.voter)...collect()
            inlined = False
            adapt = lambda cc: [0] if cc.path.rsplit("::", 1)[-1] in ("collect", "map", "filter", "iter", "into_iter", "copied", "cloned", "deref", "filter_map", "from_iter") else None
            og_ = b.origins(sa, through_calls=adapt)
            for o in og_:
                if o[0] == "via" and o[1].path.rsplit("::", 1)[-1] == "filter":
                    for a_ in o[1].args[1:]:
                        if a_[0] != "k":
                            for o2 in b.origins(a_[1][0]):
                                if o2[0] == "agg" and o2[1].startswith("closure:"):
                                    cr_ = F.fns.get(o2[1][8:])
                                    if cr_ and any(x.endswith("NodeConfig.voter") for x in cr_["r"]):
                                        inlined = True
            reads_nodes = any(f.endswith("ClusterConfig.nodes") for o in og_ if o[0] == "via" and o[1].args and o[1].args[0][0] != "k" for f in od.chain_fields(b, o[1].args[0]))
            if "ClusterConfig::voters" in txt or "NodeConfig" in txt or (inlined and reads_nodes):
                ctx.ok("R33b", "distinct-voters", "both counts are over set _%d built from %s" % (sa, od.show(src)))
            else:
                ctx.violation("R33b", "set-not-from-voters", where(r), "the id set is not built from the configuration's voters: %s" % od.show(src))
        # active filter must test membership in the active set
        cnt = rs[ia]
        filt_ok = False
        for c in b.calls():
            if c.path.rsplit("::", 1)[-1] == "filter":
                for a in c.args[1:]:
                    if a[0] != "k":
                        for o in b.origins(a[1][0]):
                            if o[0] == "agg" and o[1].startswith("closure:"):
                                cr = F.fns.get(o[1][8:])
                                if cr and any(x.endswith("::contains") for x in cr["calls"]):
                                    filt_ok = True
        if filt_ok:
            ctx.ok("R33b", "active-membership", "the active count filters by membership in the active-node set")
        else:
            ctx.violation("R33b", "active-filter", where(r), "active voters are not selected by membership in the active-node set")
    # ---- R33d a removed member is no voting member any more -----------------------------------------------------
    ctx.rule("R33d", "removing a member removes every configuration entry that names its id (the node list may name an id more than once): ClusterManager::remove_node edits ClusterConfig.nodes with retain, or with single-element removals inside a loop — a first-match removal leaves a removed node among the voters")
    rn = [x for p, x in F.fns.items() if p.startswith("samyama::raft::cluster::ClusterManager::remove_node") and x["coroutine"]]
    if len(rn) != 1:
        ctx.anchor_failure("R33d", "ClusterManager::remove_node coroutine body (found %d)" % len(rn))
    else:
        rr = rn[0]
        rb = Body(F.mir(rr["path"]), rr)
        ctx.saw_fn(rr["path"])
        edits = []
        for c in rb.calls():
            if not c.args or c.args[0][0] == "k":
                continue
            ty = rb.local_ty(c.args[0][1][0])
            if not ty.startswith("&mut std::vec::Vec<samyama::raft::cluster::NodeConfig"):
                continue
            if not any(f.endswith("ClusterConfig.nodes") for f in od.chain_fields(rb, c.args[0])):
                continue
            edits.append(c)
        if not edits:
            ctx.violation("R33d", "remove_node|no-edit", where(rr), "remove_node does not edit the configuration's node list through a recognised call: the removal is not analysed")
        for c in edits:
            name = c.path.rsplit("::", 1)[-1]
            in_loop = any(c.bb in rb.reachable(s_) for s_ in rb.succ(c.bb))
            if name == "retain":
                cl = [o[1][8:] for a in c.args[1:] if a[0] != "k" for o in rb.origins(a[1][0]) if o[0] == "agg" and o[1].startswith("closure:")]
                reads_id = any(any(x.endswith("NodeConfig.id") for x in F.fns.get(k_, {}).get("r", ())) for k_ in cl)
                if reads_id:
                    ctx.ok("R33d", "remove_node|retain", "every entry is tested by id")
                else:
                    ctx.violation("R33d", "remove_node|retain-not-by-id", where(rr, c.line), "the retain predicate does not read NodeConfig.id")
            elif name in ("remove", "swap_remove", "pop") and in_loop:
                ctx.ok("R33d", "remove_node|loop-" + name, "single-element removal repeated in a loop")
            elif name in ("remove", "swap_remove", "pop"):
                ctx.violation("R33d", "remove_node|first-match-only", where(rr, c.line), "remove_node deletes one entry (Vec::%s outside a loop): a second entry naming the same id survives, and the removed node keeps counting as a voter" % name)
            elif name in ("iter", "iter_mut", "len", "is_empty", "deref", "deref_mut", "as_slice", "as_mut_slice"):
                continue
            else:
                ctx.violation("R33d", "remove_node|" + name, where(rr, c.line), "removal through Vec::%s is not analysed" % name)
    # ---- R33c conjunction with has_leader ------------------------------------------------------------
    for _ in range(6):
        ds1 = b.defs().get(hl, [])
        if len(ds1) == 1 and ds1[0][0] == "stmt" and ds1[0][4][0] == "use" and ds1[0][4][1][0] != "k" and not ds1[0][4][1][1][1]:
            hl = ds1[0][4][1][1][0]
        else:
            break

    def is_leader_val(l):
        og = b.origins(l)
        return any(o[0] == "call" and o[1].path.rsplit("::", 1)[-1] in ("any", "is_some", "contains_key", "find") and ("NodeMetadata" in o[1].full or "metadata" in o[1].full.lower()) for o in og)

    def is_cmp_val(l):
        return l == cmp_local or cmp_local in od.chain_locals(b, ["c", [l, []]])

    def guard_of(block):
        """locals whose `true` switch edge every path to `block` passes"""
        out = []
        for sb in b.live_blocks():
            t = b.blocks[sb]["t"]
            if t[0] == "switch" and t[1][0] != "k" and b.dominates(sb, block) and sb != block:
                false_t = [tgt for v, tgt in t[2] if v == "0"]
                if false_t and block not in b.reachable(false_t[0], avoid={sb}) and block in b.reachable(t[3], avoid={sb}):
                    out.append(t[1][1][0])
        return out

    defs = b.defs().get(hl, [])
    good = bool(defs)
    conj = False
    why = ""
    for d in defs:
        if d[0] != "stmt":
            good = False
            continue
        rv2 = d[4]
        if rv2[0] == "use" and rv2[1][0] == "k":
            if rv2[1][1].strip() != "const false":
                good = False
                why = "healthy is constant true on a path"
            continue
        if rv2[0] == "bin" and rv2[1] == "BitAnd":
            ls = [o[1][0] for o in rv2[2:4] if o[0] != "k"]
            if len(ls) == 2 and any(is_cmp_val(x) for x in ls) and any(is_leader_val(x) for x in ls):
                conj = True
                continue
        vals = [o[1][0] for o in ([rv2[1]] if rv2[0] == "use" else rv2[2:4] if rv2[0] == "bin" else []) if o[0] != "k"]
        if rv2[0] == "bin" and rv2[1] in od.CMP and d[3][0] == cmp_local:
            vals = [cmp_local]
        guards = guard_of(d[1])
        if any(is_leader_val(v) for v in vals) and any(is_cmp_val(g) or cmp_local in od.chain_locals(b, ["c", [g, []]]) for g in guards):
            conj = True
        elif any(is_cmp_val(v) for v in vals) and any(is_leader_val(g) for g in guards):
            conj = True
        else:
            good = False
            why = "a definition of healthy is neither (leader under quorum) nor (quorum under leader)"
    if negated:
        good = False
        why = "the quorum test is used negated"
    if good and conj:
        ctx.ok("R33c", "healthy-conjunction", "healthy = quorum && has_leader (false otherwise)")
    else:
        ctx.violation("R33c", "healthy-conjunction", where(r, line), "`healthy` is not the conjunction of the strict-majority test and the leader test" + (": " + why if why else ""))
    ctx.assumptions.append("two strict majorities of one finite set intersect (standard counting lemma; not re-proved)")
    return ("Decided: health_status counts voters and active voters over one set of voter ids (so repeated ids cannot inflate either side), "
            "the threshold expression extracted from MIR equals 2*active > voters on the whole table 0<=active<=voters<=8 whatever its spelling, "
            "and healthy is its conjunction with the leader test. With the counting lemma this is the property's statement for health_status.")
