"""C25 — the parser never silently changes numbers: the Result of every numeric parse in
query::parser is propagated as a parse error; parsed numbers pass no narrowing cast.
(The panic inventory of the parser is reported as evidence, not claimed.)"""
from ..cfg import Body
from ..report import where
from ..facts import in_module
from .. import taint

LEVEL = "other"
MOD = "samyama::query::parser"
PROPAGATING = ("map_err", "branch", "or_else", "ok_or", "ok_or_else", "map", "and_then")
SWALLOWING = ("ok", "unwrap", "expect", "unwrap_or", "unwrap_or_default", "unwrap_or_else", "is_ok", "is_err", "unwrap_unchecked", "err")
# reviewed exceptions: site key -> reason
EXCEPTIONS = {
    "unescape_string_literal|from_str_radix|0": "not a numeral: the hex digits of a \\\\uXXXX string escape; an invalid escape is kept verbatim in the string (lenient unescape), no number is produced or replaced",
}


def consumers(b, local, depth=0):
    """What happens to a parse result: list of (kind, call/None)."""
    out = []
    for u in b.uses_of(local):
        if u[0] == "call":
            c = u[1]
            m = c.path.rsplit("::", 1)[-1]
            out.append((m, c))
        elif u[0] == "stmt":
            rv = u[4]
            pl = u[3]
            if rv[0] == "discr":
                out.append(("match", None))
            elif rv[0] in ("use", "ref") and depth < 3 and not pl[1]:
                out += consumers(b, pl[0], depth + 1)
        elif u[0] == "switch":
            out.append(("match", None))
    return out


def run(ctx, F, cg):
    ctx.rule("R25a", "the Result of every numeric str::parse / from_str_radix in query::parser is propagated (map_err / `?` / matched), never unwrapped, defaulted or turned into None")
    ctx.rule("R25b", "a parsed number passes no narrowing or sign-changing `as` cast")
    fns = {p: r for p, r in F.fns.items() if in_module(p, MOD)}
    ctx.floor("R25a", "parser functions", len(fns), 50)
    nsites = 0
    ncasts = 0
    helpers = set()
    # generic parse helpers (fn f<T: FromStr>(..) -> ParseResult<T> wrapping str::parse::<T>): their call sites are parse sites too
    helpers_known = {p for p, r in fns.items() if "FromStr" in r["sig"] or any(c.endswith("::parse") for c in r["calls"]) and "<T" in r["sig"]}
    for p, r in fns.items():
        m = F.mir(p)
        if m and any(blk["t"][0] == "call" and (blk["t"][1].get("g", "").endswith("::parse::<T>")) for blk in m["blocks"]):
            helpers_known.add(p)
    inventory = {"unwrap": 0, "expect": 0, "index": 0}
    for p, r in sorted(fns.items()):
        cs = r["calls"]
        for c in cs:
            m = c.rsplit("::", 1)[-1]
            if m in ("unwrap", "expect") and ("Option" in c or "Result" in c):
                inventory[m] += 1
        if not any(("::parse" in c and "str" in c) or "from_str_radix" in c or c in helpers_known for c in cs):
            continue
        b = Body(F.mir(p), r)
        ctx.saw_fn(p); ctx.saw_calls(len(b.calls()))
        short = p.replace(MOD + "::", "")
        ordn = {}
        for c in b.calls():
            ty = taint.is_numeric_parse(c) or ("float" if taint.is_float_parse(c) else None)
            if not ty and c.full.endswith("::parse::<T>"):
                ty = "T (generic helper)"
                helpers.add(p)
            if not ty and c.path in helpers_known and any(c.full.endswith("::<%s>" % t) for t in taint.NUM_TYPES + ("f64", "f32")):
                ty = c.full[c.full.rfind("::<") + 3:-1] + " via " + c.path.rsplit("::", 1)[-1]
            if not ty:
                continue
            nsites += 1
            m = "from_str_radix" if "from_str_radix" in c.path else ("parse" if c.path not in helpers_known else c.path.rsplit("::", 1)[-1])
            k = ordn.get(m, 0)
            ordn[m] = k + 1
            inst = "%s|%s|%d" % (short, m, k)
            cons = consumers(b, c.dest[0])
            kinds = [x[0] for x in cons]
            bad = [x for x in kinds if x in SWALLOWING]
            good = [x for x in kinds if x in PROPAGATING or x == "match"]
            if inst in EXCEPTIONS and bad:
                ctx.ok("R25a", inst, "reviewed exception: " + EXCEPTIONS[inst])
            elif bad:
                ctx.violation("R25a", inst, where(r, c.line), "the result of %s::<%s> goes to .%s(): an out-of-range or malformed number is silently replaced (e.g. an unparsable LIMIT disappears and every row is returned) or panics" % (m, ty, bad[0]))
            elif good:
                ctx.ok("R25a", inst, "propagated through %s" % sorted(set(good)))
            else:
                ctx.violation("R25a", inst, where(r, c.line), "cannot see the result of %s being handled (consumers: %s)" % (m, kinds))
        tr = taint.compute_taint(b, source_pred=lambda c: taint.is_numeric_parse(c))
        for s in taint.find_sinks(b, tr):
            if s["kind"].startswith("cast-"):
                ncasts += 1
                ctx.violation("R25b", "%s|%s" % (short, s["kind"]), where(r, s["line"]), "a parsed number is cast with `as` (%s): an out-of-range value is wrapped or truncated instead of reported" % s["desc"])
    ctx.floor("R25a", "numeric parse sites in the parser", nsites, 12)
    if ncasts == 0:
        ctx.ok("R25b", "no-narrowing-casts", "no `as` cast on a value derived from a numeric parse in %d functions" % len(fns))
    ctx.note("panic-capable call inventory of the parser module (evidence only, not claimed): %s" % inventory)
    return ("Decided: the numeric clause — every numeric parse result in the parser is surfaced as an error (no unwrap / default / .ok()), and parsed numbers are not "
            "narrowed by casts. Not decided (reported as inventory only): that the remaining unwrap/index sites over pest pairs cannot panic; that accepted numerals denote the same value.")
