"""C25 — the parser never panics and never silently changes numbers: the Result of every numeric
parse in query::parser is propagated as a parse error; parsed numbers pass no narrowing cast; the
panic-capable sites of the parser are exactly the reviewed set (grammar-dependent arguments are
re-checked against cypher.pest)."""
from ..cfg import Body
from ..report import where
from .. import orderdom as od
from ..facts import in_module
from .. import taint

LEVEL = "other"
MOD = "samyama::query::parser"
PROPAGATING = ("map_err", "branch", "or_else", "ok_or", "ok_or_else", "map", "and_then")
SWALLOWING = ("ok", "unwrap", "expect", "unwrap_or", "unwrap_or_default", "unwrap_or_else", "is_ok", "is_err", "unwrap_unchecked", "err")
# reviewed exceptions: site key -> reason
EXCEPTIONS = {
    "unescape_string_literal|from_str_radix|0": "not a numeral: the hex digits of a \\\\uXXXX string escape; an invalid escape is kept verbatim in the string (lenient unescape), no number is produced or replaced",
}


G = None
# reviewed panic-capable sites of query::parser: key -> (argument, grammar fact it leans on or None)
PANIC_REVIEWED = {
    "parse_predicate_function|position-call:remove|0": ("expressions.remove(0) after `expressions.len() < 2` returned an error just above", ""),
    "parse_predicate_function|position-call:remove|1": ("second expressions.remove(0): at least two elements were checked, one removed", ""),
    "parse_case_expression|position-call:remove|0": ("exprs.remove(0) inside `if exprs.len() == 2`", ""),
    "parse_case_expression|position-call:remove|1": ("second exprs.remove(0) inside `if exprs.len() == 2`", ""),
    "parse_path|position-call:remove|0": ("nodes.remove(0) after `nodes.is_empty()` returned an error", ""),
    "parse_expression|index|0": ("terms[i] with i < ops.len() and terms.len() == ops.len() + 1 checked on the line above", G),
    "parse_expression|index|1": ("terms[i + 1] with i < ops.len() and terms.len() == ops.len() + 1", G),
    "parse_expression|assert:overflow:Add|0": ("ops.len() + 1 on a Vec length", G),
    "parse_expression|assert:overflow:Add|1": ("ops.len() + 1 on a Vec length", G),
    "parse_expression|assert:overflow:Add|2": ("i + 1 with i < ops.len()", G),
    "parse_expression::{closure#1}|assert:bounds|0": ("w[0] on a windows(2) slice (always length 2)", G),
    "parse_expression::{closure#1}|assert:bounds|1": ("w[1] on a windows(2) slice (always length 2)", G),
    "parse_integer_literal|assert:overflow:Neg|0": ("negation of an i128 magnitude parsed from at most a u64-sized digit string accepted by from_str_radix; i128::MIN cannot be produced from a non-negative digit string", G),
    "parse_length_pattern|index|0": ("parts[0]: str::split always yields at least one piece", G),
    "parse_length_pattern|index|1": ("parts[0]: as above", G),
    "parse_length_pattern|index|2": ("parts[1] guarded by parts.len() > 1 in the same condition", G),
    "parse_length_pattern|index|3": ("parts[1] on the branch where parts.len() > 1 held", G),
    "parse_match_statement|unwrap|0": ("with_clause.take().unwrap() directly under `if query.with_clause.is_some()`", G),
    "parse_primary|index|0": ("as_str()[1..] of a `parameter` pair: the token starts with the one-byte '$'", "parameter-starts-with-dollar"),
    "parse_property_access|index|0": ("parts[0] after `parts.len() != 2` returned an error", G),
    "parse_property_access|index|1": ("parts[1] after `parts.len() != 2` returned an error", G),
    "parse_reduce_expression|index|0": ("variables[0] after `variables.len() < 2 || expressions.len() < 3` returned an error", G),
    "parse_reduce_expression|index|1": ("expressions[0]: same guard", G),
    "parse_reduce_expression|index|2": ("variables[1]: same guard", G),
    "parse_reduce_expression|index|3": ("expressions[1]: same guard", G),
    "parse_reduce_expression|index|4": ("expressions[2]: same guard", G),
    "parse_remove_clause|index|0": ("children[0] guarded by children.len() == 1 in the same condition", G),
    "parse_remove_clause|index|1": ("children[0] on the branch where children.len() == 1 held", G),
    "parse_term|index|0": ("prefix_ops[0] guarded by prefix_ops.len() == 1 in the same condition", G),
    "parse_term|unwrap|0": ("primary_pair.unwrap(): every `term` has exactly one mandatory `primary` child", "term-has-primary"),
    "parse_term|unwrap|1": ("slice_start's inner.next().unwrap(): slice_start = { expression }", "slice_start-is-expression"),
    "parse_term|unwrap|2": ("slice_end's inner.next().unwrap(): slice_end = { expression }", "slice_end-is-expression"),
    "parse_term|assert:bounds|0": ("text.as_bytes()[1] guarded by text.len() > 2 in the same && chain", G),
    "parse_yield_item|index|0": ("inner[0] under inner.len() >= 1", G),
    "parse_yield_item|index|1": ("inner[1] under inner.len() >= 2", G),
    "unescape_string_literal|index|0": ("literal[1..len-1] of a `string` token, which begins and ends with a one-byte quote (len >= 2, char boundaries)", "string-is-quoted"),
    # function-level entries (one named symbol each): every site of the function shares one argument
    "check_nesting_depth|*": ("byte scanner over `input.as_bytes()`: every bytes[i] is evaluated under `i < bytes.len()` (loop condition or the left operand of the same &&), every `i + k` / `depth + 1` is bounded by the slice length (<= isize::MAX) or by MAX_NESTING_DEPTH + 1, bytes[i - 1] is behind the `i == 0 ||` test", G),
    "check_nesting_depth::{closure#0}|*": ("is_word(): the range bytes[i..i + w.len()] is behind `bytes.len() >= i + w.len()` in the same && chain", G),
    "unescape_string_literal|assert:overflow:Sub|0": ("literal.len() - 1 with len >= 2 (quoted token)", "string-is-quoted"),
}


def consumers(b, local, depth=0):
    """What happens to a parse result: list of (kind, call/None)."""
    out = []
    for u in b.uses_of(local):
        if u[0] == "call":
            c = u[1]
            m = c.path.rsplit("::", 1)[-1]
            out.append((m, c))
        elif u[0] == "stmt":
            rv = u[4]
            pl = u[3]
            if rv[0] == "discr":
                out.append(("match", None))
            elif rv[0] in ("use", "ref") and depth < 3 and not pl[1]:
                out += consumers(b, pl[0], depth + 1)
        elif u[0] == "switch":
            out.append(("match", None))
    return out


def run(ctx, F, cg):
    ctx.rule("R25a", "the Result of every numeric str::parse / from_str_radix in query::parser is propagated (map_err / `?` / matched), never unwrapped, defaulted or turned into None")
    ctx.rule("R25b", "a parsed number passes no narrowing or sign-changing `as` cast")
    fns = {p: r for p, r in F.fns.items() if in_module(p, MOD)}
    ctx.floor("R25a", "parser functions", len(fns), 50)
    nsites = 0
    ncasts = 0
    helpers = set()
    # generic parse helpers (fn f<T: FromStr>(..) -> ParseResult<T> wrapping str::parse::<T>): their call sites are parse sites too
    helpers_known = {p for p, r in fns.items() if "FromStr" in r["sig"] or any(c.endswith("::parse") for c in r["calls"]) and "<T" in r["sig"]}
    for p, r in fns.items():
        m = F.mir(p)
        if m and any(blk["t"][0] == "call" and (blk["t"][1].get("g", "").endswith("::parse::<T>")) for blk in m["blocks"]):
            helpers_known.add(p)
    inventory = {"unwrap": 0, "expect": 0, "index": 0}
    for p, r in sorted(fns.items()):
        cs = r["calls"]
        for c in cs:
            m = c.rsplit("::", 1)[-1]
            if m in ("unwrap", "expect") and ("Option" in c or "Result" in c):
                inventory[m] += 1
        if not any(("::parse" in c and "str" in c) or "from_str_radix" in c or c in helpers_known for c in cs):
            continue
        b = Body(F.mir(p), r)
        ctx.saw_fn(p); ctx.saw_calls(len(b.calls()))
        short = p.replace(MOD + "::", "")
        ordn = {}
        for c in b.calls():
            ty = taint.is_numeric_parse(c) or ("float" if taint.is_float_parse(c) else None)
            if not ty and c.full.endswith("::parse::<T>"):
                ty = "T (generic helper)"
                helpers.add(p)
            if not ty and c.path in helpers_known and any(c.full.endswith("::<%s>" % t) for t in taint.NUM_TYPES + ("f64", "f32")):
                ty = c.full[c.full.rfind("::<") + 3:-1] + " via " + c.path.rsplit("::", 1)[-1]
            if not ty:
                continue
            nsites += 1
            m = "from_str_radix" if "from_str_radix" in c.path else ("parse" if c.path not in helpers_known else c.path.rsplit("::", 1)[-1])
            k = ordn.get(m, 0)
            ordn[m] = k + 1
            inst = "%s|%s|%d" % (short, m, k)
            cons = consumers(b, c.dest[0])
            kinds = [x[0] for x in cons]
            bad = [x for x in kinds if x in SWALLOWING]
            good = [x for x in kinds if x in PROPAGATING or x == "match"]
            if inst in EXCEPTIONS and bad:
                ctx.ok("R25a", inst, "reviewed exception: " + EXCEPTIONS[inst])
            elif bad:
                ctx.violation("R25a", inst, where(r, c.line), "the result of %s::<%s> goes to .%s(): an out-of-range or malformed number is silently replaced (e.g. an unparsable LIMIT disappears and every row is returned) or panics" % (m, ty, bad[0]))
            elif good:
                ctx.ok("R25a", inst, "propagated through %s" % sorted(set(good)))
            else:
                ctx.violation("R25a", inst, where(r, c.line), "cannot see the result of %s being handled (consumers: %s)" % (m, kinds))
        tr = taint.compute_taint(b, source_pred=lambda c: taint.is_numeric_parse(c))
        for s in taint.find_sinks(b, tr):
            if s["kind"].startswith("cast-"):
                ncasts += 1
                ctx.violation("R25b", "%s|%s" % (short, s["kind"]), where(r, s["line"]), "a parsed number is cast with `as` (%s): an out-of-range value is wrapped or truncated instead of reported" % s["desc"])
    ctx.floor("R25a", "numeric parse sites in the parser", nsites, 12)
    if ncasts == 0:
        ctx.ok("R25b", "no-narrowing-casts", "no `as` cast on a value derived from a numeric parse in %d functions" % len(fns))
    # ---- R25c panic inventory ------------------------------------------------------------------------------------
    ctx.rule("R25c", "every panic-capable site in query::parser (unwrap/expect/panic, slice and Vec indexing, arithmetic/bounds asserts) is in the reviewed table with its argument; arguments that lean on the grammar are re-checked against cypher.pest on every run; any new site is reported")
    from .. import grammar
    from ..facts import REPO
    rules_g = grammar.load(REPO)

    def g_mandatory_child(rule, child):
        body = rules_g.get(rule, "")
        import re as _re
        return bool(_re.search(r"(^|[\s(~|])%s(\s*[~)|]|\s*$)" % child, body)) and not _re.search(r"%s\s*[?*]" % child, body)
    GRAMMAR_FACTS = {
        "term-has-primary": g_mandatory_child("term", "primary"),
        "slice_start-is-expression": rules_g.get("slice_start", "").strip() == "expression",
        "slice_end-is-expression": rules_g.get("slice_end", "").strip() == "expression",
        "parameter-starts-with-dollar": rules_g.get("parameter", "").strip().startswith('"$"'),
        "string-is-quoted": all(a.strip().startswith(("\"\\\"\"", "\"'\"")) and a.strip().endswith(("\"\\\"\"", "\"'\"")) for a in grammar.top_alternatives(rules_g.get("string", "x"))),
    }
    nsite = 0
    for p, r in sorted(fns.items()):
        m = F.mir(p)
        if m is None:
            continue
        b = Body(m, r)
        short = p.replace(MOD + "::", "")
        ordn = {}
        sites = []
        for c in b.calls():
            mm = c.path.rsplit("::", 1)[-1]
            if mm in ("unwrap", "expect", "unwrap_unchecked") and ("Option" in c.path or "Result" in c.path):
                sites.append(("unwrap", c.line))
            elif c.path.startswith(("core::panicking", "std::rt::panic", "std::panicking")) or mm in ("panic", "unreachable", "panic_fmt", "begin_panic", "unreachable_display"):
                sites.append(("panic", c.line))
            elif mm in ("index", "index_mut") and ("Index" in c.path or "index" in c.path) and "RangeFull" not in c.full:
                sites.append(("index", c.line))
            elif mm in ("split_at", "split_at_mut", "split_off", "swap_remove", "copy_from_slice", "clone_from_slice", "swap", "rotate_left", "rotate_right", "insert_str", "remove") and ("str" in c.path or "slice" in c.path or "Vec" in c.path or "String" in c.path):
                # std calls that panic on an out-of-range position or a non-char-boundary
                sites.append(("position-call:" + mm, c.line))
        for i in sorted(b.live_blocks()):
            t = b.blocks[i]["t"]
            if t[0] == "assert":
                sites.append(("assert:" + t[1], b.blocks[i]["l"]))
        for kind, line in sites:
            nsite += 1
            k = ordn.get(kind, 0)
            ordn[kind] = k + 1
            inst = "%s|%s|%d" % (short, kind, k)
            ent = PANIC_REVIEWED.get(inst) or PANIC_REVIEWED.get(short + "|*")
            if ent is None:
                ctx.violation("R25c", inst + "|unreviewed", where(r, line), "a panic-capable site (%s) in the parser is not in the reviewed table: a crafted query may crash the server" % kind)
                continue
            why, gfact = ent
            if gfact and not GRAMMAR_FACTS.get(gfact, False):
                ctx.violation("R25c", inst + "|grammar-fact|" + gfact, where(r, line), "the argument for this site (%s) relies on the grammar fact `%s`, which no longer holds in cypher.pest" % (why, gfact))
            else:
                ctx.ok("R25c", inst, why + (" [grammar: %s]" % gfact if gfact else ""))
    ctx.floor("R25c", "panic-capable sites in the parser", nsite, 25)
    # ---- R25e: float literals that overflow are refused ---------------------------------------------------------------
    ctx.rule("R25e", "str::parse::<f64> answers infinity for a literal that does not fit, it does not fail: every function of the parser that parses a float literal tests the result with is_finite / is_infinite before using it")
    n_fp = 0
    for p_, r_ in sorted(fns.items()):
        m_ = F.mir(p_)
        if m_ is None:
            continue
        b_ = Body(m_, r_)
        fps = [c for c in b_.calls() if (c.path.rsplit("::", 1)[-1] in ("parse", "from_str")) and ("f64" in c.full or "f32" in c.full)]
        for k_, c in enumerate(fps):
            n_fp += 1
            derived = b_.forward_taint({c.dest[0]}, through_calls=lambda cc, ix: cc.path.rsplit("::", 1)[-1] in ("map_err", "branch", "unwrap_or", "ok", "map"))
            tested = [cc for cc in b_.calls() if cc.path.rsplit("::", 1)[-1] in ("is_finite", "is_infinite", "is_nan") and cc.args and cc.args[0][0] != "k" and (od.chain_locals(b_, cc.args[0]) & derived or cc.args[0][1][0] in derived)]
            inst = "%s|float-parse|%d" % (p_.replace(MOD + "::", ""), k_)
            if tested:
                ctx.ok("R25e", inst, "result tested with %s" % tested[0].path.rsplit("::", 1)[-1])
            else:
                ctx.violation("R25e", inst + "|overflow-becomes-infinity", where(r_, c.line), "a float literal is parsed without a finiteness test: `1e999` becomes infinity instead of an out-of-range error")
    ctx.floor("R25e", "float literal parses in the parser", n_fp, 1)
    # ---- R25d bounded recursion depth -------------------------------------------------------------------------
    ctx.rule("R25d", "parse_query runs a nesting-depth guard before the recursive pest parser: a local function that counts the opening brackets, compares the depth with a constant and returns an error, whose result is propagated with `?` and which dominates every CypherParser::parse call")
    from .. import consts as _consts
    pq = F.fn("query::parser::parse_query")
    pb = Body(F.mir(pq["path"]), pq)
    pest_calls = [c for c in pb.calls() if c.path.endswith("Parser>::parse") or c.path.endswith("::parse") and "CypherParser" in c.full]
    # pipeline entry points that call the pest parser themselves must be reached only through parse_query's guard
    guards = []
    for c in pb.calls():
        if c.path in fns and c.path != pq["path"]:
            gb = Body(F.mir(c.path), fns[c.path])
            chars = _consts.char_set(F, c.path)
            has_cmp = any(rv[0] == "bin" and rv[1] in ("Gt", "Ge", "Lt", "Le") and any(o[0] == "k" for o in rv[2:4]) for i, j, pl, rv, line, exp in gb.stmts())
            has_err = any(rv[0] == "agg" and rv[1].endswith("Result::Err") for i, j, pl, rv, line, exp in gb.stmts())
            if {"(", "[", "{"} <= chars and has_cmp and has_err:
                prop = any(cc.path.endswith("Try>::branch") and cc.args and cc.args[0][0] != "k" and cc.args[0][1][0] == c.dest[0] for cc in pb.calls())
                guards.append((c, prop))
    if not pest_calls:
        ctx.anchor_failure("R25d", "CypherParser::parse call in parse_query")
    elif not guards:
        ctx.violation("R25d", "parse_query|no-depth-guard", where(pq), "the recursive parser is entered without bounding the nesting depth: a few hundred nested parentheses overflow the stack and abort the process")
    else:
        g, prop = guards[0]
        if prop and all(pb.dominates(g.bb, c.bb) for c in pest_calls):
            ctx.ok("R25d", "parse_query|depth-guard", "%s()? dominates %d pest parse call(s)" % (g.path.rsplit("::", 1)[-1], len(pest_calls)))
        else:
            ctx.violation("R25d", "parse_query|depth-guard-bypassed", where(pq, g.line), "the nesting guard does not dominate every entry into the recursive parser, or its error is dropped")
    others = [p for p, r in fns.items() if p != pq["path"] and r["vis"] == "pub" and any(c.endswith("Parser>::parse") for c in r["calls"])]
    for o_ in others:
        ctx.violation("R25d", "unguarded-entry|" + o_.replace(MOD + "::", ""), where(fns[o_]), "public parser entry point %s reaches the recursive parser without going through parse_query's nesting guard" % o_)
    return ("Decided: the numeric clause — every numeric parse result in the parser is surfaced as an error (no unwrap / default / .ok()), and parsed numbers are not "
            "narrowed by casts. Not decided (reported as inventory only): that the remaining unwrap/index sites over pest pairs cannot panic; that accepted numerals denote the same value.")
