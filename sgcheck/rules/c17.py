"""C17 — persistent storage never mixes tenants: prefix scans stop at the prefix, tenant ids
cannot contain the key separator, key builders / scan prefixes / tenant listing agree on it."""
from ..cfg import Body, name_matches
from ..report import where
from .. import consts
from .. import orderdom as od

LEVEL = "other"
STORE = "samyama::persistence::storage::PersistentStorage::"
DB_OPS = ("put_cf", "get_cf", "delete_cf", "prefix_iterator_cf", "iterator_cf", "get_pinned_cf", "merge_cf", "delete_range_cf", "write", "multi_get_cf")
CONSUMERS = ("deserialize", "push", "insert", "extend", "from_slice", "deserialize_from")


def separator_after_first_arg(parts):
    """The literal that directly follows the first placeholder of a format template."""
    for i, p in enumerate(parts):
        if p[0] == "arg":
            if i + 1 < len(parts) and parts[i + 1][0] == "lit":
                return parts[i + 1][1]
            return ""
    return None


def _chain_form(F, b, it, prefix_locals):
    """The iterator-chain spelling of the scan loop: `iter.map_while(|row| .. key.starts_with(prefix) ..)` — the closure
    yields `Some` only on the true side of a starts_with test against the prefix the iterator itself was given, so
    everything downstream of the adaptor sees this tenant's rows only."""
    adapt = lambda cc: [0] if cc.path.rsplit("::", 1)[-1] in ("map", "filter", "into_iter", "by_ref", "peekable", "inspect", "enumerate") else None
    for mw in b.calls():
        if mw.path.rsplit("::", 1)[-1] not in ("map_while", "take_while") or len(mw.args) < 2 or mw.args[0][0] == "k":
            continue
        og = b.origins(mw.args[0][1][0], through_calls=adapt)
        if not any(o[0] in ("call", "via") and o[1] is it for o in og):
            continue
        co = od.closure_of(b, mw.args[1])
        if not co or F.mir(co[0]) is None:
            continue
        if not any(a[0] != "k" and (od.chain_locals(b, a) & prefix_locals) for a in co[1]):
            return False, "the closure does not capture the prefix the iterator was given"
        cb = Body(F.mir(co[0]), F.fns.get(co[0]))
        for c in cb.calls():
            if c.path.rsplit("::", 1)[-1] != "starts_with" or c.target is None:
                continue
            sb_, t = cb.switch_on(c.dest[0], c.target)
            if t is None:
                continue
            zero = [tgt for v, tgt in t[2] if v == "0"]
            if not zero:
                continue
            fail = cb.reachable(zero[0], avoid={sb_})
            if mw.path.endswith("map_while"):
                yields = [i for i, j, pl, rv, line, exp in cb.stmts() if rv[0] == "agg" and rv[1].endswith("Option::Some") and not (pl[0] != 0 and "Option<" not in cb.local_ty(0))]
                yields = [i for i, j, pl, rv, line, exp in cb.stmts() if rv[0] == "agg" and rv[1].endswith("Option::Some") and cb.local_ty(pl[0]) == cb.local_ty(0)]
            else:
                yields = [i for i, j, pl, rv, line, exp in cb.stmts() if pl[0] == 0 and rv[0] == "use" and rv[1][0] == "k" and rv[1][1].strip() == "const true"]
            # rows that are read errors may be passed on (they carry no key); a row with a key is yielded only after the test
            keyed = [i for i in yields if cb.dominates(sb_, i)]
            leaking = [i for i in keyed if i in fail]
            if keyed and not leaking:
                return True, "iterator chain: %s yields a keyed row only on the true side of starts_with(key, prefix)" % mw.path.rsplit("::", 1)[-1]
            if leaking:
                return False, "a keyed row is yielded on the failing side of the prefix test"
    return False, "no map_while / take_while over this iterator with a prefix test"


def run(ctx, F, cg):
    ctx.rule("R17a", "every loop over prefix_iterator_cf tests each key against the scan prefix before using the record; the failing side never reaches a use of the record in that iteration")
    ctx.rule("R17b", "every storage entry point taking a tenant id validates it (rejects ids containing the key separator) before any RocksDB operation")
    ctx.rule("R17c", "node keys, edge keys, scan prefixes and the tenant listing use one separator, which directly follows the tenant id")
    fns = {p: r for p, r in F.fns.items() if p.startswith(STORE) and "{closure" not in p}
    ctx.floor("R17", "PersistentStorage methods", len(fns), 10)
    seps = {}
    # ---- R17c: separators ------------------------------------------------------------------------
    for p, r in sorted(fns.items()):
        b = Body(F.mir(p), r)
        short = p.replace(STORE, "")
        strparams = [i for i in range(1, b.argc + 1) if b.local_ty(i).replace("'_ ", "") == "&str"]
        for line, parts in consts.format_templates(b):
            # only templates whose first argument is the tenant parameter
            if not any(x[0] == "arg" for x in parts):
                continue
            if short in ("node_key", "edge_key") or short.startswith("scan_"):
                sep = separator_after_first_arg(parts)
                if sep is not None:
                    seps.setdefault(short, []).append(sep)
    ctx.floor("R17c", "key/prefix format templates", sum(len(v) for v in seps.values()), 2)
    first = {s[0] if s else "" for v in seps.values() for s in v}
    if len(first) != 1 or "" in first:
        ctx.violation("R17c", "separator-mismatch", "src/persistence/storage.rs", "key builders and scan prefixes do not share one separator right after the tenant id: %s" % seps)
        sepc = None
    else:
        sepc = first.pop()
        ctx.ok("R17c", "separator", "tenant id is followed by %r in %s" % (sepc, sorted(seps)))
    # scan prefix must be exactly tenant + separator (a longer literal would be a different key space)
    for k, v in seps.items():
        if k.startswith("scan_"):
            for s in v:
                if s != sepc:
                    ctx.violation("R17c", "scan-prefix|" + k, "src/persistence/storage.rs", "scan prefix literal %r is not the bare separator" % s)
    # tenant listing splits on the same separator
    lp = F.fn_opt(STORE + "list_persisted_tenants")
    if lp is None:
        ctx.anchor_failure("R17c", "PersistentStorage::list_persisted_tenants")
    else:
        b = Body(F.mir(lp["path"]), lp)
        ctx.saw_fn(lp["path"])
        sp = [c for c in b.calls() if c.path.rsplit("::", 1)[-1] in ("split", "split_once", "splitn", "find")]
        chars = set()
        for c in sp:
            chars |= consts.closure_arg_chars(F, b, c)
        if sepc and chars == {sepc}:
            ctx.ok("R17c", "listing-separator", "list_persisted_tenants splits keys on %r" % sepc)
        else:
            ctx.violation("R17c", "listing-separator", where(lp), "tenant listing splits on %r, keys use %r" % (sorted(chars), sepc))
    # ---- R17a: scans ------------------------------------------------------------------------------------
    nscan = 0
    for p, r in sorted(fns.items()):
        b = Body(F.mir(p), r)
        its = [c for c in b.calls() if c.path.rsplit("::", 1)[-1] in ("prefix_iterator_cf", "prefix_iterator", "iterator_cf", "iterator", "full_iterator_cf", "raw_iterator_cf", "iterator_cf_opt")]
        tenant_params = [i for i in range(1, b.argc + 1) if b.local_ty(i).replace("'_ ", "") == "&str" and (b.local_name(i) or "").startswith("tenant")]
        if not its or not tenant_params:
            continue
        ctx.saw_fn(p); ctx.saw_calls(len(b.calls()))
        short = p.replace(STORE, "")
        for it in its:
            nscan += 1
            inst = "%s|prefix-scan" % short
            if it.path.rsplit("::", 1)[-1] not in ("prefix_iterator_cf", "prefix_iterator"):
                # a full/seek iterator in a tenant-scoped function: same obligations (list_persisted_tenants has no tenant parameter and is not matched)
                pass
            prefix_locals = od.chain_locals(b, it.args[-1]) if it.args and it.args[-1][0] != "k" else set()
            nexts = [c for c in b.calls() if c.path.endswith("Iterator>::next") and "ForLoop" in c.expname]
            consumers = [c for c in b.calls() if c.path.rsplit("::", 1)[-1] in CONSUMERS and any(b.dominates(n.bb, c.bb) for n in nexts)]
            tests = []
            bare_tests = []
            for c in b.calls():
                if c.path.rsplit("::", 1)[-1] in ("starts_with", "eq", "ne", "strip_prefix") and c.target is not None:
                    argl = set()
                    for a in c.args[1:]:
                        if a[0] != "k":
                            argl |= od.chain_locals(b, a)
                    # the pattern must be `tenant + separator`: a formatted string (or the iterator's own prefix), never the bare tenant name
                    pat_og = []
                    for a in c.args[1:]:
                        if a[0] != "k":
                            pat_og += b.origins(a[1][0], through_calls=lambda cc: [0] if cc.path.rsplit("::", 1)[-1] in ("as_bytes", "deref", "as_str", "as_ref", "borrow", "must_use") else None)
                    formatted = any(o[0] == "call" and o[1].path.rsplit("::", 1)[-1] in ("format", "node_key", "edge_key", "tenant_prefix", "scan_prefix") for o in pat_og)
                    bare = any(o[0] == "arg" and o[1] in tenant_params for o in pat_og) and not formatted
                    if bare:
                        bare_tests.append(c)
                        continue
                    if not (argl & prefix_locals) and not formatted:
                        continue
                    sb_, t = b.switch_on(c.dest[0], c.target)
                    if t is not None:
                        false_t = [tgt for v, tgt in t[2] if v == "0"]
                        if false_t:
                            tests.append((c, sb_, false_t[0], t[3]))
            if not consumers:
                okc, whyc = _chain_form(F, b, it, prefix_locals)
                if okc:
                    ctx.ok("R17a", inst, whyc)
                    continue
            if not consumers:
                ctx.violation("R17a", inst + "|no-consumer", where(r, it.line), "cannot find the record uses of this scan loop (checker needs update)")
                continue
            if bare_tests and not tests:
                ctx.violation("R17a", inst + "|bare-tenant-prefix", where(r, bare_tests[0].line), "keys are compared with the bare tenant name, not `tenant + separator`: a scan for tenant 'acme' also accepts the keys of tenant 'acmecorp'")
                continue
            if not tests:
                ctx.violation("R17a", inst, where(r, it.line), "records returned by the prefix iterator are used without comparing their key with the prefix: without a prefix extractor the iterator continues into the following tenants' keys")
                continue
            c, sb, ft, tt = tests[0]
            nb = {n.bb for n in nexts}
            leak = [x for x in consumers if x.bb in b.reachable(ft, avoid=nb | {sb})]
            undominated = [x for x in consumers if not b.dominates(sb, x.bb)]
            if leak or undominated:
                x = (leak or undominated)[0]
                ctx.violation("R17a", inst, where(r, x.line), "%s is reachable for a key that failed (or skipped) the prefix test" % x.path)
            else:
                ctx.ok("R17a", inst, "%d record uses all behind starts_with(key, prefix) (line %d)" % (len(consumers), c.line))
    ctx.floor("R17a", "prefix scans", nscan, 2)
    # ---- R17b: validation ---------------------------------------------------------------------------------
    chk = None
    nentry = 0
    for p, r in sorted(fns.items()):
        if r["vis"] != "pub":
            continue
        b = Body(F.mir(p), r)
        strparams = [i for i in range(1, b.argc + 1) if b.local_ty(i).replace("'_ ", "") == "&str" and (b.local_name(i) or "").startswith("tenant")]
        if not strparams:
            continue
        nentry += 1
        short = p.replace(STORE, "")
        dbops = [c for c in b.calls() if c.path.rsplit("::", 1)[-1] in DB_OPS and "rocksdb" in c.path]
        vals = []
        for c in b.calls():
            if c.path in fns and c.args and c.args[0][0] != "k" and (od.chain_locals(b, c.args[0]) & set(strparams)) and "Result" in b.local_ty(c.dest[0]) and "key" not in c.path.rsplit("::", 1)[-1]:
                vals.append(c)
        if not vals:
            ctx.violation("R17b", short + "|unvalidated-tenant", where(r), "%s uses the tenant id as a key prefix without validating it" % short)
            continue
        v = vals[0]
        chk = v.path
        bad = [c for c in dbops if not b.dominates(v.bb, c.bb)]
        # the error of the validator must be propagated: its result goes through `?`
        prop = any(cc.path.endswith("Try>::branch") and cc.args and cc.args[0][0] != "k" and cc.args[0][1][0] == v.dest[0] for cc in b.calls())
        if bad or not prop:
            ctx.violation("R17b", short + "|validation-order", where(r, v.line), "tenant validation does not dominate every RocksDB operation or its error is dropped")
        else:
            ctx.ok("R17b", short, "%s(tenant)? dominates %d RocksDB operation(s)" % (v.path.rsplit("::", 1)[-1], len(dbops)))
    ctx.floor("R17b", "storage entry points taking a tenant id", nentry, 8)
    if chk:
        r = F.fns[chk]
        b = Body(F.mir(chk), r)
        ctx.saw_fn(chk)
        okv = False
        for c in b.calls():
            if c.path.rsplit("::", 1)[-1] in ("contains", "find", "any") and c.target is not None:
                chars = consts.closure_arg_chars(F, b, c)
                t = b.blocks[c.target]["t"]
                if sepc and sepc in chars and t[0] == "switch":
                    true_t = t[3]
                    errs = [1 for bb in b.reachable(true_t, avoid={c.target}) for s in b.blocks[bb]["s"] if s[1][0] == "agg" and s[1][1].endswith("Result::Err")]
                    false_t = [tgt for v, tgt in t[2] if v == "0"]
                    errs_f = [1 for bb in b.reachable(false_t[0], avoid={c.target}) for s in b.blocks[bb]["s"] if s[1][0] == "agg" and s[1][1].endswith("Result::Err")] if false_t else []
                    if errs and not errs_f:
                        okv = True
        if okv:
            ctx.ok("R17b", "validator", "%s rejects ids containing %r" % (chk.rsplit("::", 1)[-1], sepc))
        else:
            ctx.violation("R17b", "validator", where(r), "%s does not reject tenant ids containing the key separator %r" % (chk, sepc))
    # ---- R17d: what a tenant-taking read returns comes from a tenant-keyed place ---------------------------------
    ctx.rule("R17d", "the storage layer keeps no entity state keyed without the tenant: every field of PersistentStorage / PersistenceManager that is a map or set keyed by a bare id (u64 / NodeId / EdgeId) and holds entities is a cross-tenant channel (a read cache keyed by node id alone serves tenant A's node to tenant B)")
    n_f = 0
    for st in ("persistence::storage::PersistentStorage", "persistence::PersistenceManager"):
        try:
            adt_ = F.adt(st)
        except Exception as ex:
            ctx.anchor_failure("R17d", st)
            continue
        for fname, fty, _ in adt_["variants"][0]["fields"]:
            n_f += 1
            inst = "%s.%s" % (st.rsplit("::", 1)[-1], fname)
            keyed = None
            for mk in ("HashMap<", "BTreeMap<", "LruCache<", "DashMap<", "FxHashMap<", "HashSet<", "BTreeSet<"):
                if mk in fty:
                    inner = fty.split(mk, 1)[1]
                    keyed = inner.split(",", 1)[0].split(">", 1)[0].strip()
                    break
            if keyed is None:
                ctx.ok("R17d", inst, "not a keyed collection")
                continue
            bare = keyed in ("u64", "u32", "usize") or keyed.endswith("types::NodeId") or keyed.endswith("types::EdgeId")
            if bare:
                ctx.violation("R17d", inst + "|not-tenant-keyed", where({"file": adt_["file"], "line": adt_["line"], "path": st}),
                              "%s is a collection keyed by `%s` alone inside the tenant-partitioned storage layer: entries of different tenants with the same id collide, so a point read (and the read-merge-write of an update) of one tenant can return or overwrite another tenant's entity" % (inst, keyed))
            else:
                ctx.ok("R17d", inst, "keyed by %s" % keyed)
    ctx.floor("R17d", "fields of the storage layer examined", n_f, 6)
    return ("Decided: (a) records of a prefix scan are used only behind a key-vs-prefix test, so a scan cannot run on into the next tenant's keys; "
            "(b) every storage entry point validates the tenant id against the separator before touching RocksDB, so no accepted id is a key-prefix of "
            "another's key space; (c) key builders, scan prefixes and the tenant listing agree on the separator. Together these give isolation for "
            "reads, scans, recovery (which scans) and listing, for every id the storage accepts. Not decided: RocksDB's own iterator semantics.")
