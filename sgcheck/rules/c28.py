"""C28 — hierarchy index equals brute force: staleness marking complete, rewrites use only
`usable*` accessors, measure writes reach the index."""
from ..cfg import Body
from ..report import where
from ..facts import in_module
from .. import storemodel as sm

LEVEL = "other"
HM = "samyama::index::hierarchy::manager::HierarchyIndexManager::"
# reviewed exceptions (one line of reason each)
EXCEPTIONS = {
    "insert_recovered_edge": "boot-time recovery runs before any hierarchy index can be declared (indexes are not persisted; CREATE HIERARCHY INDEX builds from the recovered store)",
}


def run(ctx, F, cg):
    ctx.rule("R28a", "every mutator that adds or removes a relationship reaches mark_stale_for_edge_type (a write to the covering relation makes the index unusable until rebuilt)")
    ctx.rule("R28b", "the planner's hierarchy rewrites obtain index entries only through usable* accessors (never get / any_for_edge_type)")
    ctx.rule("R28c", "every mutator that sets or removes a node property reaches update_measure or mark_stale_for_property, and update_measure marks stale what it cannot absorb")
    for kind in ("edge-add", "edge-kill"):
        for n in sm.KINDS[kind]:
            r = sm.fn_of(F, n)
            ctx.saw_fn(r["path"])
            inst = "covering-relation|%s|%s" % (kind, n)
            if cg.reaches(r["path"], ["HierarchyIndexManager::mark_stale_for_edge_type"]):
                ctx.ok("R28a", inst, "reaches mark_stale_for_edge_type")
            elif n in EXCEPTIONS:
                ctx.ok("R28a", inst, "reviewed exception: " + EXCEPTIONS[n])
            else:
                ctx.violation("R28a", inst, where(r), "%s changes the covering relation without marking hierarchy indexes stale: queries rewritten onto the index keep answering from the old relation" % n)
    for kind in ("prop-set", "prop-kill"):
        for n in sm.KINDS[kind]:
            r = sm.fn_of(F, n)
            ctx.saw_fn(r["path"])
            inst = "measure|%s|%s" % (kind, n)
            if cg.reaches(r["path"], ["HierarchyIndexManager::update_measure", "HierarchyIndexManager::mark_stale_for_property"]):
                ctx.ok("R28c", inst, "reaches update_measure / mark_stale_for_property")
            else:
                ctx.violation("R28c", inst, where(r), "%s changes a node property without telling the hierarchy index: roll-ups keep using the old measure" % n)
    um = F.fn_opt(HM + "update_measure")
    if um is None:
        ctx.anchor_failure("R28c", "HierarchyIndexManager::update_measure")
    else:
        if any(x.endswith("HierarchyEntry.stale") for x in um["w"]):
            ctx.ok("R28c", "update_measure|stale-fallback", "update_measure writes HierarchyEntry.stale when it cannot apply the update")
        else:
            ctx.violation("R28c", "update_measure|no-stale-fallback", where(um), "update_measure never marks an entry stale: an update it cannot absorb is lost")
    # ---- R28d: no skip that depends on the written value ----------------------------------------------------------
    ctx.rule("R28d", "in update_measure, whether a hierarchy is told about the write does not depend on the value written: no branch on data derived from the `value` parameter leads to the next hierarchy (or the return) without passing the index update or the stale marking (a write of a non-number over a number must clear or invalidate the old measure)")
    if um is not None:
        b = Body(F.mir(um["path"]), um)
        ctx.saw_fn(um["path"]); ctx.saw_calls(len(b.calls()))
        vparams = [i for i in range(1, b.argc + 1) if "property::PropertyValue" in b.local_ty(i)]
        absorb_calls = [c for c in b.calls() if c.path.rsplit("::", 1)[-1] == "update_measure" and c.path != um["path"]]
        absorb = {c.bb for c in absorb_calls}
        for i, j, pl, rv, line, exp in b.stmts():
            if any(x.endswith("HierarchyEntry.stale") for x in pl[1] if x.startswith("f:")):
                absorb.add(i)
        if not vparams or not absorb_calls:
            ctx.anchor_failure("R28d", "value parameter / inner update_measure call of HierarchyIndexManager::update_measure")
        else:
            absorb_dests = {c.dest[0] for c in absorb_calls}
            tainted = b.forward_taint(set(vparams), through_calls=lambda c, ix: c.dest[0] not in absorb_dests)
            nexts = {c.bb for c in b.calls() if c.path.rsplit("::", 1)[-1] == "next" and c.expname == "ForLoop"} | set(b.ret_blocks())
            bad = None
            nsw = 0
            for i in sorted(b.live_blocks()):
                t = b.blocks[i]["t"]
                if t[0] != "switch" or t[1][0] == "k":
                    continue
                l = t[1][1][0]
                ds = b.defs().get(l, [])
                srcs = {l}
                for d in ds:
                    if d[0] == "stmt" and d[4][0] == "discr":
                        srcs.add(d[4][1][0])
                if not (srcs & tainted):
                    continue
                nsw += 1
                for s_ in b.succ(i):
                    if nexts & b.reachable(s_, avoid=absorb | {i}):
                        bad = b.blocks[i]["l"]
            if bad is not None:
                ctx.violation("R28d", "update_measure|value-dependent-skip", where(um, bad),
                              "update_measure branches on the written value (line %d) and one side goes on to the next hierarchy without updating the index or marking it stale: overwriting a numeric measure with a string or null leaves the old number in every roll-up, on an index that still counts as usable" % bad)
            else:
                ctx.ok("R28d", "update_measure|value-independent", "%d value-dependent branch(es); none skips both the index update and the stale marking" % nsw)
    # ---- R28e: only a (re)build makes an index usable again ---------------------------------------------------------
    ctx.rule("R28e", "staleness is sticky: outside the construction of a fresh entry (create / rebuild), every assignment to HierarchyEntry.stale is the constant `true` — a measure update that writes `stale = !applied` revives an index whose covering relation has changed")
    n_st = 0
    for p_, r_ in sorted(F.fns.items()):
        if not in_module(p_, "samyama::index::hierarchy::") or "::tests::" in p_:
            continue
        if not any(x.endswith("HierarchyEntry.stale") for x in r_["w"]):
            continue
        b_ = Body(F.mir(p_), r_)
        for i, j, pl, rv, line, exp in b_.stmts():
            if any(x.startswith("f:") and x.endswith("HierarchyEntry.stale") for x in pl[1]):
                n_st += 1
                short = p_.replace("samyama::index::hierarchy::manager::", "")
                if rv[0] == "use" and rv[1][0] == "k" and rv[1][1].strip() == "const true":
                    ctx.ok("R28e", "%s|stale-write|%d" % (short, line and 0 or 0) + "|%d" % n_st, "assigns true")
                else:
                    ctx.violation("R28e", "%s|stale-cleared-outside-rebuild" % short, where(r_, line), "%s assigns a value other than `true` to HierarchyEntry.stale: an entry marked stale by a relationship write can become usable again without being rebuilt, and rewritten queries answer from the old hierarchy" % short)
    ctx.floor("R28e", "assignments to HierarchyEntry.stale", n_st, 3)
    # ---- R28f: count(<property>) is not a subtree size ----------------------------------------------------------------
    ctx.rule("R28f", "the hierarchy rewrite declines count(<property>): counting a property counts the descendants that have a value, which the structural COUNT roll-up (subtree size) does not — the detector's match over (op, argument) has an arm for (Count, Some(_)) that gives up")
    det = [r_ for p_, r_ in F.fns.items() if p_.startswith("samyama::query::executor::hierarchy_detector::") and p_.rsplit("::", 1)[-1] in ("detect",) and "::tests::" not in p_]
    if not det:
        ctx.anchor_failure("R28f", "hierarchy_detector::detect")
    else:
        found = None
        for m_ in F.arms(det[0]["path"]):
            if "RollupOp" not in m_["sty"]:
                continue
            for arm in m_["arms"]:
                pt = arm["pat"]
                if pt.get("k") == "tuple" and len(pt["e"]) == 2:
                    a0, a1 = pt["e"]
                    if a0.get("k") == "variant" and a0["p"].endswith("RollupOp::Count") and a1.get("k") == "variant" and a1["p"].endswith("Some"):
                        gives_up = any(c.endswith("Option::None") or c.endswith("::None") for c in arm["ctors"]) or arm.get("n", 0) <= 1 and not arm["calls"]
                        found = (arm, gives_up)
        if found is None:
            ctx.violation("R28f", "detect|count-of-property-rewritten", where(det[0]), "the detector has no arm declining (Count, Some(property)): count(d.p) is rewritten to the structural COUNT roll-up and returns the subtree size instead of the number of descendants that have p")
        elif not found[1]:
            ctx.violation("R28f", "detect|count-of-property-not-declined", where(det[0], found[0]["lo"]), "the (Count, Some(_)) arm does not give up the rewrite")
        else:
            ctx.ok("R28f", "detect|count-of-property", "(Count, Some(_)) declines the rewrite")
    # ---- R28b ------------------------------------------------------------------------------------------
    users = []
    for p, r in F.fns.items():
        if in_module(p, "samyama::query::executor::hierarchy_detector") or in_module(p, "samyama::query::executor::planner") or in_module(p, "samyama::query::executor::logical_"):
            hs = sorted({c.rsplit("::", 1)[-1] for c in r["calls"] if c.startswith(HM)})
            if hs:
                users.append((p, r, hs))
    ctx.floor("R28b", "planner-side users of the hierarchy manager", len(users), 3)
    for p, r, hs in users:
        bad = [h for h in hs if h in ("get", "any_for_edge_type", "list")]
        short = p.replace("samyama::query::executor::", "")
        if bad:
            ctx.violation("R28b", "planner-uses-raw-accessor|" + short, where(r), "%s obtains hierarchy entries through %s, which also return stale or unbuilt indexes" % (short, bad))
        else:
            ctx.ok("R28b", short, "uses %s" % hs)
    return ("Decided: completeness of staleness marking over the mutator table, that measure writes reach the index (with the stale fallback), and that "
            "the rewrites only see usable entries. Not decided: encodings, LCA, roll-up arithmetic; re-validation at execution time inside one statement.")
