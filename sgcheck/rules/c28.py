"""C28 — hierarchy index equals brute force: staleness marking complete, rewrites use only
`usable*` accessors, measure writes reach the index."""
from ..report import where
from ..facts import in_module
from .. import storemodel as sm

LEVEL = "other"
HM = "samyama::index::hierarchy::manager::HierarchyIndexManager::"
# reviewed exceptions (one line of reason each)
EXCEPTIONS = {
    "insert_recovered_edge": "boot-time recovery runs before any hierarchy index can be declared (indexes are not persisted; CREATE HIERARCHY INDEX builds from the recovered store)",
}


def run(ctx, F, cg):
    ctx.rule("R28a", "every mutator that adds or removes a relationship reaches mark_stale_for_edge_type (a write to the covering relation makes the index unusable until rebuilt)")
    ctx.rule("R28b", "the planner's hierarchy rewrites obtain index entries only through usable* accessors (never get / any_for_edge_type)")
    ctx.rule("R28c", "every mutator that sets or removes a node property reaches update_measure or mark_stale_for_property, and update_measure marks stale what it cannot absorb")
    for kind in ("edge-add", "edge-kill"):
        for n in sm.KINDS[kind]:
            r = sm.fn_of(F, n)
            ctx.saw_fn(r["path"])
            inst = "covering-relation|%s|%s" % (kind, n)
            if cg.reaches(r["path"], ["HierarchyIndexManager::mark_stale_for_edge_type"]):
                ctx.ok("R28a", inst, "reaches mark_stale_for_edge_type")
            elif n in EXCEPTIONS:
                ctx.ok("R28a", inst, "reviewed exception: " + EXCEPTIONS[n])
            else:
                ctx.violation("R28a", inst, where(r), "%s changes the covering relation without marking hierarchy indexes stale: queries rewritten onto the index keep answering from the old relation" % n)
    for kind in ("prop-set", "prop-kill"):
        for n in sm.KINDS[kind]:
            r = sm.fn_of(F, n)
            ctx.saw_fn(r["path"])
            inst = "measure|%s|%s" % (kind, n)
            if cg.reaches(r["path"], ["HierarchyIndexManager::update_measure", "HierarchyIndexManager::mark_stale_for_property"]):
                ctx.ok("R28c", inst, "reaches update_measure / mark_stale_for_property")
            else:
                ctx.violation("R28c", inst, where(r), "%s changes a node property without telling the hierarchy index: roll-ups keep using the old measure" % n)
    um = F.fn_opt(HM + "update_measure")
    if um is None:
        ctx.anchor_failure("R28c", "HierarchyIndexManager::update_measure")
    else:
        if any(x.endswith("HierarchyEntry.stale") for x in um["w"]):
            ctx.ok("R28c", "update_measure|stale-fallback", "update_measure writes HierarchyEntry.stale when it cannot apply the update")
        else:
            ctx.violation("R28c", "update_measure|no-stale-fallback", where(um), "update_measure never marks an entry stale: an update it cannot absorb is lost")
    # ---- R28b ------------------------------------------------------------------------------------------
    users = []
    for p, r in F.fns.items():
        if in_module(p, "samyama::query::executor::hierarchy_detector") or in_module(p, "samyama::query::executor::planner") or in_module(p, "samyama::query::executor::logical_"):
            hs = sorted({c.rsplit("::", 1)[-1] for c in r["calls"] if c.startswith(HM)})
            if hs:
                users.append((p, r, hs))
    ctx.floor("R28b", "planner-side users of the hierarchy manager", len(users), 3)
    for p, r, hs in users:
        bad = [h for h in hs if h in ("get", "any_for_edge_type", "list")]
        short = p.replace("samyama::query::executor::", "")
        if bad:
            ctx.violation("R28b", "planner-uses-raw-accessor|" + short, where(r), "%s obtains hierarchy entries through %s, which also return stale or unbuilt indexes" % (short, bad))
        else:
            ctx.ok("R28b", short, "uses %s" % hs)
    return ("Decided: completeness of staleness marking over the mutator table, that measure writes reach the index (with the stale fallback), and that "
            "the rewrites only see usable entries. Not decided: encodings, LCA, roll-up arithmetic; re-validation at execution time inside one statement.")
