"""C24 — the natural-language endpoint only returns statements the engine would run as reads."""
from ..cfg import Body, name_matches
from ..report import where
from .. import orderdom as od
from .c03 import id_through

LEVEL = "other"


def classifier_verdict(F, path):
    """A boolean function of a query string is an accepted read-only classifier iff every value it
    returns is `false` or `!plan.is_write` of the plan of the parse of that same string."""
    r = F.fns.get(path)
    if r is None:
        return False, "%s is not a local function" % path, []
    b = Body(F.mir(path), r)
    strparams = [i for i in range(1, b.argc + 1) if "str" in b.local_ty(i) or "String" in b.local_ty(i)]
    if b.local_ty(0) != "bool" or len(strparams) != 1:
        return False, "%s is not fn(&str) -> bool" % path, []
    problems = []
    pq = b.calls_to(["parser::parse_query"])
    if not pq:
        return False, "%s never parses the statement (a prefix/substring test cannot classify `MATCH (n) DETACH DELETE n`)" % path, []
    a = pq[0].args[0]
    og = b.origins(a[1][0], through_calls=id_through) if a[0] != "k" else []
    if [o for o in og if o[0] == "call"] or not any(o[0] == "arg" and o[1] in strparams for o in og):
        problems.append("parse_query is not applied to the unmodified statement text")
    plans = b.calls_to(["QueryPlanner::plan", "QueryPlanner::plan_query", "QueryPlanner::plan_with_params"])
    if not plans:
        problems.append("the parsed statement is never planned (ExecutionPlan::is_write is the accepted write/DDL classifier)")
    else:
        pa = plans[0].args[1] if len(plans[0].args) > 1 else None
        ogp = b.origins(pa[1][0], through_calls=lambda c: None) if pa and pa[0] != "k" else []
        if not any(o[0] == "call" and o[1].bb == pq[0].bb for o in ogp):
            problems.append("the planned statement is not the parse result")
    # every definition of the return value
    ndefs = 0
    for d in b.defs().get(0, []):
        ndefs += 1
        if d[0] != "stmt":
            problems.append("return value produced by %s" % d[2].path)
            continue
        rv = d[4]
        if rv[0] == "use" and rv[1][0] == "k":
            if rv[1][1].strip() != "const false":
                problems.append("returns constant true on some path (line %d)" % b.blocks[d[1]]["s"][d[2]][2])
            continue
        e = od.expr_of_place(b, [0, []], 0, set()) if len(b.defs().get(0, [])) == 1 else None
        # single statement form: Not(place.is_write)
        ok = False
        if rv[0] == "un" and rv[1] == "Not" and rv[2][0] != "k":
            src = od.base_place(b, rv[2])
            if src and any(x.endswith("ExecutionPlan.is_write") for x in src[1]):
                # the plan is the result of the plan call
                base_og = b.origins(src[0], through_calls=lambda c: None)
                if plans and any(o[0] == "call" and o[1].bb == plans[0].bb for o in base_og):
                    ok = True
        if not ok:
            problems.append("a returned value is neither `false` nor `!plan.is_write` of this statement's plan (line %d)" % b.blocks[d[1]]["s"][d[2]][2])
    if ndefs == 0:
        problems.append("no return value definition found")
    return (not problems), "; ".join(problems) if problems else "returns only false or !plan(parse(stmt)).is_write", [path]


def clause_classifier_covers(F, planner_fn, op):
    """In a function that matches on ast::Clause: every variant whose arm constructs `op` must be
    classified as a write by Clause::is_write."""
    arms_p = [m for m in F.arms(planner_fn) if m["sty"].replace("&", "").strip().endswith("ast::Clause")]
    if not arms_p:
        return False, "is_write is computed but %s has no match over ast::Clause to cross-check" % planner_fn
    M = set()
    for m in arms_p:
        for arm in m["arms"]:
            if any(c.startswith(op + "::") for c in arm["calls"]):
                M |= set(_pat_variants(arm["pat"]))
    isw = F.fn_opt("query::ast::Clause::is_write")
    if isw is None:
        return False, "Clause::is_write not found"
    W = set()
    for m in F.arms(isw["path"]):
        for arm in m["arms"]:
            if "b:true" in arm["lits"]:
                W |= set(_pat_variants(arm["pat"]))
    missing = sorted(v.rsplit("::", 1)[-1] for v in M - W)
    if missing:
        return False, "clause variant(s) %s build the mutating operator %s but Clause::is_write does not classify them as writes" % (missing, op.rsplit("::", 1)[-1])
    return True, "variants %s building it are all writes per Clause::is_write" % sorted(v.rsplit("::", 1)[-1] for v in M)


def _pat_variants(p):
    k = p.get("k")
    if k == "variant":
        return [p["p"]]
    if k == "or" or k == "tuple":
        out = []
        for e in p["e"]:
            out += _pat_variants(e)
        return out
    if k == "bind" and p.get("sub"):
        return _pat_variants(p["sub"])
    return []


def run(ctx, F, cg):
    ctx.rule("R24a", "in text_to_cypher the statement is returned only on the true branch of a classifier applied to that same statement")
    ctx.rule("R24b", "the classifier parses the statement, plans the parse result, and returns only `false` or `!plan.is_write`")
    ctx.rule("R24c", "ExecutionPlan::is_write is set by the planner for every mutating operator kind (is_mutating siblings all reach a plan with is_write=true)")
    cs = [r for p, r in F.fns.items() if p.startswith("samyama::nlq::NLQPipeline::text_to_cypher::") and r["coroutine"]]
    if len(cs) != 1:
        ctx.anchor_failure("R24a", "NLQPipeline::text_to_cypher coroutine (found %d)" % len(cs))
        return "anchor failure"
    r = cs[0]
    b = Body(F.mir(r["path"]), r)
    ctx.saw_fn(r["path"]); ctx.saw_calls(len(b.calls()))
    oks = [(i, rv, line) for i, j, pl, rv, line, exp in b.stmts() if pl[0] == 0 and rv[0] == "agg" and rv[1].endswith("Result::Ok")]
    ctx.floor("R24a", "Ok(..) returns in text_to_cypher", len(oks), 1)
    for k, (i, rv, line) in enumerate(oks):
        inst = "text_to_cypher|ok-return|%d" % k
        payload = od.chain_locals(b, rv[2][0]) if rv[2] and rv[2][0][0] != "k" else set()
        # boolean-returning local calls whose true edge dominates this block
        gate = None
        for c in b.calls():
            if c.path in F.fns and b.local_ty(c.dest[0]) == "bool" and c.target is not None:
                t = b.blocks[c.target]["t"]
                if t[0] == "switch" and t[1][0] != "k" and t[1][1][0] == c.dest[0]:
                    false_t = [tgt for v, tgt in t[2] if v == "0"]
                    true_t = t[3]
                    if false_t and i in b.reachable(true_t, avoid={c.target}) and i not in b.reachable(false_t[0], avoid={c.target}) and b.dominates(c.target, i):
                        # applied to the same string?
                        argl = set()
                        for a in c.args:
                            if a[0] != "k":
                                argl |= od.chain_locals(b, a)
                        if argl & payload:
                            gate = c
        if gate is None:
            ctx.violation("R24a", inst, where(r, line), "a statement is returned without being gated by a classifier applied to that same statement")
            continue
        ok, why, fns = classifier_verdict(F, gate.path)
        ctx.saw_fn(gate.path)
        if ok:
            ctx.ok("R24a", inst, "gated by %s on the returned string" % gate.path)
            ctx.ok("R24b", gate.path.replace("samyama::nlq::", ""), why)
        else:
            ctx.ok("R24a", inst, "gated by %s on the returned string" % gate.path)
            ctx.violation("R24b", gate.path.replace("samyama::nlq::", ""), where(F.fns[gate.path]), "classifier rejected: " + why)
    # ---- R24c: is_mutating operators vs planner is_write ------------------------------------------
    muts = []
    for p, r2 in F.fns.items():
        if p.endswith("::is_mutating") and r2.get("trait") and r2["trait"].endswith("PhysicalOperator") and r2["self"] != "Self":
            m = F.mir(p)
            bb = Body(m, r2)
            rets_true = any(rv[0] == "use" and rv[1][0] == "k" and rv[1][1].strip() == "const true" for i, j, pl, rv, line, exp in bb.stmts() if pl[0] == 0)
            delegating = any(c.path.endswith("is_mutating") for c in bb.calls())
            if rets_true and not delegating:
                muts.append(r2["self"])
    ctx.floor("R24c", "operators whose is_mutating() is constant true", len(muts), 10)
    # for each mutating operator type: every function of the planner that constructs it (calls its `new`) must
    # also construct / return an ExecutionPlan with is_write = true on that path (approximation: the function
    # mentions `is_write: true` i.e. assigns const true into ExecutionPlan.is_write, or returns a flag derived from it)
    planner_fns = {p: r2 for p, r2 in F.fns.items() if p.startswith("samyama::query::executor::planner::")}
    bad = 0
    for op in sorted(set(muts)):
        short = op.rsplit("::", 1)[-1]
        ctors = []
        for p, r2 in planner_fns.items():
            if any(c.startswith(op + "::new") or c == op + "::new" or (c.startswith(op + "::") and "new" in c.rsplit("::", 1)[-1]) for c in r2["calls"]):
                ctors.append(p)
        if not ctors:
            ctx.note("mutating operator %s is not constructed by the planner" % short)
            continue
        for p in ctors:
            bb = Body(F.mir(p), planner_fns[p])
            sets_true = False
            for i, j, pl, rv, line, exp in bb.stmts():
                if rv[0] == "agg" and rv[1].endswith("ExecutionPlan"):
                    adt = F.adt("planner::ExecutionPlan")
                    fields = [f[0] for f in adt["variants"][0]["fields"]]
                    o = rv[2][fields.index("is_write")]
                    if o[0] == "k" and o[1].strip() == "const true":
                        sets_true = True
                    elif o[0] != "k":
                        og = bb.origins(o[1][0])
                        if any(x[0] == "const" and x[1][1].strip() == "const true" for x in og):
                            sets_true = True
            computed = False
            if not sets_true:
                # a computed flag (e.g. clauses.iter().any(|c| c.is_write())) is accepted when the per-variant
                # classifier covers every clause variant whose arm builds a mutating operator
                for i, j, pl, rv, line, exp in bb.stmts():
                    if rv[0] == "agg" and rv[1].endswith("ExecutionPlan"):
                        adt = F.adt("planner::ExecutionPlan")
                        fields = [f[0] for f in adt["variants"][0]["fields"]]
                        o = rv[2][fields.index("is_write")]
                        if o[0] != "k" and not any(x[0] == "const" and x[1][1].strip() == "const false" for x in bb.origins(o[1][0])):
                            computed = True
                og0 = bb.origins(0)
                if any(x[0] == "const" and x[1][1].strip() == "const true" for x in og0):
                    sets_true = True
            key = "%s|%s" % (short, p.replace("samyama::query::executor::planner::", ""))
            if sets_true:
                ctx.ok("R24c", key, "constructs %s and marks the plan as a write" % short)
            elif computed:
                ok2, why2 = clause_classifier_covers(F, p, op)
                if ok2:
                    ctx.ok("R24c", key, "is_write is computed; " + why2)
                else:
                    ctx.violation("R24c", key, where(planner_fns[p]), why2)
            else:
                bad += 1
                ctx.violation("R24c", key, where(planner_fns[p]),
                              "the planner constructs the mutating operator %s here without ever setting is_write=true" % short)
    return ("Decided: the NLQ pipeline hands back a statement only on the true branch of a classifier applied to that same string, and the classifier "
            "is `!plan(parse(stmt)).is_write` (false on parse or plan error) — so whatever the model returns, an accepted statement is one the engine "
            "plans as a read. R24c cross-checks that every operator declaring is_mutating()=true is planned with is_write=true. "
            "Not decided: that is_mutating() itself is right for each operator (C04/C23 territory).")
