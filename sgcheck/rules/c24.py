"""C24 — the natural-language endpoint only returns statements the engine would run as reads."""
from ..cfg import Body, name_matches
from .. import inline as inl_
from ..report import where
from ..facts import in_module
from .. import orderdom as od
from .c03 import id_through

LEVEL = "other"


def classifier_verdict(F, path):
    """A boolean function of a query string is an accepted read-only classifier iff every value it
    returns is `false` or `!plan.is_write` of the plan of the parse of that same string."""
    r = F.fns.get(path)
    if r is None:
        return False, "%s is not a local function" % path, []
    b = Body(F.mir(path), r)
    strparams = [i for i in range(1, b.argc + 1) if "str" in b.local_ty(i) or "String" in b.local_ty(i)]
    if b.local_ty(0) != "bool" or len(strparams) != 1:
        return False, "%s is not fn(&str) -> bool" % path, []
    problems = []
    pq = b.calls_to(["parser::parse_query"])
    if not pq:
        via = _via_write_helper(F, b, strparams)
        if via is not None:
            return via
        return False, "%s never parses the statement (a prefix/substring test cannot classify `MATCH (n) DETACH DELETE n`)" % path, []
    a = pq[0].args[0]
    og = b.origins(a[1][0], through_calls=id_through) if a[0] != "k" else []
    if [o for o in og if o[0] == "call"] or not any(o[0] == "arg" and o[1] in strparams for o in og):
        problems.append("parse_query is not applied to the unmodified statement text")
    plans = b.calls_to(["QueryPlanner::plan", "QueryPlanner::plan_query", "QueryPlanner::plan_with_params"])
    if not plans:
        problems.append("the parsed statement is never planned (ExecutionPlan::is_write is the accepted write/DDL classifier)")
    else:
        pa = plans[0].args[1] if len(plans[0].args) > 1 else None
        ogp = b.origins(pa[1][0], through_calls=lambda c: None) if pa and pa[0] != "k" else []
        if not any(o[0] == "call" and o[1].bb == pq[0].bb for o in ogp):
            problems.append("the planned statement is not the parse result")
    # every definition of the return value
    ndefs = 0
    for d in b.defs().get(0, []):
        ndefs += 1
        if d[0] != "stmt":
            problems.append("return value produced by %s" % d[2].path)
            continue
        rv = d[4]
        if rv[0] == "use" and rv[1][0] == "k":
            if rv[1][1].strip() != "const false":
                problems.append("returns constant true on some path (line %d)" % b.blocks[d[1]]["s"][d[2]][2])
            continue
        e = od.expr_of_place(b, [0, []], 0, set()) if len(b.defs().get(0, [])) == 1 else None
        # single statement form: Not(place.is_write)
        ok = False
        if rv[0] == "un" and rv[1] == "Not" and rv[2][0] != "k":
            src = od.base_place(b, rv[2])
            if src and any(x.endswith("ExecutionPlan.is_write") for x in src[1]):
                # the plan is the result of the plan call
                base_og = b.origins(src[0], through_calls=lambda c: None)
                if plans and any(o[0] == "call" and o[1].bb == plans[0].bb for o in base_og):
                    ok = True
        if not ok:
            problems.append("a returned value is neither `false` nor `!plan.is_write` of this statement's plan (line %d)" % b.blocks[d[1]]["s"][d[2]][2])
    if ndefs == 0:
        problems.append("no return value definition found")
    return (not problems), "; ".join(problems) if problems else "returns only false or !plan(parse(stmt)).is_write", [path]


def _helper_is_planned_write(F, hp):
    """`fn(&str) -> Option<bool>` whose every Some(x) is plan(parse(stmt)).is_write and which is None otherwise"""
    r = F.fns.get(hp)
    m = F.mir(hp) if r else None
    if m is None or "Option<bool>" not in r["sig"].rsplit("->", 1)[-1]:
        return False, "not fn(&str) -> Option<bool>"
    b = Body(m, r)
    strparams = [i for i in range(1, b.argc + 1) if "str" in b.local_ty(i) or "String" in b.local_ty(i)]
    pq = b.calls_to(["parser::parse_query"])
    plans = b.calls_to(["QueryPlanner::plan", "QueryPlanner::plan_query", "QueryPlanner::plan_with_params"])
    if len(strparams) != 1 or not pq or not plans:
        return False, "does not parse and plan its argument"
    a = pq[0].args[0]
    og = b.origins(a[1][0], through_calls=id_through) if a[0] != "k" else []
    if [o for o in og if o[0] == "call"] or not any(o[0] == "arg" and o[1] in strparams for o in og):
        return False, "parse_query is not applied to the unmodified statement text"
    pa = plans[0].args[1] if len(plans[0].args) > 1 else None
    ogp = b.origins(pa[1][0], through_calls=lambda c: [0] if c.path.rsplit("::", 1)[-1] in ("ok", "branch", "unwrap", "expect") else None) if pa and pa[0] != "k" else []
    if not any(o[0] in ("call", "via") and o[1].bb == pq[0].bb for o in ogp):
        return False, "the planned statement is not the parse result"
    for d in b.defs().get(0, []):
        if d[0] == "call":
            if d[2].path.endswith("from_residual"):
                continue            # `?` on an Option: None
            return False, "return value produced by %s" % d[2].path
        rv = d[4]
        if rv[0] == "agg" and rv[1].endswith("Option::None"):
            continue
        if rv[0] == "agg" and rv[1].endswith("Option::Some") and rv[2] and rv[2][0][0] != "k":
            src = od.base_place(b, rv[2][0])
            if src and any(x.endswith("ExecutionPlan.is_write") for x in src[1]):
                base_og = b.origins(src[0], through_calls=lambda c: [0] if c.path.rsplit("::", 1)[-1] in ("ok", "branch", "unwrap", "expect") else None)
                if any(o[0] in ("call", "via") and o[1].bb == plans[0].bb for o in base_og):
                    continue
        return False, "a returned value is neither None nor Some(plan.is_write) of this statement's plan"
    return True, "Some(plan(parse(stmt)).is_write) or None"


def _via_write_helper(F, b, strparams):
    """the classifier delegates to a local `planned as a write?` helper: accepted iff every value it returns is
    `false` or the negation of the helper's Some payload, the helper being applied to the unmodified statement"""
    for c in b.calls():
        if c.path not in F.fns or not c.args or c.args[0][0] == "k":
            continue
        okh, whyh = _helper_is_planned_write(F, c.path)
        if not okh:
            continue
        og = b.origins(c.args[0][1][0], through_calls=id_through)
        if [o for o in og if o[0] == "call"] or not any(o[0] == "arg" and o[1] in strparams for o in og):
            return False, "the write-classifying helper is not applied to the unmodified statement text", []
        problems = []
        for d in b.defs().get(0, []):
            if d[0] != "stmt":
                problems.append("return value produced by %s" % d[2].path)
                continue
            rv = d[4]
            if rv[0] == "use" and rv[1][0] == "k":
                if rv[1][1].strip() != "const false":
                    problems.append("returns constant true on some path")
                continue
            if rv[0] == "un" and rv[1] == "Not" and rv[2][0] != "k":
                src = od.base_place(b, rv[2])
                if src and src[0] == c.dest[0]:
                    continue
                if c.dest[0] in od.chain_locals(b, rv[2]):
                    continue
            problems.append("a returned value is neither `false` nor the negated answer of %s" % c.path.rsplit("::", 1)[-1])
        if problems:
            return False, "; ".join(problems), [c.path]
        return True, "returns only false or !%s(stmt), and %s is %s" % (c.path.rsplit("::", 1)[-1], c.path.rsplit("::", 1)[-1], whyh), [c.path]
    return None


def clause_classifier_covers(F, planner_fn, via):
    """In a function that matches on ast::Clause: every variant whose arm constructs `op` must be
    classified as a write by Clause::is_write."""
    arms_p = [m for m in F.arms(planner_fn) if m["sty"].replace("&", "").strip().endswith("ast::Clause")]
    if not arms_p:
        return False, "is_write is computed but %s has no match over ast::Clause to cross-check" % planner_fn
    M = set()
    for m in arms_p:
        for arm in m["arms"]:
            if any(c.startswith(v) if v.endswith("::") else c == v for c in arm["calls"] for v in via):
                M |= set(_pat_variants(arm["pat"]))
    isw = F.fn_opt("query::ast::Clause::is_write")
    if isw is None:
        return False, "Clause::is_write not found"
    W = set()
    for m in F.arms(isw["path"]):
        for arm in m["arms"]:
            if "b:true" in arm["lits"]:
                W |= set(_pat_variants(arm["pat"]))
    missing = sorted(v.rsplit("::", 1)[-1] for v in M - W)
    if missing:
        return False, "clause variant(s) %s build the mutating operator %s but Clause::is_write does not classify them as writes" % (missing, via[0].rstrip(":").rsplit("::", 1)[-1])
    if not M:
        return False, "no Clause arm of %s builds %s, so the computed is_write cannot be cross-checked" % (planner_fn.rsplit("::", 1)[-1], via[0].rstrip(":").rsplit("::", 1)[-1])
    return True, "variants %s building it are all writes per Clause::is_write" % sorted(v.rsplit("::", 1)[-1] for v in M)


def mutating_operators(F, cg):
    """PhysicalOperator impls whose own next_mut / next_batch_mut (direct calls, helper methods of the
    same module; dyn child operators are not followed) reaches a `&mut self` GraphStore method or a
    write-locking index-manager method; plus the ones declaring is_mutating() = true."""
    mut_targets = set()
    for p, r in F.fns.items():
        if r.get("trait"):
            continue
        st = (r.get("self") or "").rsplit("::", 1)[-1]
        if st == "GraphStore" and r["sig"].split("fn(", 1)[-1].lstrip().startswith(("&'a mut", "&mut", "&'_ mut")):
            mut_targets.add(p)
        elif st in ("IndexManager", "VectorIndexManager", "HierarchyIndexManager", "ConstraintManager") and \
                any("RwLock" in c and c.endswith("::write") for c in r["calls"]):
            mut_targets.add(p)
    ops_ = {}
    declared = set()
    for p, r in F.fns.items():
        if not (r.get("trait") and r["trait"].endswith("PhysicalOperator")) or r.get("self") in (None, "Self"):
            continue
        m = p.rsplit("::", 1)[-1]
        if m in ("next_mut", "next_batch_mut"):
            ops_.setdefault(r["self"], []).append(p)
        if m == "is_mutating":
            bb = Body(F.mir(p), r)
            rets_true = any(rv[0] == "use" and rv[1][0] == "k" and rv[1][1].strip() == "const true" for i, j, pl, rv, line, exp in bb.stmts() if pl[0] == 0)
            if rets_true and not any(c.path.endswith("is_mutating") for c in bb.calls()):
                declared.add(r["self"])
    muts = {}
    for st, roots in ops_.items():
        par = cg.reach(roots, cha=False, stop=lambda q: q in mut_targets, max_depth=4)
        hit = sorted(t for t in mut_targets if t in par)
        if hit:
            muts[st] = hit
    return muts, declared


def true_after(bb, after):
    """Bool locals that are `true` whenever control has passed the construction: every definition
    in a block reachable from it is `const true` or a copy of such a local (least fixpoint).
    Blocks only reachable through the false edge of a test of such a local are infeasible there
    (`flag || other` lowers to `if flag { true } else { other }`)."""
    cand = {}
    for l, ds in bb.defs().items():
        if bb.local_ty(l) != "bool":
            continue
        rd = [d for d in ds if d[1] in after]
        if rd:
            cand[l] = rd
    switches = []
    for i in sorted(bb.live_blocks()):
        t = bb.blocks[i]["t"]
        if t[0] == "switch" and t[1][0] != "k" and i in after:
            false_t = [tgt for v, tgt in t[2] if v == "0"]
            if false_t and bb.pred(false_t[0]) == [i] or (false_t and set(bb.pred(false_t[0])) == {i}):
                switches.append((od.chain_locals(bb, t[1], through=()), false_t[0]))
    T = set()
    dead = set()
    changed = True
    while changed:
        changed = False
        for ls, ft in switches:
            if ft not in dead and ls & T:
                dead |= {x for x in bb.live_blocks() if bb.dominates(ft, x)}
                changed = True
        for l, rd in cand.items():
            if l in T:
                continue
            ok = True
            live_defs = 0
            for d in rd:
                if d[1] in dead:
                    continue
                live_defs += 1
                if d[0] != "stmt" or d[3][1]:
                    ok = False
                    break
                rv = d[4]
                if rv[0] == "use" and rv[1][0] == "k" and rv[1][1].strip() == "const true":
                    continue
                if rv[0] == "use" and rv[1][0] != "k" and not rv[1][1][1] and rv[1][1][0] in T:
                    continue
                ok = False
                break
            if ok and live_defs:
                T.add(l)
                changed = True
    return T


def _calls_pred(F, bb, og, pred):
    for x in og:
        if x[0] != "call":
            continue
        c = x[1]
        if c.path == pred:
            return True
        for a in c.args:
            co = od.closure_of(bb, a)
            if co and pred in F.fns.get(co[0], {}).get("calls", []):
                return True
    return False


def _set_when_pred(F, bb, flag_op, pred):
    """`if .. && pred(..) { flag = true }` — the flag is assigned `true` on the true side of a test of the operator's
    own mutation predicate (or of a planner function that returns that predicate's answer)"""
    wrappers = {pred} | {p for p, r in F.fns.items() if in_module(p, "samyama::query::executor::planner::") and pred in r["calls"] and r["sig"].rsplit("->", 1)[-1].strip() == "bool"}
    fl = od.chain_locals(bb, flag_op)
    sets = [i for i, j, pl, rv, line, exp in bb.stmts() if pl[0] in fl and not pl[1] and rv[0] == "use" and rv[1][0] == "k" and rv[1][1].strip() == "const true"]
    if not sets:
        return False
    for c in bb.calls():
        if c.path not in wrappers or c.target is None:
            continue
        sb_, t = bb.switch_on(c.dest[0], c.target)
        if t is None:
            continue
        zero = [tgt for v, tgt in t[2] if v == "0"]
        if not zero:
            continue
        true_reach = bb.reachable(t[3], avoid={sb_})
        # on the true side the flag is set before anything else can happen: the set block is the true target itself
        if any(i == t[3] or (i in true_reach and bb.dominates(t[3], i) and i not in bb.reachable(zero[0], avoid={sb_})) for i in sets):
            return True
    return False


def _pat_variants(p):
    k = p.get("k")
    if k == "variant":
        return [p["p"]]
    if k == "or" or k == "tuple":
        out = []
        for e in p["e"]:
            out += _pat_variants(e)
        return out
    if k == "bind" and p.get("sub"):
        return _pat_variants(p["sub"])
    return []


def _plan_ctor(p):
    return p.startswith("samyama::query::executor::planner::ExecutionPlan::") and "{closure" not in p
_plan_ctor._key = "ExecutionPlan-ctors"


def check_planner_marks_writes(ctx, F, cg, RULE):
    """Every plan whose root is built from a mutating operator carries is_write = true."""
    # ---- R24c: mutating operators vs planner is_write ---------------------------------------------
    muts, declared = mutating_operators(F, cg)
    # operators that say themselves when they mutate: is_mutating() = P(self.field) for a local predicate P
    conditional = {}
    for p, r2 in F.fns.items():
        if p.endswith("::is_mutating") and r2.get("trait") and r2["trait"].endswith("PhysicalOperator") and r2.get("self") in muts and r2["self"] not in declared:
            bbm = Body(F.mir(p), r2)
            ps = [c.path for c in bbm.calls() if c.path in F.fns and not F.fns[c.path].get("trait") and bbm.local_ty(c.dest[0]) == "bool" and c.dest[0] == 0]
            if len(ps) == 1:
                conditional[r2["self"]] = ps[0]
    ctx.floor(RULE, "operators whose is_mutating() is constant true", len(declared), 10)
    ctx.floor(RULE, "operators whose next_mut reaches a store / index mutator", len(muts), 16)
    for op in sorted(declared - set(muts)):
        ctx.note("operator %s declares is_mutating() but no mutator is reachable from its next_mut" % op.rsplit("::", 1)[-1])
    allm = sorted(set(muts) | declared)
    planner_fns = {p: r2 for p, r2 in F.fns.items() if in_module(p, "samyama::query::executor::planner::") and "::tests::" not in p}
    adt = F.adt("planner::ExecutionPlan")
    fields = [f[0] for f in adt["variants"][0]["fields"]]

    def builds_plan(p):
        bb = Body(F.mir(p), planner_fns[p])
        return [(rv, bb) for i, j, pl, rv, line, exp in bb.stmts() if rv[0] == "agg" and rv[1].endswith("ExecutionPlan")]

    for op in allm:
        short = op.rsplit("::", 1)[-1]
        ctor = set()
        for p, r2 in F.fns.items():
            if r2.get("self") == op and not r2.get("trait") and "->" in r2["sig"]:
                ret = r2["sig"].rsplit("->", 1)[-1].strip()
                first = r2["sig"].split("fn(", 1)[-1].split(",")[0].strip()
                if ret == op and not first.endswith(op) :
                    ctor.add(p)
        direct = [p for p, r2 in planner_fns.items() if any(c in ctor for c in r2["calls"])]
        if not direct:
            ctx.note("mutating operator %s is not constructed by the planner" % short)
            continue
        # a helper that builds the operator but no plan hands it to its callers: lift to them
        sites, seen, work = [], set(), [(p, [op + "::"]) for p in direct]
        while work:
            p, via = work.pop()
            if p in seen:
                continue
            seen.add(p)
            if builds_plan(p) or "ExecutionPlan" in planner_fns[p]["sig"].split("->")[-1]:
                sites.append((p, via))
                continue
            callers = [q for q, r2 in planner_fns.items() if p in r2["calls"] or p in r2["closures"]]
            if not callers:
                ctx.violation(RULE, "%s|%s|no-plan" % (short, p.replace("samyama::query::executor::planner::", "")), where(planner_fns[p]),
                              "%s is built here but no planner function turns it into an ExecutionPlan" % short)
            for q in callers:
                work.append((q, via + [p]))
        for p, via in sorted(sites):
            # constructor helpers of ExecutionPlan (`ExecutionPlan::mutating(root, ..)`) are read in place: the literal
            # they build appears in the site with the flag they set
            bb = Body(inl_.inlined_mir(F, p, _plan_ctor, 2) or F.mir(p), planner_fns[p])
            key = "%s|%s" % (short, p.replace("samyama::query::executor::planner::", ""))
            built_by = ctor if len(via) == 1 else {via[-1]}
            scalls = [c for c in bb.calls() if c.path in built_by]
            aggs = [(i, rv, line) for i, j, pl, rv, line, exp in bb.stmts() if rv[0] == "agg" and rv[1].endswith("ExecutionPlan")]
            if not scalls:
                ctx.violation(RULE, key + "|site-lost", where(planner_fns[p]), "cannot locate the call building %s in this function" % short)
                continue
            if not aggs:
                # returns a plan built elsewhere (e.g. ExecutionPlan::new(.., true))
                og0 = bb.origins(0)
                if any(x[0] == "const" and x[1][1].strip() == "const true" for x in og0):
                    ctx.ok(RULE, key, "constructs %s and marks the plan as a write" % short)
                else:
                    ctx.violation(RULE, key, where(planner_fns[p]), "the planner constructs the mutating operator %s here without ever setting is_write=true" % short)
                continue
            verdicts = []
            linked = 0
            for c in scalls:
                after = bb.reachable(c.target, avoid=()) if c.target is not None else set()
                tainted = bb.forward_taint({c.dest[0]})
                T = true_after(bb, after)
                for (i, rv, line) in aggs:
                    root = rv[2][fields.index("root")]
                    if i not in after or root[0] == "k" or root[1][0] not in tainted:
                        continue
                    linked += 1
                    o = rv[2][fields.index("is_write")]
                    if o[0] == "k":
                        verdicts.append((o[1].strip() == "const true", "plan built at line %d has is_write: %s" % (line, o[1].strip().replace("const ", "")), line))
                    elif o[1][0] in T:
                        verdicts.append((True, "flag is true on every path through the construction (line %d)" % line, line))
                    else:
                        og = bb.origins(o[1][0])
                        pred = conditional.get(op)
                        if pred and not _calls_pred(F, bb, og, pred) and _set_when_pred(F, bb, o, pred):
                            verdicts.append((True, "%s mutates only when %s(name) holds, and the flag is set to true on the true side of that test (line %d)" % (short, pred.rsplit("::", 1)[-1], line), line))
                        elif pred and _calls_pred(F, bb, og, pred):
                            verdicts.append((True, "%s mutates only when %s(name) holds, and the flag is `.. || %s(..)` (line %d)" % (short, pred.rsplit("::", 1)[-1], pred.rsplit("::", 1)[-1], line), line))
                        elif [x for x in og if x[0] == "call"]:
                            ok2, why2 = clause_classifier_covers(F, p, via)
                            verdicts.append((ok2, "is_write is computed; " + why2, line))
                        else:
                            verdicts.append((False, "plan built at line %d carries a flag that is not true on the path that builds %s" % (line, short), line))
            bad = [v for v in verdicts if not v[0]]
            if not linked:
                ctx.violation(RULE, key + "|unlinked", where(planner_fns[p]), "%s is built here but does not flow into the root of any ExecutionPlan of this function" % short)
            elif bad:
                ctx.violation(RULE, key, where(planner_fns[p], bad[0][2]), "the planner builds the mutating operator %s into a plan not marked as a write: %s" % (short, bad[0][1]))
            else:
                ctx.ok(RULE, key, "%d construction site(s), %d plan(s) rooted in them: %s" % (len(scalls), linked, verdicts[0][1]))


def run(ctx, F, cg):
    ctx.rule("R24a", "in text_to_cypher the statement is returned only on the true branch of a classifier applied to that same statement")
    ctx.rule("R24b", "the classifier parses the statement, plans the parse result, and returns only `false` or `!plan.is_write`")
    ctx.rule("R24c", "ExecutionPlan::is_write is set by the planner for every mutating operator kind (is_mutating siblings all reach a plan with is_write=true)")
    cs = [r for p, r in F.fns.items() if p.startswith("samyama::nlq::NLQPipeline::text_to_cypher::") and r["coroutine"]]
    if len(cs) != 1:
        ctx.anchor_failure("R24a", "NLQPipeline::text_to_cypher coroutine (found %d)" % len(cs))
        return "anchor failure"
    r = cs[0]
    b = Body(F.mir(r["path"]), r)
    ctx.saw_fn(r["path"]); ctx.saw_calls(len(b.calls()))
    oks = [(i, rv, line) for i, j, pl, rv, line, exp in b.stmts() if pl[0] == 0 and rv[0] == "agg" and rv[1].endswith("Result::Ok")]
    ctx.floor("R24a", "Ok(..) returns in text_to_cypher", len(oks), 1)
    for k, (i, rv, line) in enumerate(oks):
        inst = "text_to_cypher|ok-return|%d" % k
        payload = od.chain_locals(b, rv[2][0]) if rv[2] and rv[2][0][0] != "k" else set()
        # boolean-returning local calls whose true edge dominates this block
        gate = None
        for c in b.calls():
            if c.path in F.fns and b.local_ty(c.dest[0]) == "bool" and c.target is not None:
                sb_, t = b.switch_on(c.dest[0], c.target)
                if t is not None:
                    false_t = [tgt for v, tgt in t[2] if v == "0"]
                    true_t = t[3]
                    if false_t and i in b.reachable(true_t, avoid={sb_}) and i not in b.reachable(false_t[0], avoid={sb_}) and b.dominates(sb_, i):
                        # applied to the same string?
                        argl = set()
                        for a in c.args:
                            if a[0] != "k":
                                argl |= od.chain_locals(b, a)
                        if argl & payload:
                            gate = c
        if gate is None:
            ctx.violation("R24a", inst, where(r, line), "a statement is returned without being gated by a classifier applied to that same statement")
            continue
        ok, why, fns = classifier_verdict(F, gate.path)
        ctx.saw_fn(gate.path)
        if ok:
            ctx.ok("R24a", inst, "gated by %s on the returned string" % gate.path)
            ctx.ok("R24b", gate.path.replace("samyama::nlq::", ""), why)
        else:
            ctx.ok("R24a", inst, "gated by %s on the returned string" % gate.path)
            ctx.violation("R24b", gate.path.replace("samyama::nlq::", ""), where(F.fns[gate.path]), "classifier rejected: " + why)
    check_planner_marks_writes(ctx, F, cg, "R24c")
    return ("Decided: the NLQ pipeline hands back a statement only on the true branch of a classifier applied to that same string, and the classifier "
            "is `!plan(parse(stmt)).is_write` (false on parse or plan error) — so whatever the model returns, an accepted statement is one the engine "
            "plans as a read. R24c cross-checks that every operator declaring is_mutating()=true is planned with is_write=true. "
            "Not decided: that is_mutating() itself is right for each operator (C04/C23 territory).")
