"""C21 — the RESP decoder is safe on arbitrary bytes: client-supplied integers are bounded
before casts / arithmetic / allocation / indexing, recursion carries a bounded depth, and
the panic-capable sites reachable from the decoder are an enumerated, reviewed set."""
from ..cfg import Body, name_matches, const_int
from ..report import where
from ..facts import in_module
from .. import taint, quantguard
from .. import orderdom as od

LEVEL = "other"
MODULE = "samyama::protocol::resp::"

# Reviewed panic-capable sites reachable from RespValue::decode (key: function|kind|callee-or-op|ordinal).
# Every entry carries the argument why it cannot fire; anything not listed is reported.
REVIEWED = {
    "RespValue::decode|call|index|0": "`&buf[..]` is RangeFull: cannot be out of range",
    "RespValue::decode|call|advance|0": "`used` is the byte count returned by parse_frame for a frame found inside `buf[..]`; every parser returns header+payload lengths it has just sliced successfully, so used <= buf.len()",
    "RespValue::read_line|call|index|0": "`&src[..pos]`: pos comes from windows(2).position over the same slice, so pos+2 <= src.len()",
    "RespValue::read_line|assert|overflow:Add|0": "pos + 2 with pos < src.len() <= isize::MAX",
    "RespValue::read_line::{closure#1}|assert|overflow:Add|0": "pos + 2 with pos < src.len() <= isize::MAX",
    "RespValue::read_line::{closure#1}|call|index|0": "`&src[..pos]`: pos comes from windows(2).position over the same slice",
    "RespValue::decode_bulk_string|call|index|0": "`&src[header..]`: header = pos+2 <= src.len() from read_line on the same slice",
    "RespValue::decode_bulk_string|assert|overflow:Add|2": "header + len: both bounded (len <= 512MB checked, header <= src.len())",
    "RespValue::decode_bulk_string|assert|overflow:Add|3": "(header + len) + 2: bounded as above",
    "RespValue::decode_array|call|index|0": "`&src[used..]`: used = header + sum of element lengths, each returned for a frame found inside the previous remainder, so used <= src.len()",
    "RespValue::decode_array|assert|overflow:Add|0": "depth + 1 with depth < MAX_NESTING_DEPTH",
    "RespValue::decode_array|assert|overflow:Add|1": "used += n with used + n <= src.len()",
    "RespValue::decode_null|assert|bounds|0": "line[0] is guarded by line.len() == 1 on the same path",
}

PANIC_FNS = ("unwrap", "expect", "unwrap_unchecked", "panic", "panic_fmt", "panic_display", "unreachable", "unreachable_display",
             "begin_panic", "assert_failed", "unwrap_failed", "expect_failed", "todo", "unimplemented", "panic_explicit", "panic_nounwind")
INDEXY = ("index", "index_mut")
BUFY = ("advance", "split_to", "split_off", "copy_to_slice", "get_u8")


def decoder_scope(F, cg, root):
    """Local functions reachable from the decoder entry, staying inside protocol::resp."""
    par = cg.reach([root], cha=False, stop=lambda p: not in_module(p, MODULE))
    return sorted(p for p in par if in_module(p, MODULE) and p in F.fns)


def run(ctx, F, cg):
    ctx.rule("R21a", "a number parsed from client bytes reaches a cast / unchecked arithmetic / allocation size / slice index / buffer advance only under dominating comparisons that bound it (lower bound for signed->unsigned, constant or buffer-length upper bound otherwise)")
    ctx.rule("R21b", "every call-graph cycle of the decoder passes a function that compares a depth parameter with a constant and exits, and the parameter strictly grows around the cycle")
    ctx.rule("R21c", "panic-capable sites reachable from RespValue::decode: no unwrap/expect/panic; index/advance/arithmetic sites are guarded (R21a) or in the reviewed table")
    dec = F.fn("protocol::resp::RespValue::decode")
    scope = decoder_scope(F, cg, dec["path"])
    ctx.floor("R21a", "decoder functions reachable from RespValue::decode", len(scope), 8)
    bodies = {p: Body(F.mir(p), F.fns[p]) for p in scope}
    for p in scope:
        ctx.saw_fn(p)
        ctx.saw_calls(len(bodies[p].calls()))
    # ---- R21a ------------------------------------------------------------------------------
    # interprocedural: helpers returning tainted values, parameters receiving tainted values
    returns_t = set()
    param_t = {p: set() for p in scope}
    results = {}
    for _ in range(4):
        changed = False
        for p in scope:
            b = bodies[p]
            tr = taint.compute_taint(b, extra_sources=returns_t, tainted_params=sorted(param_t[p]))
            results[p] = tr
            if 0 in tr.tainted and p not in returns_t and _returns_number(b):
                returns_t.add(p)
                changed = True
            for c in b.calls():
                if c.path in param_t:
                    for ix, a in enumerate(c.args):
                        if a[0] != "k" and a[1][0] in tr.tainted and _is_int(b.local_ty(a[1][0])):
                            if (ix + 1) not in param_t[c.path]:
                                param_t[c.path].add(ix + 1)
                                changed = True
        if not changed:
            break
    nsrc = 0
    nsinks = 0
    for p in scope:
        b = bodies[p]
        tr = results[p]
        nsrc += len(tr.roots)
        sinks, bad = taint.check_function(b, tr)
        nsinks += len(sinks)
        short = p.replace(MODULE, "")
        ordn = {}
        for s in sinks:
            k = (s["kind"])
            o = ordn.get(k, 0)
            ordn[k] = o + 1
            inst = "%s|%s|%d" % (short, s["kind"], o)
            srcs = "; ".join(tr.roots[r][0] for r in sorted(s["roots"]))
            if s in bad:
                ctx.violation("R21a", inst, where(F.fns[p], s["line"]),
                              "%s — value from [%s] reaches this sink with facts %s, needs one of %s" % (s["desc"], srcs, s["have"], [sorted(x) for x in s["need"]]))
            else:
                ctx.ok("R21a", inst, "%s bounded by %s (source: %s)" % (s["desc"], s["have"], srcs))
    # ---- R21d: quantitative length guards ---------------------------------------------------------------------
    ctx.rule("R21d", "for every slice indexed by a range whose end derives from a client-supplied number, the dominating length comparisons imply end <= len for every value (evaluated on a grid over (number, length)) — an off-by-k guard passes the qualitative rule but not this one")
    nq = 0
    for p in scope:
        b = bodies[p]
        tr = results[p]
        if not tr.tainted:
            continue
        short = p.replace(MODULE, "")
        k = 0
        for c in b.calls():
            m = c.path.rsplit("::", 1)[-1]
            if m not in ("index", "index_mut", "split_at", "split_at_mut", "split_to", "advance", "get_unchecked") or len(c.args) < 2:
                continue
            a = c.args[1]
            if a[0] == "k" or a[1][0] not in tr.tainted:
                continue
            ends = []
            for o in b.origins(a[1][0]):
                if o[0] == "agg" and ("ops::Range" in o[1]) and o[2]:
                    ends.append(o[2][-1])
            if not ends and _is_int(b.local_ty(a[1][0])):
                ends.append(a)
            for e_op in ends:
                if e_op[0] == "k":
                    continue
                nq += 1
                inst = "%s|bound|%d" % (short, k)
                k += 1
                ok, detail = quantguard.check_bound(b, c.bb, od.expr_of(b, e_op), set())
                if ok:
                    ctx.ok("R21d", inst, detail)
                else:
                    ctx.violation("R21d", inst, where(F.fns[p], c.line), "length guard does not cover this %s: %s" % (m, detail))
    ctx.floor("R21d", "client-bounded slice operations", nq, 1)
    ctx.floor("R21a", "numeric parse sources in the decoder", nsrc, 3)
    ctx.floor("R21a", "sinks reached by client-supplied numbers", nsinks, 3)

    # ---- R21b recursion ------------------------------------------------------------------------
    sccs = _sccs(scope, lambda p: [c for c in cg.callees(p) if c in bodies])
    ncyc = 0
    for comp in sccs:
        if len(comp) == 1 and comp[0] not in cg.callees(comp[0]):
            continue
        ncyc += 1
        comp_s = set(comp)
        guards = {}
        for p in comp:
            g = _depth_guard(bodies[p], comp_s)
            if g is not None:
                guards[p] = g
        name = "+".join(sorted(x.replace(MODULE, "") for x in comp))
        if not guards:
            ctx.violation("R21b", "unbounded-recursion|" + name, where(F.fns[comp[0]]),
                          "recursive cycle {%s} has no function that compares an integer parameter with a constant and exits before recursing" % name)
            continue
        # removing guard functions must break every cycle
        rest = [p for p in comp if p not in guards]
        sub = _sccs(rest, lambda p: [c for c in cg.callees(p) if c in comp_s and c not in guards])
        cyc_left = [c for c in sub if len(c) > 1 or c[0] in cg.callees(c[0])]
        if cyc_left:
            ctx.violation("R21b", "cycle-bypasses-guard|" + name, where(F.fns[cyc_left[0][0]]), "a recursive cycle avoids the depth guard")
            continue
        # depth must strictly increase on the way back into each guard function
        okinc = True
        for gp, gparam in guards.items():
            if not _depth_increases(bodies, comp_s, gp, gparam):
                okinc = False
                ctx.violation("R21b", "depth-not-increasing|" + gp.replace(MODULE, ""), where(F.fns[gp]),
                              "the depth parameter _%d of %s is not provably increased around the recursive cycle" % (gparam, gp))
        if okinc:
            ctx.ok("R21b", name, "cycle guarded by %s" % ", ".join("%s(_%d)" % (g.replace(MODULE, ""), prm) for g, prm in guards.items()))
    ctx.floor("R21b", "recursive cycles in the decoder", ncyc, 1)

    # ---- R21c panic inventory -------------------------------------------------------------------
    nsites = 0
    for p in scope:
        b = bodies[p]
        short = p.replace(MODULE, "")
        tr = results[p]
        ordn = {}
        sites = []
        for c in b.calls():
            if c.exp == 1 and c.expname in ("format", "write", "writeln", "format_args"):
                continue
            m = c.path.rsplit("::", 1)[-1]
            if m in PANIC_FNS or c.path.startswith(("core::panicking", "std::rt::panic", "std::panicking")):
                sites.append(("forbidden", m, c.line, c))
            elif m in INDEXY and ("Index" in c.path or "index" in c.path):
                sites.append(("call", "index", c.line, c))
            elif m in BUFY and ("bytes" in c.path or "Buf" in c.path):
                sites.append(("call", m, c.line, c))
        for i in sorted(b.live_blocks()):
            t = b.blocks[i]["t"]
            if t[0] == "assert":
                sites.append(("assert", t[1], b.blocks[i]["l"], i))
        edges = taint.guard_edges(b, tr) if tr.tainted else {}
        for kind, what, line, obj in sites:
            nsites += 1
            k = (kind, what)
            o = ordn.get(k, 0)
            ordn[k] = o + 1
            inst = "%s|%s|%s|%d" % (short, kind, what, o)
            if kind == "forbidden":
                ctx.violation("R21c", inst, where(F.fns[p], line), "%s is not allowed in the decoder (reachable from RespValue::decode on client bytes)" % obj.path)
                continue
            # tainted operand? then R21a already decides it
            involved = False
            if kind == "call":
                involved = any(a[0] != "k" and a[1][0] in tr.tainted for a in obj.args)
            else:
                involved = any(o2[0] != "k" and o2[1][0] in tr.tainted for o2 in b.blocks[obj]["t"][5])
            if involved:
                ctx.ok("R21c", inst, "operands are client-supplied numbers: decided by R21a")
                continue
            if kind == "call" and what == "index" and _is_full_or_const_range(b, obj):
                ctx.ok("R21c", inst, "RangeFull / constant index into a fixed-size value")
                continue
            if inst in REVIEWED:
                ctx.ok("R21c", inst, "reviewed: " + REVIEWED[inst])
            else:
                ctx.violation("R21c", inst, where(F.fns[p], line), "panic-capable site (%s %s) reachable from the decoder is neither guarded nor in the reviewed table" % (kind, what))
    ctx.floor("R21c", "panic-capable sites enumerated", nsites, 8)
    ctx.assumptions.append("allocation inside String::from_utf8 / to_vec is proportional to bytes already received (argument, not computed)")
    ctx.assumptions.append("panics inside std (e.g. allocation failure) are out of scope")
    return ("Decided: every integer parsed from client bytes in protocol::resp is bounded by dominating comparisons before it reaches a cast, "
            "unchecked arithmetic, an allocation size, a slice index or a buffer advance; decoder recursion is depth-bounded; and the set of "
            "panic-capable sites reachable from RespValue::decode equals the guarded + reviewed set (no unwrap/expect/panic). "
            "Not decided: that the reviewed arguments about lengths returned by the sub-parsers are arithmetically right.")


def _is_int(ty):
    return ty in taint.NUM_TYPES


def _returns_number(b):
    """The function returns a bare integer, possibly wrapped in Result/Option — the shape of a
    `parse_len` helper.  Composite results (value, consumed-length) are not treated as sources: the
    consumed length is an invariant of the sub-parser (<= slice length), covered by the reviewed table."""
    t = b.local_ty(0)
    for n in taint.NUM_TYPES:
        if t == n or t.startswith("std::result::Result<%s," % n) or t == "std::option::Option<%s>" % n \
                or t.startswith("std::result::Result<std::option::Option<%s>," % n):
            return True
    return False


def _is_full_or_const_range(b, c):
    if "RangeFull" in c.full:
        return True
    return False


def _sccs(nodes, succ):
    index = {}
    low = {}
    st = []
    on = set()
    out = []
    counter = [0]
    import sys
    sys.setrecursionlimit(10000)

    def strong(v):
        index[v] = low[v] = counter[0]
        counter[0] += 1
        st.append(v)
        on.add(v)
        for w in succ(v):
            if w not in index:
                strong(w)
                low[v] = min(low[v], low[w])
            elif w in on:
                low[v] = min(low[v], index[w])
        if low[v] == index[v]:
            comp = []
            while True:
                w = st.pop()
                on.discard(w)
                comp.append(w)
                if w == v:
                    break
            out.append(comp)
    for n in nodes:
        if n not in index:
            strong(n)
    return out


def _depth_guard(b, comp):
    """Return the index of an integer parameter that is compared with a constant such that one
    side of the comparison cannot reach a call into the cycle; None if there is none."""
    for prm in range(1, b.argc + 1):
        if not _is_int(b.local_ty(prm)):
            continue
        derived = b.forward_taint({prm}, through_calls=lambda c, ix: False)
        for i in b.live_blocks():
            t = b.blocks[i]["t"]
            if t[0] != "switch" or t[1][0] == "k":
                continue
            cl = t[1][1][0]
            ds = [d for d in b.defs().get(cl, ()) if d[0] == "stmt"]
            if len(ds) != 1:
                continue
            rv = ds[0][4]
            if rv[0] != "bin" or rv[1] not in taint.NEG:
                continue
            a, c2 = rv[2], rv[3]
            if not ((a[0] != "k" and a[1][0] in derived and c2[0] == "k") or (c2[0] != "k" and c2[1][0] in derived and a[0] == "k")):
                continue
            # every recursive call must lie behind this switch, and one side must not reach any
            rec_blocks = {c.bb for c in b.calls() if c.path in comp}
            if not rec_blocks:
                continue
            sides = b.succ(i)
            exits = [s for s in sides if not (b.reachable(s) & rec_blocks)]
            dominated = all(b.dominates(i, rb) for rb in rec_blocks)
            if exits and dominated:
                return prm
    return None


def _depth_increases(bodies, comp, gp, gparam):
    """Every call into gp from the cycle passes (caller's depth-ish int param) or that + positive const,
    and at least one edge of every cycle increases.  Approximation: follow the parameter backwards one
    level: each caller q passes for gparam either `x + c` (c>0) with x a param of q, or a param of q itself;
    in the latter case q's callers (within the cycle) must pass `x + c`."""
    seen = set()
    work = [(gp, gparam, False)]
    ok_any = False
    while work:
        f, prm, inc = work.pop()
        if (f, prm) in seen:
            continue
        seen.add((f, prm))
        callers = [(q, c) for q in comp for c in bodies[q].calls() if c.path == f]
        if not callers:
            return False
        for q, c in callers:
            if prm - 1 >= len(c.args):
                return False
            a = c.args[prm - 1]
            if a[0] == "k":
                continue
            kind, src = _arg_shape(bodies[q], a[1][0])
            if kind == "inc":
                ok_any = True
                continue
            if kind == "param":
                if q == gp and src == gparam:
                    return False        # recursion passing the same depth
                work.append((q, src, False))
                continue
            return False
    return ok_any


def _arg_shape(b, l):
    """('inc', param) if l = param + positive const; ('param', n) if l is a copy of parameter n; else ('other',None)."""
    for _ in range(6):
        if 1 <= l <= b.argc:
            return ("param", l)
        ds = [d for d in b.defs().get(l, ()) if d[0] == "stmt"]
        if len(ds) != 1:
            return ("other", None)
        rv = ds[0][4]
        src = None
        if rv[0] == "use" and rv[1][0] != "k":
            pl = rv[1][1]
            l = pl[0]
            continue
        if rv[0] == "bin" and rv[1] in ("Add", "AddWithOverflow", "AddUnchecked"):
            a, c = rv[2], rv[3]
            if c[0] == "k" and a[0] != "k":
                v = const_int(c)
                base = _arg_shape(b, a[1][0])
                if v is not None and v > 0 and base[0] in ("param", "inc"):
                    return ("inc", base[1])
            return ("other", None)
        return ("other", None)
    return ("other", None)
