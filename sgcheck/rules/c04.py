"""C04 — write statements have their openCypher effect: plain DELETE refuses connected nodes,
no store error dropped by write operators, MERGE searches before it creates, decisions read the
merged property view."""
from ..cfg import Body
from ..report import where
from .. import orderdom as od
from ..facts import in_module
from .c11 import dropped_results
from .. import storerules as sr

LEVEL = "other"
OPS = "samyama::query::executor::operator::"
# GraphStore methods returning GraphResult whose error matters to the statement
ERR_FNS = ("set_node_property", "delete_node", "create_edge", "create_edge_with_properties", "add_label_to_node", "remove_label_from_node", "delete_edge")
# reviewed exceptions: (function suffix, callee, ordinal) -> reason
DROP_OK = {
    ("DeleteOperator as samyama::query::executor::operator::PhysicalOperator>::next_mut", "delete_edge"): "an edge collected from both adjacency lists (self-loop) or named by several rows is deleted once; EdgeNotFound on the second attempt is the expected outcome",
    ("MergeOperator::apply_labels", "add_label_to_node"): "the node id was bound by this MERGE (matched or just created) under the same &mut store; add_label_to_node's only error is NodeNotFound",
    ("DeleteOperator as samyama::query::executor::operator::PhysicalOperator>::next_mut", "delete_node"): "the node was checked to exist and to be free of relationships on the lines above; delete_node's only error is NodeNotFound",
}


def reviewed_drop(F, p, r, c, m):
    """reasons why discarding the Result of store write `m` at call `c` of function `p` is accepted (shared with C05)"""
    exc = [why for (fn, callee), why in DROP_OK.items() if fn in p and callee == m]
    if not exc and m == "delete_node" and "DeleteOperator::" in p and "{closure" not in p:
        # the reviewed DeleteOperator exception, re-established structurally when the code moves into a method of
        # the operator: the discarded delete is dominated by a test of the node's relationships (made directly,
        # through an operator helper that reads both adjacency directions, or in a closure built before it)
        bb = Body(F.mir(p), r)
        reltests = {x for x, rx in F.fns.items() if "DeleteOperator::" in x and any(cc.endswith("GraphStore::get_outgoing_edges") for cc in rx["calls"]) and any(cc.endswith("GraphStore::get_incoming_edges") for cc in rx["calls"])}
        def _tests(fnp):
            rx = F.fns.get(fnp, {})
            return any(cc in reltests or cc.endswith("GraphStore::get_outgoing_edges") for cc in rx.get("calls", []))
        doms = [cc.bb for cc in bb.calls() if (cc.path in reltests or cc.path.endswith("GraphStore::get_outgoing_edges"))]
        doms += [i for i, j, pl, rv, line, exp in bb.stmts() if rv[0] == "agg" and rv[1].startswith("closure:") and _tests(rv[1][8:])]
        if any(bb.dominates(d, c.bb) and d != c.bb for d in doms):
            exc = ["(moved) " + DROP_OK[("DeleteOperator as samyama::query::executor::operator::PhysicalOperator>::next_mut", "delete_node")]]
    if not exc and m in ("delete_node", "delete_edge"):
        # rollback-on-error idiom: the discarded delete is followed, on every path, by the construction of the Err that is returned
        bb = Body(F.mir(p), r)
        errb = {i for i, j, pl, rv, line, exp in bb.stmts() if rv[0] == "agg" and rv[1].endswith("Result::Err")} | {cc.bb for cc in bb.calls() if cc.path.endswith("from_residual")}
        rets = bb.ret_blocks()
        if c.target is not None and rets and all(bb.must_pass(c.target, rb, errb) for rb in rets if rb in bb.reachable(c.target)):
            exc = ["cleanup of a half-built entity on an error path: the statement already returns Err"]
    return exc


def run(ctx, F, cg):
    ctx.rule("R04a", "in DeleteOperator::next_mut a delete_node reached with detach == false is dominated by a relationship test, and a connected node leads to an Err return")
    ctx.rule("R04b", "no Result of a fallible GraphStore write is discarded by a write operator (reviewed exceptions listed with their reason)")
    ctx.rule("R04d", "every path of the MERGE operator to create_node* passes a candidate lookup (get_nodes_by_label / all_nodes / index lookup) that is not conditional on the pattern having a label")
    ctx.rule("R04e", "WITH is a barrier: WithBarrierOperator::next_mut emits nothing before its input is exhausted (after a pulled row the only continuations are another pull or an error), so writes after WITH see all reads / writes before it")
    sr.barrier_drains(ctx, F, cg, "R04e")
    ctx.rule("R04f", "a helper that resolves a pattern's property map returns, on every path, a map that received the content of each input property map (content flow that never passes through a scalar): MERGE matches and creates on all the properties written in the pattern")
    sr.map_inputs_reach_output(ctx, F, cg, "R04f")
    ctx.rule("R04g", "MERGE decides per row from the store as it is now: in the relationship-MERGE operator the test that guards create_edge is made on the result of a store lookup (edge_between) issued for the current row — not on a value cached in the operator across rows, which goes stale as soon as an earlier row of the same statement has created the relationship")
    mm = [r_ for p_, r_ in F.fns.items() if r_.get("trait") and r_["trait"].endswith("PhysicalOperator") and p_.endswith("::next_mut") and "Merge" in (r_.get("self") or "") and any(c.endswith("GraphStore::create_edge") for c in r_["calls"])]
    ctx.floor("R04g", "MERGE operators that create relationships", len(mm), 1)
    for r_ in mm:
        b_ = Body(F.mir(r_["path"]), r_)
        ctx.saw_fn(r_["path"]); ctx.saw_calls(len(b_.calls()))
        short = r_["self"].rsplit("::", 1)[-1]
        creates = [c for c in b_.calls() if c.path.endswith("GraphStore::create_edge")]
        for k, c in enumerate(creates):
            # the Option test that dominates the creation and whose None side reaches it
            dec = None
            for i in sorted(b_.live_blocks(), reverse=True):
                t = b_.blocks[i]["t"]
                if t[0] != "switch" or t[1][0] == "k" or not b_.dominates(i, c.bb):
                    continue
                ds = b_.defs().get(t[1][1][0], [])
                if len(ds) == 1 and ds[0][0] == "stmt" and ds[0][4][0] == "discr" and b_.local_ty(ds[0][4][1][0]).startswith("std::option::Option<") and "EdgeId" in b_.local_ty(ds[0][4][1][0]) or (len(ds) == 1 and ds[0][0] == "stmt" and ds[0][4][0] == "discr" and "edge::Edge" in b_.local_ty(ds[0][4][1][0])):
                    dec = (i, ds[0][4][1])
                    break
            inst = "%s|create_edge|%d" % (short, k)
            if dec is None:
                ctx.violation("R04g", inst + "|no-existence-test", where(r_, c.line), "%s creates a relationship without a dominating test of an existing one" % short)
                continue
            src = dec[1]
            og = b_.origins(src[0], through_calls=lambda cc: [0] if cc.path.rsplit("::", 1)[-1] in ("branch", "cloned", "copied", "map", "and_then", "deref") else None)
            lookups = [o[1] for o in og if o[0] == "call" and o[1].path.startswith("samyama::graph::store::GraphStore::")]
            cached = [o[1] for o in og if o[0] == "call" and not o[1].path.startswith("samyama::graph::store::GraphStore::")]
            fields = [f for o in og if o[0] == "call" for a in o[1].args[:1] if a[0] != "k" for f in od.chain_fields(b_, a, through=("deref", "deref_mut", "as_ref", "as_mut", "entry", "get", "get_mut", "borrow", "borrow_mut")) if short in f]
            if lookups and not cached and not fields:
                ctx.ok("R04g", inst, "guarded by the result of %s for this row" % lookups[0].path.rsplit("::", 1)[-1])
            else:
                what = ("a value obtained through %s" % cached[0].path.rsplit("::", 1)[-1]) if cached else ("operator state %s" % fields[:1])
                ctx.violation("R04g", inst + "|decision-not-from-store", where(r_, c.line),
                              "%s decides whether the relationship exists from %s instead of a store lookup made for this row: when two rows of one statement carry the same endpoints, the second still sees 'absent' and creates a duplicate" % (short, what))
    ctx.rule("R04h", "no write operator turns an evaluation error into a value: a SET / CREATE / MERGE expression that fails (type error, division by zero) fails the statement; `Err(_) => Null` made `SET n.p = 1/0` succeed and remove the property (inventory shared with C35's R35f)")
    from .c35 import error_discard_sites, SORT_KEY_SITES
    bad_sites = [x for x in error_discard_sites(F) if not any(k_ in x[0] for k_ in SORT_KEY_SITES)]
    if bad_sites:
        for owner, callee, how, r_, line in bad_sites:
            ctx.violation("R04h", "%s|%s|%s|evaluation-error-dropped" % (owner, callee, how), where(r_, line), "%s drops the error of an expression evaluation (%s): the statement succeeds with a null / default in place of the failed value" % (owner, how))
    else:
        ctx.ok("R04h", "no-dropped-evaluation-error", "no evaluation error is dropped outside the reviewed sort-key sites")
    # ---- R04j: the MERGE matchers test every pattern label on the candidate ----------------------------------------
    ctx.rule("R04j", "MERGE's candidate pools come from the index of the pattern's FIRST label only (get_nodes_by_label), so each matcher — the single-node matcher in next_mut and the path matcher reached from merge_path — must itself read the candidate's Node.labels; without that read `MERGE (a:A:B {k:1})-[:R]->(c)` matches an existing (:A {k:1}) and creates nothing")
    MO = "samyama::query::executor::operator::MergeOperator"
    def _closure_set(root, stop=()):
        seen, todo = set(), [root]
        while todo:
            q = todo.pop()
            if q in seen or q not in F.fns or q in stop:
                continue
            seen.add(q)
            rr = F.fns[q]
            todo += [c for c in rr["closures"]]
            todo += [c for c in rr["calls"] if c.startswith(MO + "::") or c.startswith("<" + MO + " as")]
        return seen
    roots = {"path-matcher": [p_ for p_ in F.fns if p_ == MO + "::merge_path"],
             "node-matcher": [p_ for p_ in F.fns if p_.startswith("<" + MO + " as ") and p_.endswith("PhysicalOperator>::next_mut")]}
    for nm, rs in sorted(roots.items()):
        if len(rs) != 1:
            ctx.anchor_failure("R04j", "MergeOperator %s root (found %d)" % (nm, len(rs)))
            continue
        stop = tuple(roots["path-matcher"]) if nm == "node-matcher" else ()
        fs = _closure_set(rs[0], stop)
        ctx.saw_fn(*sorted(fs))
        pools = [q for q in fs if any(c.endswith("GraphStore::get_nodes_by_label") for c in F.fns[q]["calls"])]
        readers = sorted(q for q in fs if any(x.endswith("graph::node::Node.labels") for x in F.fns[q]["r"]) or any(c.endswith(("Node::has_label", "GraphStore::node_has_label", "Node::labels")) for c in F.fns[q]["calls"]))
        if not pools:
            ctx.ok("R04j", "MergeOperator|" + nm, "no candidate pool drawn from a single label index in %d functions" % len(fs))
        elif readers:
            ctx.ok("R04j", "MergeOperator|" + nm, "candidate labels read by %s" % [q.replace(MO, "MergeOperator").split("PhysicalOperator>::")[-1] for q in readers][:3])
        else:
            ctx.violation("R04j", "MergeOperator|%s|labels-unchecked" % nm, where(F.fns[rs[0]]), "the %s draws candidates from the first label's index (get_nodes_by_label) and none of its %d functions reads the candidate's labels: a node carrying only that first label satisfies a multi-label MERGE pattern, so MERGE matches it instead of creating the missing node/path" % (nm, len(fs)))
    ctx.rule("R04c", "decisions about existing nodes (MERGE match test, constraint backfill) read the merged property view, not Node.properties alone")
    # ---- R04a ------------------------------------------------------------------------------------------
    dn = [r for p, r in F.fns.items() if "DeleteOperator as" in p and p.endswith("::next_mut")]
    if len(dn) != 1:
        ctx.anchor_failure("R04a", "DeleteOperator::next_mut (found %d)" % len(dn))
    else:
        r = dn[0]
        b = Body(F.mir(r["path"]), r)
        ctx.saw_fn(r["path"]); ctx.saw_calls(len(b.calls()))
        dels = [c for c in b.calls() if c.path.endswith("GraphStore::delete_node")]
        edge_tests = [c for c in b.calls() if c.path.rsplit("::", 1)[-1] in ("get_outgoing_edges", "get_incoming_edges", "degree", "outgoing_degree", "incoming_degree", "has_edges", "edge_count_of", "get_outgoing_edge_targets", "get_incoming_edge_sources")]
        errs = [i for i, j, pl, rv, line, exp in b.stmts() if rv[0] == "agg" and (rv[1].endswith("ExecutionError::RuntimeError") or rv[1].endswith("ExecutionError::GraphError") or rv[1].endswith("Result::Err"))]
        # detach flag switch
        det_sw = []
        for i in sorted(b.live_blocks()):
            t = b.blocks[i]["t"]
            if t[0] == "switch" and t[1][0] != "k":
                if any(f.endswith("DeleteOperator.detach") for f in od.chain_fields(b, t[1])):
                    det_sw.append((i, t))
        ctx.floor("R04a", "delete_node calls in DeleteOperator", len(dels), 1)
        bad = []
        for d in dels:
            # is this delete on the detach==true side only?
            detach_only = False
            for i, t in det_sw:
                false_t = [tgt for v, tgt in t[2] if v == "0"]
                if false_t and d.bb not in b.reachable(false_t[0], avoid={i}) and b.dominates(i, d.bb):
                    detach_only = True
            if detach_only:
                continue
            # plain path: must be dominated by an edge test whose "connected" outcome does not reach it
            guarded = any(b.dominates(e.bb, d.bb) or e.bb in b.reachable(0) and d.bb in b.reachable(e.bb) for e in edge_tests)
            refuses = bool(errs) and bool(edge_tests)
            if not (guarded and refuses):
                bad.append(d)
        if bad:
            ctx.violation("R04a", "DeleteOperator|plain-delete-cascades", where(r, bad[0].line), "a plain DELETE reaches delete_node (which cascades to the node's relationships) without first refusing a connected node")
        else:
            ctx.ok("R04a", "DeleteOperator|plain-delete-refuses-connected", "%d delete_node call(s): detach-only or behind a relationship test with an Err exit" % len(dels))
    # ---- R04b ------------------------------------------------------------------------------------------
    dropped, total = dropped_results(F, ERR_FNS, module_prefix="samyama::query::executor::")
    ctx.floor("R04b", "executor call sites of fallible store writes", total, 20)
    nd = 0
    for p, r, c, m, k in dropped:
        short = p.replace("samyama::query::executor::operator::", "").replace("samyama::query::executor::", "")
        exc = reviewed_drop(F, p, r, c, m)
        if exc:
            ctx.ok("R04b", "%s|%s|%d" % (short, m, k), "reviewed exception: " + exc[0])
            continue
        nd += 1
        ctx.violation("R04b", "%s|%s|%d" % (short, m, k), where(r, c.line), "the Result of GraphStore::%s is discarded: the statement reports success although the write was refused" % m)
    if nd == 0:
        ctx.ok("R04b", "no-dropped-store-results", "%d call sites; every Result is used or a reviewed exception" % total)
    # ---- R04d ------------------------------------------------------------------------------------------
    mfs = [r for p, r in F.fns.items() if "MergeOperator" in p and any(c.rsplit("::", 1)[-1].startswith("create_node") and "GraphStore" in c for c in r["calls"])]
    ctx.floor("R04d", "MERGE functions that create nodes", len(mfs), 2)
    for r in sorted(mfs, key=lambda x: x["path"]):
        b = Body(F.mir(r["path"]), r)
        ctx.saw_fn(r["path"]); ctx.saw_calls(len(b.calls()))
        short = r["path"].replace(OPS, "")
        creates = [c for c in b.calls() if c.path.rsplit("::", 1)[-1].startswith("create_node") and "GraphStore" in c.path]
        LOOK = ("get_nodes_by_label", "all_nodes", "node_ids_by_label", "get_index", "nodes_with_label")
        from ..wrappers import thin_wrappers
        # a search helper of the operator that performs a lookup on every path (label or no label) is the lookup
        lookw = thin_wrappers(F, lambda c_: c_.rsplit("::", 1)[-1] in LOOK and "GraphStore" in c_, OPS + "MergeOperator::")
        lookups = {c.bb for c in b.calls() if c.path.rsplit("::", 1)[-1] in LOOK or c.path in lookw}
        # the search must not be conditional on the pattern having a label: from the None side of every
        # `labels.first()` test, a create is reachable only through a lookup
        bad = None
        for f in b.calls():
            if f.path.rsplit("::", 1)[-1] in ("first", "is_empty", "get") and "Label" in f.full and f.target is not None:
                for sb in b.reachable(f.bb):
                    t = b.blocks[sb]["t"]
                    if t[0] == "switch" and t[1][0] != "k":
                        ds = b.defs().get(t[1][1][0], [])
                        if ds and ds[0][0] == "stmt" and ds[0][4][0] == "discr" and ds[0][4][1][0] == f.dest[0]:
                            none_t = [tgt for v, tgt in t[2] if v == "0"] or [t[3]]
                            for c in creates:
                                if c.bb in b.reachable(none_t[0], avoid=lookups | {sb}):
                                    bad = c
                            break
        if lookups and bad is None:
            ctx.ok("R04d", short, "a candidate lookup exists and is not skipped for label-free pattern nodes")
        else:
            ctx.violation("R04d", short + "|create-without-search", where(r, (bad or creates[0]).line), "MERGE can reach create_node without having searched for an existing match (a pattern node without a label skips the lookup): it creates a duplicate each time")
    # ---- R04c ------------------------------------------------------------------------------------------
    for p, r in sorted(F.fns.items()):
        if not in_module(p, "samyama::query::executor::"):
            continue
        if not (("MergeOperator" in p and (p.endswith("node_matches") or p.endswith("::next_mut"))) or ("CreateConstraintOperator" in p and p.endswith("::next_mut"))):
            continue
        reads_row = any(x.endswith("node::Node.properties") for x in r["r"]) or any(c.endswith("Node::get_property") for c in r["calls"])
        merged = any(c.rsplit("::", 1)[-1] in ("node_properties_full", "resolve_property", "read_property", "get_property_merged") or c.endswith("ColumnStore::get_property") for c in r["calls"])
        short = p.replace(OPS, "")
        if reads_row and not merged:
            ctx.violation("R04c", short + "|row-map-only", where(r), "%s decides on Node.properties alone; a node whose properties live in the column store (every snapshot import) is not recognised" % short)
        elif reads_row:
            ctx.ok("R04c", short, "reads the merged view")
    return ("Decided: refusal of connected plain DELETE, no swallowed store errors in write operators, MERGE's search-before-create on every path, and which "
            "existence decisions read only the row map (known findings). Not decided: the rest of MERGE's match semantics, SET ordering, returned rows.")
