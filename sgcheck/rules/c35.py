"""C35 — parameters vs inlined literals: every evaluation arm for Expression::Parameter looks the
value up or fails (never a default), substitution is exact and recursive, and precedes planning."""
from ..cfg import Body
from ..report import where
from .c10 import pats, vname

LEVEL = "other"
EXPR = "samyama::query::ast::Expression"
# variants whose Expression children are deliberately left to evaluation time (lookup-or-fail applies there)
DEFERRED = {
    "ExistsSubquery": "the subquery's predicates are evaluated by eval_exists_subquery against the outer record, where an unsubstituted $p is looked up or fails (R35a)",
}


def run(ctx, F, cg):
    ctx.rule("R35a", "every match arm on Expression::Parameter in a value-producing evaluator looks the name up (Record::get / params map) and otherwise returns an error; none constructs Null or a default")
    ctx.rule("R35b", "substitute_expr has no wildcard arm, recurses into every variant that has Expression-typed children (or the variant is a reviewed deferral), and replaces a parameter by Literal(value.clone()) or fails")
    ctx.rule("R35c", "in both executors substitute_params runs before the planner on every path that plans")
    adt = F.adt("query::ast::Expression")
    variants = {v["name"]: v for v in adt["variants"]}
    evals = 0
    for fn in sorted(F.all_arm_fns()):
        r = F.fns.get(fn)
        if r is None or "Value" not in r["sig"].split("->")[-1]:
            continue
        for m in F.arms(fn):
            if not m["sty"].replace("&", "").replace("mut ", "").strip().endswith("ast::Expression"):
                continue
            for arm in m["arms"]:
                vs = [vname(p) for p in pats(arm["pat"])]
                if "Parameter" not in vs:
                    continue
                evals += 1
                short = fn.replace("samyama::query::executor::", "")
                inst = "%s|Parameter-arm" % short
                ctx.saw_fn(fn)
                lookup = any(c.endswith("Record::get") or c.endswith("HashMap::<K, V, S, A>::get") or c.endswith("::get") for c in arm["calls"])
                nulls = [c for c in arm["ctors"] if c.endswith("::Null")]
                shared = len(vs) > 1
                if nulls or not lookup:
                    ctx.violation("R35a", inst, where(r, arm["lo"]), "the Parameter arm %s: a query with $p would evaluate to a default instead of failing or using the bound value" % ("constructs Null" if nulls else "does not look the parameter up"))
                elif shared:
                    ctx.violation("R35a", inst, where(r, arm["lo"]), "Parameter shares an arm with %s" % [v for v in vs if v != "Parameter"])
                else:
                    ctx.ok("R35a", inst, "looks $name up, fails otherwise")
    ctx.floor("R35a", "evaluator arms on Expression::Parameter", evals, 6)
    # ---- R35b ------------------------------------------------------------------------------------------
    se = F.fn("query::executor::substitute_expr")
    ctx.saw_fn(se["path"])
    ms = [m for m in F.arms(se["path"]) if m["sty"].replace("&", "").replace("mut ", "").strip().endswith("ast::Expression")]
    if not ms:
        ctx.anchor_failure("R35b", "match over Expression in substitute_expr")
    else:
        covered = {}
        wild = False
        for arm in ms[0]["arms"]:
            for p in pats(arm["pat"]):
                v = vname(p)
                if v is None:
                    wild = True
                else:
                    covered[v] = arm
        if wild:
            ctx.violation("R35b", "substitute_expr|wildcard", where(se), "substitute_expr has a wildcard arm: a new Expression variant with children would silently keep its parameters")
        miss = sorted(set(variants) - set(covered))
        if miss and not wild:
            ctx.violation("R35b", "substitute_expr|coverage", where(se), "variants without arm: %s" % miss)
        for v, vd in sorted(variants.items()):
            has_children = any("ast::Expression" in f[1] for f in vd["fields"])
            arm = covered.get(v)
            if v == "Parameter" and arm:
                okp = any(c.endswith("Expression::Literal") for c in arm["ctors"]) and any(c.endswith("Clone::clone") for c in arm["calls"]) and any(c.endswith("Err") or "ExecutionError" in c for c in arm["ctors"])
                if okp:
                    ctx.ok("R35b", "substitute_expr|Parameter", "Literal(value.clone()) or Err for an unbound name")
                else:
                    ctx.violation("R35b", "substitute_expr|Parameter", where(se, arm["lo"]), "the Parameter arm does not replace by Literal(value.clone()) / fail on a missing binding")
                continue
            if not has_children or arm is None:
                continue
            rec = any(c.endswith("substitute_expr") for c in arm["calls"])
            if rec:
                ctx.ok("R35b", "substitute_expr|recurses|" + v, "recurses into children")
            elif v in DEFERRED:
                ctx.ok("R35b", "substitute_expr|deferred|" + v, "reviewed deferral: " + DEFERRED[v])
            else:
                ctx.violation("R35b", "substitute_expr|no-recursion|" + v, where(se, arm["lo"]), "variant %s has Expression children but substitute_expr does not recurse into them" % v)
    # ---- R35c ------------------------------------------------------------------------------------------
    n = 0
    for p, r in sorted(F.fns.items()):
        if p.endswith("::execute") and r.get("self", "") and ("QueryExecutor" in r["self"]) and not r.get("trait"):
            b = Body(F.mir(p), r)
            subs = [c for c in b.calls() if c.path.endswith("executor::substitute_params")]
            plans = [c for c in b.calls() if c.path.endswith("QueryPlanner::plan")]
            if not plans:
                continue
            n += 1
            ctx.saw_fn(p); ctx.saw_calls(len(b.calls()))
            short = r["self"].rsplit("::", 1)[-1].split("<")[0]
            if subs and all(not any(s.bb in b.reachable(pl.bb) for s in subs) and any(pl.bb in b.reachable(s.bb) for s in subs) for pl in plans):
                ctx.ok("R35c", short + "::execute", "substitute_params precedes every plan() call")
            else:
                ctx.violation("R35c", short + "::execute|plan-before-substitution", where(r), "the query is planned before / without parameter substitution")
    ctx.floor("R35c", "executor entry points that plan", n, 2)
    return ("Decided: the only ways a parameterised run could differ silently from the inlined one — an evaluation arm that defaults instead of looking up, "
            "an inexact or non-recursive substitution, or planning before substitution. Refusal (an error for an unsubstituted $p) is allowed by the property. "
            "Not decided: equality of results (C01).")
