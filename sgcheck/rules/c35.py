"""C35 — parameters vs inlined literals: every evaluation arm for Expression::Parameter looks the
value up or fails (never a default), substitution is exact and recursive, and precedes planning."""
from ..cfg import Body
from ..report import where
from ..facts import in_module
from .c10 import pats, vname

LEVEL = "other"
EXPR = "samyama::query::ast::Expression"
# variants whose Expression children are deliberately left to evaluation time (lookup-or-fail applies there)
DEFERRED = {
    "ExistsSubquery": "the subquery's predicates are evaluated by eval_exists_subquery against the outer record, where an unsubstituted $p is looked up or fails (R35a)",
}


def run(ctx, F, cg):
    ctx.rule("R35a", "every match arm on Expression::Parameter in a value-producing evaluator looks the name up (Record::get / params map) and otherwise returns an error; none constructs Null or a default")
    ctx.rule("R35b", "substitute_expr has no wildcard arm, recurses into every variant that has Expression-typed children (or the variant is a reviewed deferral), and replaces a parameter by Literal(value.clone()) or fails")
    ctx.rule("R35c", "in both executors substitute_params runs before the planner on every path that plans")
    adt = F.adt("query::ast::Expression")
    variants = {v["name"]: v for v in adt["variants"]}
    evals = 0
    for fn in sorted(F.all_arm_fns()):
        r = F.fns.get(fn)
        if r is None or "Value" not in r["sig"].split("->")[-1]:
            continue
        for m in F.arms(fn):
            if not m["sty"].replace("&", "").replace("mut ", "").strip().endswith("ast::Expression"):
                continue
            for arm in m["arms"]:
                vs = [vname(p) for p in pats(arm["pat"])]
                if "Parameter" not in vs:
                    continue
                evals += 1
                short = fn.replace("samyama::query::executor::", "")
                inst = "%s|Parameter-arm" % short
                ctx.saw_fn(fn)
                lookup = any(c.endswith("Record::get") or c.endswith("HashMap::<K, V, S, A>::get") or c.endswith("::get") for c in arm["calls"])
                nulls = [c for c in arm["ctors"] if c.endswith("::Null")]
                shared = len(vs) > 1
                if nulls or not lookup:
                    ctx.violation("R35a", inst, where(r, arm["lo"]), "the Parameter arm %s: a query with $p would evaluate to a default instead of failing or using the bound value" % ("constructs Null" if nulls else "does not look the parameter up"))
                elif shared:
                    ctx.violation("R35a", inst, where(r, arm["lo"]), "Parameter shares an arm with %s" % [v for v in vs if v != "Parameter"])
                else:
                    # the key looked up in the row is the name in the parameter namespace (`$name`, a formatted
                    # string), never the bare name: that one is a row variable
                    bare = None
                    mb = F.mir(fn)
                    if mb is not None:
                        bb_ = Body(mb, r)
                        thr = lambda cc: [0] if cc.path.rsplit("::", 1)[-1] in ("deref", "as_str", "borrow", "as_ref", "must_use", "as_deref") else None
                        for c in bb_.calls():
                            if c.path.endswith("record::Record::get") and arm["lo"] <= c.line <= arm["hi"] and len(c.args) > 1 and c.args[1][0] != "k":
                                og = bb_.origins(c.args[1][1][0], through_calls=thr)
                                if not any(o[0] in ("call", "via") and o[1].path.rsplit("::", 1)[-1] in ("format", "format_inner", "concat", "push_str", "join") or (o[0] in ("call", "via") and "fmt::format" in o[1].path) for o in og):
                                    bare = c.line
                    if bare:
                        ctx.violation("R35a", inst + "|bare-name-lookup", where(r, bare), "the Parameter arm looks the bare name up in the row: `$x` then silently resolves to a row variable `x` instead of the bound value (or an error)")
                    else:
                        ctx.ok("R35a", inst, "looks $name up, fails otherwise")
    ctx.floor("R35a", "evaluator arms on Expression::Parameter", evals, 6)
    # ---- R35b ------------------------------------------------------------------------------------------
    se = F.fn("query::executor::substitute_expr")
    ctx.saw_fn(se["path"])
    ms = [m for m in F.arms(se["path"]) if m["sty"].replace("&", "").replace("mut ", "").strip().endswith("ast::Expression")]
    if not ms:
        ctx.anchor_failure("R35b", "match over Expression in substitute_expr")
    else:
        covered = {}
        wild = False
        for arm in ms[0]["arms"]:
            for p in pats(arm["pat"]):
                v = vname(p)
                if v is None:
                    wild = True
                else:
                    covered[v] = arm
        if wild:
            ctx.violation("R35b", "substitute_expr|wildcard", where(se), "substitute_expr has a wildcard arm: a new Expression variant with children would silently keep its parameters")
        miss = sorted(set(variants) - set(covered))
        if miss and not wild:
            ctx.violation("R35b", "substitute_expr|coverage", where(se), "variants without arm: %s" % miss)
        for v, vd in sorted(variants.items()):
            has_children = any("ast::Expression" in f[1] for f in vd["fields"])
            arm = covered.get(v)
            if v == "Parameter" and arm:
                okp = any(c.endswith("Expression::Literal") for c in arm["ctors"]) and any(c.endswith("Clone::clone") for c in arm["calls"]) and any(c.endswith("Err") or "ExecutionError" in c for c in arm["ctors"])
                if okp:
                    ctx.ok("R35b", "substitute_expr|Parameter", "Literal(value.clone()) or Err for an unbound name")
                else:
                    ctx.violation("R35b", "substitute_expr|Parameter", where(se, arm["lo"]), "the Parameter arm does not replace by Literal(value.clone()) / fail on a missing binding")
                continue
            if not has_children or arm is None:
                continue
            rec = any(c.endswith("substitute_expr") for c in arm["calls"])
            if rec:
                ctx.ok("R35b", "substitute_expr|recurses|" + v, "recurses into children")
            elif v in DEFERRED:
                ctx.ok("R35b", "substitute_expr|deferred|" + v, "reviewed deferral: " + DEFERRED[v])
            else:
                ctx.violation("R35b", "substitute_expr|no-recursion|" + v, where(se, arm["lo"]), "variant %s has Expression children but substitute_expr does not recurse into them" % v)
    # ---- R35c ------------------------------------------------------------------------------------------
    n = 0
    for p, r in sorted(F.fns.items()):
        if p.endswith("::execute") and r.get("self", "") and ("QueryExecutor" in r["self"]) and not r.get("trait"):
            b = Body(F.mir(p), r)
            subs = [c for c in b.calls() if c.path.endswith("executor::substitute_params")]
            plans = [c for c in b.calls() if c.path.endswith("QueryPlanner::plan")]
            if not plans:
                continue
            n += 1
            ctx.saw_fn(p); ctx.saw_calls(len(b.calls()))
            short = r["self"].rsplit("::", 1)[-1].split("<")[0]
            if subs and all(not any(s.bb in b.reachable(pl.bb) for s in subs) and any(pl.bb in b.reachable(s.bb) for s in subs) for pl in plans):
                # the only reason to skip the substitution is that both parameter maps are empty: every branch that
                # can bypass substitute_params on the way to plan() is decided by is_empty() tests alone
                sub_bbs = {s.bb for s in subs}
                culprit = None
                for i in sorted(b.live_blocks()):
                    t = b.blocks[i]["t"]
                    if t[0] != "switch" or t[1][0] == "k":
                        continue
                    if not any(b.dominates(i, s.bb) or s.bb in b.reachable(i) for s in subs):
                        continue
                    bypass = [s_ for s_ in b.succ(i) if any(pl.bb in b.reachable(s_, avoid=sub_bbs | {i}) for pl in plans)]
                    takes = [s_ for s_ in b.succ(i) if sub_bbs & b.reachable(s_, avoid={i})]
                    if not bypass or not takes or set(bypass) == set(takes) and len(b.succ(i)) == 1:
                        continue
                    if not (set(b.succ(i)) - set(bypass)):
                        continue        # no side is forced through the substitution: not the deciding branch
                    og = b.origins(t[1][1][0], through_calls=lambda cc: None)
                    srcs = [o[1].path.rsplit("::", 1)[-1] for o in og if o[0] == "call"]
                    others = [x for x in srcs if x != "is_empty"]
                    if others or not srcs:
                        culprit = (b.blocks[i]["l"], others or ["a value that is not an emptiness test"])
                if culprit:
                    ctx.violation("R35c", short + "::execute|substitution-skipped-on-a-guess", where(r, culprit[0]),
                                  "whether parameters are substituted also depends on %s (line %d), not only on the parameter maps being empty: a statement the pre-check misjudges runs with its parameters left in place, and positions whose evaluation errors are swallowed (sort keys) then answer silently differently" % (culprit[1], culprit[0]))
                else:
                    ctx.ok("R35c", short + "::execute", "substitute_params precedes every plan() call and is skipped only when both parameter maps are empty")
            else:
                ctx.violation("R35c", short + "::execute|plan-before-substitution", where(r), "the query is planned before / without parameter substitution")
    ctx.floor("R35c", "executor entry points that plan", n, 2)
    # ---- R35d / R35e / R35f ---------------------------------------------------------------------------------
    ctx.rule("R35d", "sort keys swallow evaluation errors (a failing key sorts as null), so an unsubstituted parameter there differs silently: for every AST struct the substitution visits, every field holding an ORDER BY clause is visited too")
    ctx.rule("R35e", "the clause-pipeline form is substituted as well: substitute_params reads Query::clauses and its match over Clause has no wildcard arm and handles With / Where / Unwind / Return / Set")
    ctx.rule("R35f", "inventory of discarded evaluation errors in the executor: every site where the Err of an expression / predicate evaluation is dropped (unwrap_or, ok, ...) is a reviewed sort-key site; anywhere else a failing expression (or a leftover parameter) would silently change the rows")
    sp = F.fn("query::executor::substitute_params")
    # substitute_params, its closures, and the substitute_* helpers they call (transitively; substitute_expr is R35b's)
    helpers, work, seen_h = [], [sp["path"]], set()
    while work:
        hp = work.pop()
        if hp in seen_h or hp not in F.fns:
            continue
        seen_h.add(hp)
        hr_ = F.fns[hp]
        helpers.append(hr_)
        work.extend(hr_.get("closures") or [])
        work.extend(c for c in hr_["calls"] if c.startswith("samyama::query::executor::substitute_") and not c.endswith("substitute_expr"))
    visited = set()
    for h in helpers:
        visited |= set(h["r"]) | set(h["w"])
        ctx.saw_fn(h["path"])
    structs = sorted({f.rsplit(".", 1)[0] for f in visited if f.startswith("samyama::query::ast::") and "::" not in f.rsplit(".", 1)[0].replace("samyama::query::ast::", "")})
    n_ob = 0
    for st in structs:
        adt_ = F.adts.get(st)
        if not adt_ or adt_.get("enum"):
            continue
        for fname, fty, _ in adt_["variants"][0]["fields"]:
            if "ast::OrderByClause" in fty:
                n_ob += 1
                key = "%s.%s" % (st, fname)
                short = key.replace("samyama::query::ast::", "")
                if key in visited:
                    ctx.ok("R35d", short, "visited by the substitution")
                else:
                    ctx.violation("R35d", short + "|order-by-not-substituted", where(sp), "the substitution visits %s but not its `%s`: a parameter in that ORDER BY stays in place, its evaluation error is swallowed by the sort, and the rows come back in a different order than with the value inlined" % (st.rsplit("::", 1)[-1], fname))
    ctx.floor("R35d", "ORDER BY positions in visited AST structs", n_ob, 2)
    # every field of Query that bears an ORDER BY (directly, through a WITH clause or through the clause list) is
    # visited, and on every path to Ok; nested statements (fields holding a Query) are executed through execute(),
    # which substitutes again
    qadt = F.adts.get("samyama::query::ast::Query")
    if not qadt:
        ctx.anchor_failure("R35d", "ADT facts of ast::Query")
    else:
        spb = Body(F.mir(sp["path"]), sp)
        reads = {}
        def _places(rv):
            k = rv[0]
            if k in ("use", "repeat"):
                return [rv[1][1]] if rv[1][0] != "k" else []
            if k in ("ref", "rawptr"):
                return [rv[2]]
            if k in ("cast", "un"):
                return [rv[2][1]] if rv[2][0] != "k" else []
            if k == "bin":
                return [o[1] for o in rv[2:4] if o[0] != "k"]
            if k == "agg":
                return [o[1] for o in rv[2] if o[0] != "k"]
            if k == "discr":
                return [rv[1]]
            return []
        for i, j, pl, rv, line, exp in spb.stmts():
            for pp in _places(rv) + [pl]:
                for x in pp[1]:
                    if isinstance(x, str) and x.startswith("f:samyama::query::ast::Query."):
                        reads.setdefault(x.rsplit(".", 1)[-1], set()).add(i)
        for c in spb.calls():
            for a in c.args:
                if a[0] != "k":
                    for x in a[1][1]:
                        if isinstance(x, str) and x.startswith("f:samyama::query::ast::Query."):
                            reads.setdefault(x.rsplit(".", 1)[-1], set()).add(c.bb)
        oks = [i for i, j, pl, rv, line, exp in spb.stmts() if pl[0] == 0 and rv[0] == "agg" and rv[1].endswith("Result::Ok")]
        n_q = 0
        for fname, fty, _ in qadt["variants"][0]["fields"]:
            if not any(t in fty for t in ("ast::OrderByClause", "ast::WithClause", "ast::Clause>")) or "ast::Query" in fty:
                continue
            n_q += 1
            if fname not in reads:
                ctx.violation("R35d", "Query.%s|not-substituted" % fname, where(sp), "substitute_params never visits Query::%s (%s): a parameter in a WITH / ORDER BY held there stays in place, and where its evaluation error is swallowed (sort keys) the rows silently differ from the inlined form" % (fname, fty.replace("samyama::query::ast::", "")))
            elif (oks and not all(spb.must_pass(0, o, reads[fname]) for o in oks)) or not spb.success_passes(0, reads[fname]):
                ctx.violation("R35d", "Query.%s|skipped-on-a-path" % fname, where(sp), "substitute_params can return Ok without having visited Query::%s: on that path a parameter in its ORDER BY stays in place and the sort silently treats the key as null" % fname)
            else:
                ctx.ok("R35d", "Query.%s" % fname, "visited on every path to Ok")
        ctx.floor("R35d", "ORDER-BY-bearing fields of Query", n_q, 4)
    cm = [m for h in helpers for m in F.arms(h["path"]) if m["sty"].replace("&", "").replace("mut ", "").strip().endswith("ast::Clause")]
    if "samyama::query::ast::Query.clauses" not in visited or not cm:
        ctx.violation("R35e", "substitute_params|pipeline-not-visited", where(sp), "substitute_params does not walk Query::clauses: nothing in a clause-pipeline statement (WITH ... MATCH ... WITH ...) is substituted")
    else:
        handled, wild = set(), False
        for arm in cm[0]["arms"]:
            for p_ in pats(arm["pat"]):
                v = vname(p_)
                if v is None:
                    wild = True
                elif any(c.endswith("substitute_expr") or c.startswith("samyama::query::executor::substitute_") for c in arm["calls"]):
                    handled.add(v)
        need = {"With", "Where", "Unwind", "Return", "Set"}
        if wild:
            ctx.violation("R35e", "substitute_params|clause-wildcard", where(sp), "the match over Clause has a wildcard arm: a new clause kind would silently stay unsubstituted")
        elif need - handled:
            ctx.violation("R35e", "substitute_params|clause-not-substituted|" + ",".join(sorted(need - handled)), where(sp), "clause kinds %s are matched but not substituted" % sorted(need - handled))
        else:
            ctx.ok("R35e", "substitute_params|pipeline", "clauses walked; %s substituted, no wildcard" % sorted(handled))
    n_dis = 0
    for owner, callee, how, r_, line in error_discard_sites(F):
        n_dis += 1
        site = [k for k in SORT_KEY_SITES if (owner.endswith(k) or k in owner) and how in SORT_KEY_HOW]
        inst = "%s|%s|%s" % (owner, callee, how)
        if site:
            ctx.ok("R35f", inst, "reviewed: " + SORT_KEY_SITES[site[0]])
        else:
            ctx.violation("R35f", inst + "|evaluation-error-dropped", where(r_, line),
                          "%s drops the error of %s with %s: a predicate or expression that fails on some row (type error, leftover parameter) silently changes which rows are returned instead of failing the query" % (owner, callee, how))
    ctx.floor("R35f", "evaluation results whose error is discarded", n_dis, 3)
    return ("Decided: the only ways a parameterised run could differ silently from the inlined one — an evaluation arm that defaults instead of looking up, "
            "an inexact or non-recursive substitution, or planning before substitution. Refusal (an error for an unsubstituted $p) is allowed by the property. "
            "Not decided: equality of results (C01).")


EVAL = ("eval_expression", "evaluate_expression", "eval_predicate", "evaluate_predicate", "eval_predicate_standalone", "eval_expression_standalone")
DISCARD = ("unwrap_or", "unwrap_or_default", "unwrap_or_else", "ok", "is_ok", "is_err")
SORT_KEY_HOW = ("unwrap_or", "unwrap_or_default", "unwrap_or_else", "ok")     # the forms the reviewed sort-key sites use
SORT_KEY_SITES = {
    "SortOperator::key_of": "ORDER BY key: a failing key sorts as null (engine's leniency, same for inlined values)",
    "SortOperator::key_of_cached": "ORDER BY key (cached form), as key_of",
    "WithBarrierOperator::execute_all": "WITH ... ORDER BY key, as key_of",
}


def error_discard_sites(F):
    """(owner, evaluator, discarding method, fn record, line) for every evaluation Result whose Err is dropped."""
    out = []
    for p_, r_ in sorted(F.fns.items()):
        if not in_module(p_, "samyama::query::executor::") or "::tests::" in p_:
            continue
        if not any(c.rsplit("::", 1)[-1] in EVAL for c in r_["calls"]):
            continue
        m_ = F.mir(p_)
        if not m_:
            continue
        bb_ = Body(m_, r_)
        for c in bb_.calls():
            if c.path.rsplit("::", 1)[-1] not in EVAL:
                continue
            for u in bb_.uses_of(c.dest[0]):
                if u[0] == "call" and u[2] == 0 and u[1].path.rsplit("::", 1)[-1] in DISCARD and "Result" in u[1].path:
                    owner = p_.split("::{closure")[0].replace("samyama::query::executor::operator::", "").replace("samyama::query::executor::", "")
                    owner = owner.replace("<", "").replace(">", "")
                    out.append((owner, c.path.rsplit("::", 1)[-1], u[1].path.rsplit("::", 1)[-1], r_, c.line))
    # match form: `match eval(..) { Ok(v) => .., Err(_) => <a value> }`
    for fnp in F.all_arm_fns():
        fnp = fnp[1] if isinstance(fnp, tuple) else fnp
        r_ = F.fns.get(fnp)
        if not r_ or not in_module(fnp, "samyama::query::executor::") or "::tests::" in fnp:
            continue
        for m in F.arms(fnp):
            sty = m["sty"].replace("&", "").strip()
            if not (sty.startswith("std::result::Result<samyama::query::executor::record::Value") or sty.startswith("std::result::Result<bool, samyama::query::executor::ExecutionError")):
                continue
            for arm in m["arms"]:
                pt = arm["pat"]
                if pt.get("k") in ("wild", "bind") and not arm.get("guard"):
                    # `_ => <a value>` in a match over an evaluation Result: the Err lands here too
                    named_err = any(a2["pat"].get("k") == "variant" and a2["pat"]["p"].endswith("::Err") for a2 in m["arms"])
                    reraises = any(c.endswith("Result::Err") or "ExecutionError::" in c for c in arm["ctors"]) or any(c.rsplit("::", 1)[-1] in ("from_residual",) for c in arm["calls"])
                    if not named_err and not reraises and not arm.get("empty"):
                        owner = fnp.split("::{closure")[0].replace("samyama::query::executor::operator::", "").replace("samyama::query::executor::", "").replace("<", "").replace(">", "")
                        out.append((owner, "eval (match)", "wildcard-arm", r_, arm["lo"]))
                    continue
                if pt.get("k") != "variant" or not pt["p"].endswith("::Err"):
                    continue
                sub = pt.get("sub") or []
                ignores = all(x.get("k") == "wild" for x in sub) if sub else True
                reraises = any(c.endswith("Result::Err") or "ExecutionError::" in c for c in arm["ctors"]) or any(c.rsplit("::", 1)[-1] in ("from_residual",) for c in arm["calls"])
                if ignores and not reraises and not arm.get("empty"):
                    owner = fnp.split("::{closure")[0].replace("samyama::query::executor::operator::", "").replace("samyama::query::executor::", "").replace("<", "").replace(">", "")
                    out.append((owner, "eval (match)", "Err(_)-arm", r_, arm["lo"]))
    return out
