"""C12 — snapshot export/import reproduces the graph: codec tag tables agree, strings decoded by
identity, no made-up label, record kinds agree, export scans latest versions, labels reach the index."""
from ..cfg import Body
from ..report import where
from .c10 import pats, vname
from .. import orderdom as od
from .c32 import _Collect
from . import c06, c07

LEVEL = "other"
SNAP = "samyama::snapshot::"
IDENT = ("clone", "to_string", "to_owned", "as_str", "into", "from", "deref", "borrow", "as_ref")


def run(ctx, F, cg):
    ctx.rule("R12a", "property_to_json matches every PropertyValue variant without wildcard; the `__type` tags it writes are exactly the tags json_to_property dispatches on, and each tagged decoder builds the same variant")
    ctx.rule("R12b", "json_to_property turns a JSON string into PropertyValue::String by identity operations only (no trim / case change)")
    ctx.rule("R12c", "the import never invents a label: the label passed to create_node* is not a defaulted value for a node that had none")
    ctx.rule("R12d", "every record kind the exporter writes (\\\"t\\\":\\\"n\\\" / \\\"e\\\" / \\\"h\\\") has a reader branch, and vice versa")
    ctx.rule("R07b", "(shared with C07) export scans one version per node")
    ctx.rule("R06e", "(shared with C06) labels added on import reach label_index")
    adt = F.adt("graph::property::PropertyValue")
    variants = {v["name"] for v in adt["variants"]}
    enc = F.fn(SNAP + "property_to_json")
    dec = F.fn(SNAP + "json_to_property")
    ctx.saw_fn(enc["path"], dec["path"])
    # ---- R12a ------------------------------------------------------------------------------------------
    em = [m for m in F.arms(enc["path"]) if m["sty"].endswith("PropertyValue")]
    if not em:
        ctx.anchor_failure("R12a", "match over PropertyValue in property_to_json")
        return "anchor"
    seen, wild, wtags = set(), False, {}
    for arm in em[0]["arms"]:
        for p in pats(arm["pat"]):
            v = vname(p)
            if v is None:
                wild = True
                continue
            seen.add(v)
            lits = [l[2:] for l in arm["lits"] if l.startswith("s:")]
            if "__type" in lits:
                tags = [l for l in lits if l not in ("__type", "value", "months", "days", "seconds", "nanos") and l[:1].isupper()]
                for t in tags:
                    wtags[t] = v
    if wild or seen != variants:
        ctx.violation("R12a", "property_to_json|coverage", where(enc), "wildcard=%s, variants without arm: %s" % (wild, sorted(variants - seen)))
    else:
        ctx.ok("R12a", "property_to_json|coverage", "explicit arm for all %d variants" % len(variants))
    rtags = {}
    for m in F.arms(dec["path"]):
        if m["sty"] in ("&str", "&'static str") or m["sty"].endswith("str"):
            for arm in m["arms"]:
                if arm["pat"].get("k") == "lit" and arm["pat"]["v"].startswith("s:"):
                    tag = arm["pat"]["v"][2:]
                    built = [c.rsplit("::", 1)[-1] for c in arm["ctors"] if "PropertyValue::" in c]
                    rtags[tag] = built
    ctx.floor("R12a", "tagged encodings", len(wtags), 3)
    for t, v in sorted(wtags.items()):
        if t not in rtags:
            ctx.violation("R12a", "tag|%s|no-reader" % t, where(dec), "the exporter writes __type=%s for %s but json_to_property has no branch for it: the value comes back as a plain map" % (t, v))
        elif v not in rtags[t]:
            ctx.violation("R12a", "tag|%s|wrong-variant" % t, where(dec), "__type=%s is written for %s but decoded as %s" % (t, v, rtags[t]))
        else:
            ctx.ok("R12a", "tag|" + t, "%s <-> PropertyValue::%s" % (t, v))
    for t in sorted(set(rtags) - set(wtags)):
        ctx.violation("R12a", "tag|%s|no-writer" % t, where(enc), "json_to_property decodes __type=%s which the exporter never writes" % t)
    # ---- R12b ------------------------------------------------------------------------------------------
    dm = [m for m in F.arms(dec["path"]) if m["sty"].endswith("serde_json::Value")]
    okb = None
    for m in dm:
        for arm in m["arms"]:
            if any(vname(p) == "String" for p in pats(arm["pat"])):
                non_id = [c for c in arm["calls"] if c.rsplit("::", 1)[-1] not in IDENT]
                okb = (non_id, arm["lo"])
    if okb is None:
        ctx.anchor_failure("R12b", "Value::String arm of json_to_property")
    elif okb[0]:
        ctx.violation("R12b", "json_to_property|string-transformed", where(dec, okb[1]), "imported strings pass through %s: a value with surrounding whitespace (or different case) does not survive the round trip" % [c.rsplit("::", 1)[-1] for c in okb[0]])
    else:
        ctx.ok("R12b", "json_to_property|string-identity", "String decoded by identity")
    # ---- R12c ------------------------------------------------------------------------------------------
    imp = F.fn(SNAP + "import_tenant_inner")
    b = Body(F.mir(imp["path"]), imp)
    ctx.saw_fn(imp["path"]); ctx.saw_calls(len(b.calls()))
    creators = [c for c in b.calls() if c.path.rsplit("::", 1)[-1] in ("create_node", "create_node_stub") and "GraphStore" in c.path]
    ctx.floor("R12c", "single-label node creations in the import", len(creators), 2)
    for k, c in enumerate(creators):
        inst = "import_tenant_inner|%s|%d" % (c.path.rsplit("::", 1)[-1], k)
        a = c.args[1] if len(c.args) > 1 else None
        og = b.origins(a[1][0], through_calls=lambda cc: [0] if cc.path.rsplit("::", 1)[-1] in ("as_str", "deref", "clone", "as_ref") else None) if a and a[0] != "k" else []
        defaulted = [o[1] for o in og if o[0] == "call" and o[1].path.rsplit("::", 1)[-1] in ("unwrap_or_else", "unwrap_or", "unwrap_or_default")]
        if not defaulted:
            ctx.ok("R12c", inst, "label comes from the snapshot record")
            continue
        # acceptable only when the creation is on the branch where the node has labels (is_empty() == false)
        guarded = False
        for t_ in b.calls():
            if t_.path.rsplit("::", 1)[-1] == "is_empty" and t_.target is not None and b.dominates(t_.bb, c.bb) and t_.args and t_.args[0][0] != "k" \
                    and any(f.endswith(".labels") for f in od.chain_fields(b, t_.args[0])):
                sw = b.blocks[t_.target]["t"]
                if sw[0] == "switch":
                    false_t = [tgt for v, tgt in sw[2] if v == "0"]
                    if false_t and c.bb in b.reachable(false_t[0], avoid={t_.target}) and c.bb not in b.reachable(sw[3], avoid={t_.target}):
                        guarded = True
        if guarded:
            ctx.ok("R12c", inst, "defaulted label is only used on the branch where the node has labels")
        else:
            ctx.violation("R12c", inst + "|made-up-label", where(imp, c.line), "a node without labels is created with a defaulted label (%s): after the round trip it carries a label it never had" % defaulted[0].path.rsplit("::", 1)[-1])
    # ---- R12d ------------------------------------------------------------------------------------------
    def kinds(fnpath):
        out = set()
        todo = [fnpath] + F.fns[fnpath]["closures"]
        for q in todo:
            m = F.mir(q)
            if not m:
                continue
            txt = str(m["blocks"]) + str(m.get("prom"))
            import re
            for mm in re.finditer(r'\\\\?"t\\\\?":\\\\?"([a-z])\\\\?"', txt):
                out.add(mm.group(1))
        return out
    exp = F.fn_opt(SNAP + "export_tenant_with_compression")
    if exp is None:
        ctx.anchor_failure("R12d", "export_tenant_with_compression")
    else:
        ek = set()
        par = cg.reach([exp["path"]], stop=lambda p: not p.startswith(SNAP))
        for q in par:
            if q in F.fns and q.startswith(SNAP):
                ek |= kinds(q)
                # records are serde structs with a `t` field: collect the constants that flow into it
                qb = Body(F.mir(q), F.fns[q])
                for i, j, pl, rv, line, exp_ in qb.stmts():
                    if rv[0] == "agg" and rv[1].startswith("adt:samyama::snapshot::format::"):
                        an = rv[1][4:]
                        a = F.adts.get(an)
                        if not a:
                            continue
                        fields = [f[0] for f in a["variants"][0]["fields"]]
                        if "t" in fields:
                            o = rv[2][fields.index("t")]
                            txt = qb.operand_text(o) if o[0] != "k" else o[1]
                            if o[0] != "k":
                                for og in qb.origins(o[1][0], through_calls=lambda cc: [0] if cc.path.rsplit("::", 1)[-1] in ("to_string", "to_owned", "into", "from") else None):
                                    if og[0] == "const":
                                        txt += " " + og[1][1]
                            import re as _re
                            for mm in _re.finditer(r'const "([a-z])"', txt):
                                ek.add(mm.group(1))
        # writer record structs carry the kind as a serde field: fall back to ADT facts (`t` field) if no literal found
        ik = kinds(imp["path"])
        ctx.note("record kinds: exporter literals %s, importer literals %s" % (sorted(ek), sorted(ik)))
        if ik and ek and ek != ik:
            ctx.violation("R12d", "record-kinds", where(imp), "exporter writes kinds %s, importer reads %s" % (sorted(ek), sorted(ik)))
        elif ik:
            ctx.ok("R12d", "record-kinds", "importer dispatches on %s%s" % (sorted(ik), "" if ek else " (exporter kinds come from serde structs)"))
        else:
            ctx.anchor_failure("R12d", "record kind literals in the importer")
    # ---- shared ------------------------------------------------------------------------------------------
    class Fwd(_Collect):
        def __init__(self, outer, rules):
            _Collect.__init__(self)
            self.outer, self.rules = outer, rules
        def ok(self, rule, inst, detail=""):
            if rule in self.rules:
                self.outer.ok(rule, inst, detail)
        def violation(self, rule, inst, where_, msg):
            if rule in self.rules:
                self.outer.violation(rule, inst, where_, msg)
    c07.run(Fwd(ctx, ("R07b",)), F, cg)
    c06.run(Fwd(ctx, ("R06e",)), F, cg)
    return ("Decided: agreement of the writer's and reader's tag tables and record kinds, identity decoding of strings, no invented label, one version per exported node, "
            "imported labels indexed. Not decided: non-finite floats, `__type`-keyed user maps, graph isomorphism.")
