"""C12 — snapshot export/import reproduces the graph: codec tag tables agree, strings decoded by
identity, no made-up label, record kinds agree, export scans latest versions, labels reach the index."""
from ..cfg import Body
from ..report import where
from .c10 import pats, vname
from .. import orderdom as od
from .c32 import _Collect
from . import c06, c07

LEVEL = "other"
SNAP = "samyama::snapshot::"
IDENT = ("clone", "to_string", "to_owned", "as_str", "into", "from", "deref", "borrow", "as_ref")


def run(ctx, F, cg):
    ctx.rule("R12a", "property_to_json matches every PropertyValue variant without wildcard; the `__type` tags it writes are exactly the tags json_to_property dispatches on, and each tagged decoder builds the same variant")
    ctx.rule("R12b", "json_to_property turns a JSON string into PropertyValue::String by identity operations only (no trim / case change)")
    ctx.rule("R12c", "the import never invents a label: the label passed to create_node* is not a defaulted value for a node that had none")
    ctx.rule("R12d", "every record kind the exporter writes (\\\"t\\\":\\\"n\\\" / \\\"e\\\" / \\\"h\\\") has a reader branch, and vice versa")
    ctx.rule("R07b", "(shared with C07) export scans one version per node")
    ctx.rule("R06e", "(shared with C06) labels added on import reach label_index")
    adt = F.adt("graph::property::PropertyValue")
    variants = {v["name"] for v in adt["variants"]}
    enc = F.fn(SNAP + "property_to_json")
    dec = F.fn(SNAP + "json_to_property")
    ctx.saw_fn(enc["path"], dec["path"])
    # ---- R12a ------------------------------------------------------------------------------------------
    em = [m for m in F.arms(enc["path"]) if m["sty"].endswith("PropertyValue")]
    if not em:
        ctx.anchor_failure("R12a", "match over PropertyValue in property_to_json")
        return "anchor"
    seen, wild, wtags = set(), False, {}
    for arm in em[0]["arms"]:
        for p in pats(arm["pat"]):
            v = vname(p)
            if v is None:
                wild = True
                continue
            seen.add(v)
            lits = [l[2:] for l in arm["lits"] if l.startswith("s:")]
            if "__type" in lits:
                tags = [l for l in lits if l not in ("__type", "value", "months", "days", "seconds", "nanos") and l[:1].isupper()]
                for t in tags:
                    wtags[t] = v
    if wild or seen != variants:
        ctx.violation("R12a", "property_to_json|coverage", where(enc), "wildcard=%s, variants without arm: %s" % (wild, sorted(variants - seen)))
    else:
        ctx.ok("R12a", "property_to_json|coverage", "explicit arm for all %d variants" % len(variants))
    rtags = {}
    for m in F.arms(dec["path"]):
        if m["sty"] in ("&str", "&'static str") or m["sty"].endswith("str"):
            for arm in m["arms"]:
                if arm["pat"].get("k") == "lit" and arm["pat"]["v"].startswith("s:"):
                    tag = arm["pat"]["v"][2:]
                    built = [c.rsplit("::", 1)[-1] for c in arm["ctors"] if "PropertyValue::" in c]
                    rtags[tag] = built
    ctx.floor("R12a", "tagged encodings", len(wtags), 3)
    for t, v in sorted(wtags.items()):
        if t not in rtags:
            ctx.violation("R12a", "tag|%s|no-reader" % t, where(dec), "the exporter writes __type=%s for %s but json_to_property has no branch for it: the value comes back as a plain map" % (t, v))
        elif v not in rtags[t]:
            ctx.violation("R12a", "tag|%s|wrong-variant" % t, where(dec), "__type=%s is written for %s but decoded as %s" % (t, v, rtags[t]))
        else:
            ctx.ok("R12a", "tag|" + t, "%s <-> PropertyValue::%s" % (t, v))
    for t in sorted(set(rtags) - set(wtags)):
        ctx.violation("R12a", "tag|%s|no-writer" % t, where(enc), "json_to_property decodes __type=%s which the exporter never writes" % t)
    # ---- R12b ------------------------------------------------------------------------------------------
    dm = [m for m in F.arms(dec["path"]) if m["sty"].endswith("serde_json::Value")]
    okb = None
    for m in dm:
        for arm in m["arms"]:
            if any(vname(p) == "String" for p in pats(arm["pat"])):
                non_id = [c for c in arm["calls"] if c.rsplit("::", 1)[-1] not in IDENT]
                okb = (non_id, arm["lo"])
    if okb is None:
        ctx.anchor_failure("R12b", "Value::String arm of json_to_property")
    elif okb[0]:
        ctx.violation("R12b", "json_to_property|string-transformed", where(dec, okb[1]), "imported strings pass through %s: a value with surrounding whitespace (or different case) does not survive the round trip" % [c.rsplit("::", 1)[-1] for c in okb[0]])
    else:
        ctx.ok("R12b", "json_to_property|string-identity", "String decoded by identity")
    # ---- R12c ------------------------------------------------------------------------------------------
    imp = F.fn(SNAP + "import_tenant_inner")
    b = Body(F.mir(imp["path"]), imp)
    ctx.saw_fn(imp["path"]); ctx.saw_calls(len(b.calls()))
    creators = [c for c in b.calls() if c.path.rsplit("::", 1)[-1] in ("create_node", "create_node_stub") and "GraphStore" in c.path]
    ctx.floor("R12c", "single-label node creations in the import", len(creators), 2)
    for k, c in enumerate(creators):
        inst = "import_tenant_inner|%s|%d" % (c.path.rsplit("::", 1)[-1], k)
        a = c.args[1] if len(c.args) > 1 else None
        og = b.origins(a[1][0], through_calls=lambda cc: [0] if cc.path.rsplit("::", 1)[-1] in ("as_str", "deref", "clone", "as_ref") else None) if a and a[0] != "k" else []
        defaulted = [o[1] for o in og if o[0] == "call" and o[1].path.rsplit("::", 1)[-1] in ("unwrap_or_else", "unwrap_or", "unwrap_or_default")]
        if not defaulted:
            ctx.ok("R12c", inst, "label comes from the snapshot record")
            continue
        # acceptable only when the creation is on the branch where the node has labels (is_empty() == false)
        guarded = False
        for t_ in b.calls():
            if t_.path.rsplit("::", 1)[-1] == "is_empty" and t_.target is not None and b.dominates(t_.bb, c.bb) and t_.args and t_.args[0][0] != "k" \
                    and any(f.endswith(".labels") for f in od.chain_fields(b, t_.args[0])):
                sw = b.blocks[t_.target]["t"]
                if sw[0] == "switch":
                    false_t = [tgt for v, tgt in sw[2] if v == "0"]
                    if false_t and c.bb in b.reachable(false_t[0], avoid={t_.target}) and c.bb not in b.reachable(sw[3], avoid={t_.target}):
                        guarded = True
        if guarded:
            ctx.ok("R12c", inst, "defaulted label is only used on the branch where the node has labels")
        else:
            ctx.violation("R12c", inst + "|made-up-label", where(imp, c.line), "a node without labels is created with a defaulted label (%s): after the round trip it carries a label it never had" % defaulted[0].path.rsplit("::", 1)[-1])
    # ---- R12d ------------------------------------------------------------------------------------------
    def kinds(fnpath):
        out = set()
        todo = [fnpath] + F.fns[fnpath]["closures"]
        for q in todo:
            m = F.mir(q)
            if not m:
                continue
            txt = str(m["blocks"]) + str(m.get("prom"))
            import re
            for mm in re.finditer(r'\\\\?"t\\\\?":\\\\?"([a-z])\\\\?"', txt):
                out.add(mm.group(1))
        return out
    exp = F.fn_opt(SNAP + "export_tenant_with_compression")
    if exp is None:
        ctx.anchor_failure("R12d", "export_tenant_with_compression")
    else:
        ek = set()
        par = cg.reach([exp["path"]], stop=lambda p: not p.startswith(SNAP))
        for q in par:
            if q in F.fns and q.startswith(SNAP):
                ek |= kinds(q)
                # records are serde structs with a `t` field: collect the constants that flow into it
                qb = Body(F.mir(q), F.fns[q])
                for i, j, pl, rv, line, exp_ in qb.stmts():
                    if rv[0] == "agg" and rv[1].startswith("adt:samyama::snapshot::format::"):
                        an = rv[1][4:]
                        a = F.adts.get(an)
                        if not a:
                            continue
                        fields = [f[0] for f in a["variants"][0]["fields"]]
                        if "t" in fields:
                            o = rv[2][fields.index("t")]
                            txt = qb.operand_text(o) if o[0] != "k" else o[1]
                            if o[0] != "k":
                                for og in qb.origins(o[1][0], through_calls=lambda cc: [0] if cc.path.rsplit("::", 1)[-1] in ("to_string", "to_owned", "into", "from") else None):
                                    if og[0] == "const":
                                        txt += " " + og[1][1]
                            import re as _re
                            for mm in _re.finditer(r'const "([a-z])"', txt):
                                ek.add(mm.group(1))
        # writer record structs carry the kind as a serde field: fall back to ADT facts (`t` field) if no literal found
        ik = kinds(imp["path"])
        ctx.note("record kinds: exporter literals %s, importer literals %s" % (sorted(ek), sorted(ik)))
        if ik and ek and ek != ik:
            ctx.violation("R12d", "record-kinds", where(imp), "exporter writes kinds %s, importer reads %s" % (sorted(ek), sorted(ik)))
        elif ik:
            ctx.ok("R12d", "record-kinds", "importer dispatches on %s%s" % (sorted(ik), "" if ek else " (exporter kinds come from serde structs)"))
        else:
            ctx.anchor_failure("R12d", "record kind literals in the importer")
    # ---- R12e: every exported node record carries both property tiers ---------------------------------------------
    ctx.rule("R12e", "the exporter merges the column-store properties into every node record: within the node loop, every path from the loop head to the construction of the node record passes the read of the node's column keys (a read made conditional — e.g. only when the row map is empty — drops the column-only properties of mixed-tier nodes)")
    exp_ = [r for p_, r in F.fns.items() if p_ == SNAP + "export_tenant_with_compression"]
    if len(exp_) != 1:
        ctx.anchor_failure("R12e", "snapshot::export_tenant_with_compression")
    else:
        er = exp_[0]
        eb = Body(F.mir(er["path"]), er)
        recs = [(i, line) for i, j, pl, rv, line, exp in eb.stmts() if rv[0] == "agg" and rv[1].endswith("SnapshotNode")]
        colreads = {c.bb for c in eb.calls() if c.path.endswith("ColumnStore::get_property_keys")}
        nexts = [c for c in eb.calls() if c.path.rsplit("::", 1)[-1] == "next" and c.expname == "ForLoop"]
        ctx.floor("R12e", "node records built by the exporter", len(recs), 1)
        for k, (ri, rline) in enumerate(recs):
            # the loop over nodes: a for-loop head yielding &Node that dominates the record
            doms = [c for c in nexts if eb.dominates(c.bb, ri) and c.target is not None and "graph::node::Node" in eb.local_ty(c.dest[0])]
            head = doms[-1] if doms else None
            inst = "export|node-record|%d" % k
            if head is None:
                ctx.anchor_failure("R12e", "loop head of the exporter's node loop")
                continue
            if not colreads:
                ctx.violation("R12e", inst + "|columns-never-read", where(er, rline), "the exporter never reads the column store: properties of stub-loaded / imported nodes are not exported")
            elif eb.must_pass(head.target, ri, colreads):
                ctx.ok("R12e", inst, "every path from the loop head to the record passes ColumnStore::get_property_keys")
            else:
                ctx.violation("R12e", inst + "|columns-read-conditionally", where(er, rline),
                              "a node record can be built without reading the node's column-store keys: a node with some properties in the row map and others only in the column store (stub-loaded then SET, or imported) loses the column-only ones on export")
    # ---- R12h: every item of an exported collection yields its record ------------------------------------------------
    ctx.rule("R12h", "the exporter writes a record for every hierarchy declaration, node and full relationship it iterates: from the head of each of those loops, every path back to the head passes the construction of the record (or an error exit) — a `continue` on some state of the item (stale, empty, ...) drops that item from the snapshot")
    if len(exp_) == 1:
        from .. import mutpoints as mp_
        errs_ = {eb_ for eb_, el_, ew_ in mp_.error_exits(eb)}
        n_h = 0
        for rec_ty, item_ty in (("SnapshotHierarchyIndex", "HierarchySpec"), ("SnapshotNode", "graph::node::Node"), ("SnapshotEdge", "graph::edge::Edge")):
            recs_ = [(i, line) for i, j, pl, rv, line, exp in eb.stmts() if rv[0] == "agg" and rv[1].endswith(rec_ty)]
            heads = [c for c in nexts if c.target is not None and item_ty in eb.local_ty(c.dest[0])]
            for hd in heads:
                inside = [ri for ri, rl in recs_ if eb.dominates(hd.bb, ri) and hd.bb in eb.reachable(ri)]
                if not inside:
                    continue
                n_h += 1
                # the Some side of the head
                some_t = None
                for i in sorted(eb.reachable(hd.target)):
                    t_ = eb.blocks[i]["t"]
                    if t_[0] == "switch" and t_[1][0] != "k":
                        ds_ = eb.defs().get(t_[1][1][0], [])
                        if len(ds_) == 1 and ds_[0][0] == "stmt" and ds_[0][4][0] == "discr" and ds_[0][4][1][0] == hd.dest[0]:
                            one = [tg for v, tg in t_[2] if v == "1"]
                            some_t = one[0] if one else t_[3]
                            break
                inst = "export|%s-loop|%s" % (item_ty.rsplit("::", 1)[-1], rec_ty)
                if some_t is None:
                    ctx.anchor_failure("R12h", inst + ": Some side of the loop head")
                    continue
                skip = hd.bb in eb.reachable(some_t, avoid=set(inside) | errs_)
                if skip:
                    ctx.violation("R12h", inst + "|item-skipped", where(er, hd.line),
                                  "the exporter can go on to the next %s without writing its %s record: items in some state are silently left out of the snapshot" % (item_ty.rsplit("::", 1)[-1], rec_ty))
                else:
                    ctx.ok("R12h", inst, "every iteration builds the record")
        ctx.floor("R12h", "export loops that build a record per item", n_h, 3)
    # ---- R12f: the stub/full edge discriminator cannot drop an id ---------------------------------------------------
    ctx.rule("R12f", "the id set that tells full relationships from adjacency-only ones holds every id put into it: either insert grows the bitmap, or every constructor sizes it from the maximum of the ids it inserts (a size taken from the number of ids is too small after deletions left gaps, and the dropped relationship is exported twice)")
    ins = F.fn_opt("snapshot::EdgeIdSet::insert")
    if ins is None:
        ctx.anchor_failure("R12f", "snapshot::EdgeIdSet::insert")
    else:
        ib = Body(F.mir(ins["path"]), ins)
        grows = any(c.path.rsplit("::", 1)[-1] in ("resize", "resize_with", "extend", "push") for c in ib.calls())
        ctors = []
        for p_, r_ in sorted(F.fns.items()):
            if "::tests::" in p_ or not p_.startswith(SNAP):
                continue
            m_ = F.mir(p_)
            if not m_:
                continue
            cb = Body(m_, r_)
            for i, j, pl, rv, line, exp in cb.stmts():
                if rv[0] == "agg" and rv[1].endswith("EdgeIdSet"):
                    ctors.append((p_, r_, cb, rv, line))
        ctx.floor("R12f", "constructions of EdgeIdSet", len(ctors), 1)
        for p_, r_, cb, rv, line in ctors:
            short = p_.replace(SNAP, "")
            if grows:
                ctx.ok("R12f", short, "insert grows the bitmap")
                continue
            o = rv[2][0]
            og = cb.origins(o[1][0], through_calls=lambda c: list(range(len(c.args)))) if o[0] != "k" else []
            names = {x[1].path.rsplit("::", 1)[-1] for x in og if x[0] in ("call", "via")}
            if names & {"max", "max_by", "max_by_key", "fold", "last"}:
                # quantitative part: insert keeps id iff id/64 < len, so len(max) must exceed max/64 for every max
                len_op = o
                for d_ in cb.defs().get(o[1][0], []):
                    if d_[0] == "call" and d_[2].path.rsplit("::", 1)[-1] in ("from_elem", "with_capacity", "resize") and len(d_[2].args) >= 2:
                        len_op = d_[2].args[1]
                e_ = od.expr_of(cb, len_op)
                rts = [x for x in od.roots(e_)]
                verdict = None
                if len(rts) == 1:
                    try:
                        badm = [m_ for m_ in range(0, 400) if not (od.evaluate(e_, {rts[0]: m_}) > m_ // 64)]
                        verdict = badm
                    except Exception:
                        verdict = None
                if verdict is None:
                    ctx.violation("R12f", short + "|bitmap-length-not-evaluable", where(r_, line), "the bitmap length %s cannot be evaluated as a function of the maximum id (closed world: +, -, *, /, div_ceil)" % od.show(e_))
                elif verdict:
                    ctx.violation("R12f", short + "|bitmap-too-short", where(r_, line),
                                  "the bitmap length %s does not cover the largest id for max = %s…: insert silently drops that id, the relationship is not recognised as full and is exported a second time as a property-less stub" % (od.show(e_), verdict[:3]))
                else:
                    ctx.ok("R12f", short, "bitmap length %s > max/64 for every max in 0..400" % od.show(e_))
            else:
                ctx.violation("R12f", short + "|bitmap-not-sized-by-max", where(r_, line),
                              "EdgeIdSet::insert silently ignores an id beyond the bitmap, and %s sizes the bitmap from %s, not from the largest id: after deletions leave gaps a full relationship is not recognised and is written a second time as a property-less stub" % (short, sorted(names) or "a constant"))
    # ---- R12g: no field of an exported record is a constant ----------------------------------------------------
    ctx.rule("R12g", "every field of a record the exporter writes, other than the kind tag, is computed from the store: a field written as a constant (`reverse: false`, `measure_label: None`) cannot round-trip any other value, although the importer reads it back into the declaration")
    if len(exp_) == 1:
        n_rec = 0
        for i, j, pl, rv, line, exp in eb.stmts():
            if rv[0] != "agg":
                continue
            tyname = rv[1].rsplit("::", 1)[-1]
            if tyname not in ("SnapshotHierarchyIndex", "SnapshotNode", "SnapshotEdge"):
                continue
            n_rec += 1
            adt_ = F.adt("format::" + tyname)
            fnames = [f[0] for f in adt_["variants"][0]["fields"]]
            consts = []
            for fname, o in zip(fnames, rv[2]):
                if fname == "t":
                    continue
                if o[0] == "k":
                    consts.append("%s = %s" % (fname, o[1].replace("const ", "").strip()))
                    continue
                # a local whose every definition is a constant / an empty aggregate
                og = eb.origins(o[1][0])
                kinds_ = {x[0] for x in og}
                if kinds_ and kinds_ <= {"const"}:
                    consts.append("%s = constant" % fname)
                elif kinds_ and kinds_ <= {"agg", "const"} and all((x[0] != "agg") or (not x[2]) for x in og):
                    consts.append("%s = %s" % (fname, [x[1] for x in og if x[0] == "agg"][0].rsplit("::", 2)[-1] if [x for x in og if x[0] == "agg"] else "constant"))
            inst = "export|%s|%d" % (tyname, n_rec - 1)
            if consts:
                ctx.violation("R12g", inst + "|constant-field|" + consts[0].split(" =")[0], where(er, line),
                              "the exporter writes %s with %s: whatever the store holds for it is lost in the round trip (the importer reads this field back)" % (tyname, "; ".join(consts)))
            else:
                ctx.ok("R12g", inst, "all %d non-tag fields are computed" % (len(fnames) - 1))
        ctx.floor("R12g", "record constructions in the exporter", n_rec, 3)
    # ---- shared ------------------------------------------------------------------------------------------
    # ---- R12i: a declaration field copied into the spec is not discarded before the index is created -------------------
    ctx.rule("R12i", "in the hierarchy rebuild of the importer, once a field of the HierarchySpec has been assigned from the record (spec.reverse = decl.reverse) every later re-definition of the spec on the way to HierarchyIndexManager::create is derived from the spec itself (a builder call that takes it by value): rebuilding it from HierarchySpec::new drops the field, and the hierarchy comes back declared in the opposite orientation")
    imp_ = [r for p_, r in F.fns.items() if p_ == SNAP + "import_tenant_inner"]
    if len(imp_) != 1:
        ctx.anchor_failure("R12i", "import_tenant_inner")
    else:
        r = imp_[0]
        b = Body(F.mir(r["path"]), r)
        ctx.saw_fn(r["path"])
        creates = [c for c in b.calls() if c.path.endswith("HierarchyIndexManager::create")]
        specs = [l for l in range(len(b.mir["locals"])) if "hierarchy" in b.local_ty(l) and b.local_ty(l).endswith("HierarchySpec")]
        nwrites = 0
        bad = []
        for l in specs:
            writes = [(i, line, pl) for i, j, pl, rv, line, exp in b.stmts() if pl[0] == l and [x for x in pl[1] if x.startswith("f:")]]
            if not writes:
                continue
            nwrites += len(writes)
            def derived(op, depth=0):
                """the operand is the whole spec (moved / copied / passed by value through builder calls) — a clone of one
                of its fields is not"""
                if op[0] == "k" or depth > 8 or [x for x in op[1][1] if x != "*"]:
                    return False
                x = op[1][0]
                if x == l:
                    return True
                if not b.local_ty(x).endswith("HierarchySpec"):
                    return False
                dd = b.defs().get(x, [])
                if len(dd) != 1:
                    return False
                if dd[0][0] == "call":
                    return any(derived(a_, depth + 1) for a_ in dd[0][2].args)
                rv_ = dd[0][4]
                if rv_[0] == "use":
                    return derived(rv_[1], depth + 1)
                return False
            wblocks = {w[0] for w in writes}
            for d in b.defs().get(l, []):
                if d[0] == "stmt":
                    if d[3][1]:
                        continue        # a field write, not a re-definition
                    src_ok = d[4][0] == "use" and derived(d[4][1])
                    dbb, dline, dname = d[1], None, "an assignment"
                else:
                    c = d[2]
                    src_ok = any(derived(a) for a in c.args)
                    dbb, dline, dname = c.bb, c.line, c.path.rsplit("::", 2)[-2] + "::" + c.path.rsplit("::", 1)[-1]
                if src_ok:
                    continue
                after = [w for w in writes if dbb in b.reach_after(w[0], avoid=wblocks - {w[0]})]
                # the re-definition reaches create without the field being assigned again
                if after and dbb not in wblocks and any(cc.bb in b.reach_after(dbb, avoid=wblocks) for cc in creates):
                    bad.append((dline or after[0][1], dname, sorted({x[2:].rsplit(".", 1)[-1] for w in after for x in w[2][1] if x.startswith("f:")})))
        if not creates:
            ctx.anchor_failure("R12i", "HierarchyIndexManager::create call in import_tenant_inner")
        for k, (line, dname, fields) in enumerate(bad):
            ctx.violation("R12i", "import_tenant_inner|spec-rebuilt|%s" % ",".join(fields), where(r, line), "the spec is re-defined by %s from a value that does not derive from the spec whose field(s) %s were just copied from the record; the copy is lost before the index is created" % (dname, fields))
        if creates and not bad:
            ctx.ok("R12i", "import_tenant_inner|spec-fields-survive", "%d field assignment(s) from the record; every later re-definition of the spec takes the spec itself" % nwrites)
        ctx.floor("R12i", "spec field assignments from the hierarchy record", nwrites, 1)
    class Fwd(_Collect):
        def __init__(self, outer, rules):
            _Collect.__init__(self)
            self.outer, self.rules = outer, rules
        def ok(self, rule, inst, detail=""):
            if rule in self.rules:
                self.outer.ok(rule, inst, detail)
        def violation(self, rule, inst, where_, msg):
            if rule in self.rules:
                self.outer.violation(rule, inst, where_, msg)
    c07.run(Fwd(ctx, ("R07b",)), F, cg)
    c06.run(Fwd(ctx, ("R06e",)), F, cg)
    return ("Decided: agreement of the writer's and reader's tag tables and record kinds, identity decoding of strings, no invented label, one version per exported node, "
            "imported labels indexed. Not decided: non-finite floats, `__type`-keyed user maps, graph isomorphism.")
