"""C32 — replicated requests have their persistence effect on every replica: each mutating request
variant reaches its own persist function (which has a storage effect, C16), errors become
Response::Error, apply is deterministic, RaftNode::write applies before acknowledging."""
from ..cfg import Body
from ..report import where, Ctx
from . import c16, c18

LEVEL = "other"
NONDET = ("rand::", "getrandom", "std::env::", "uuid::", "std::thread::current", "std::process::id")
CLOCK = ("chrono::", "std::time::", "tokio::time::")


def words(name):
    out, cur = [], ""
    for ch in name:
        if ch.isupper() and cur:
            out.append(cur.lower())
            cur = ch
        elif ch == "_":
            if cur:
                out.append(cur.lower())
            cur = ""
        else:
            cur += ch
    if cur:
        out.append(cur.lower())
    return out


class _Collect:
    """Minimal ctx used to reuse the C16 verdicts."""
    def __init__(self):
        self.bad = {}
        self.good = set()
        self.early = {}
        self.anchors = []
        self.assumptions = []
    def rule(self, *a): pass
    def saw_fn(self, *a): pass
    def saw_calls(self, *a): pass
    def note(self, *a): pass
    def floor(self, *a): return True
    def ok(self, rule, inst, detail=""):
        if rule == "R16b":
            self.good.add(inst.split("|")[0])
    def violation(self, rule, inst, where_, msg):
        if rule in ("R16b", "R16e", "R16d"):
            self.bad[inst.split("|")[0]] = msg
        if rule == "R18b" and "dominates writes=False" in msg:
            self.early[inst.split("|")[0]] = msg
    def anchor_failure(self, *a): self.anchors.append(" ".join(str(x) for x in a))


def run(ctx, F, cg):
    ctx.rule("R32a", "each mutating Request variant's arm in GraphStateMachine::apply calls exactly one PersistenceManager::persist_* function whose name matches the variant, and maps its Err to Response::Error")
    ctx.rule("R32b", "every persist function so reached has a storage effect on every acknowledged path (shared with C16 R16b)")
    ctx.rule("R32c", "apply reaches no RNG / environment / process identity; the clock only through Node::new / Edge::new timestamps and logging")
    ctx.rule("R32d", "RaftNode::write applies the request to the state machine on every path to Ok")
    ap = [r for p, r in F.fns.items() if p.startswith("samyama::raft::state_machine::GraphStateMachine::apply::") and r["coroutine"]]
    if len(ap) != 1:
        ctx.anchor_failure("R32a", "GraphStateMachine::apply coroutine (found %d)" % len(ap))
        return "anchor failure"
    r = ap[0]
    ctx.saw_fn(r["path"])
    ms = [m for m in F.arms(r["path"]) if m["sty"].endswith("state_machine::Request")]
    if not ms:
        ctx.anchor_failure("R32a", "match over Request in apply")
        return "anchor failure"
    adt = F.adt("raft::state_machine::Request")
    variants = [v["name"] for v in adt["variants"]]
    col = _Collect()
    c16.run(col, F, cg)
    for a_ in col.anchors:
        ctx.anchor_failure("R32b", "shared C16 analysis: " + a_)
    ctx.rule("R32e", "a refused request has no storage effect: where a persist function can refuse (the tenant quota reservation of the creation paths), the refusal dominates its WAL and storage writes — otherwise the request is answered Response::Error while every replica recovers its effect (verdict shared with C18 R18b, dominance part only)")
    col18 = _Collect()
    c18.run(col18, F, cg)
    for a_ in col18.anchors:
        ctx.anchor_failure("R32e", "shared C18 analysis: " + a_)
    seen = {}
    nmut = 0
    wild = False
    used = {}
    def _deepen(arm):
        """arm facts with the calls / constructed variants of the state machine's own helpers folded in (two levels):
        an arm whose body was moved into a helper method is the same arm"""
        calls, ctors = set(arm["calls"]), set(arm["ctors"])
        seen_, work_ = set(), [c for c in calls if c.startswith("samyama::raft::state_machine::")]
        for _ in range(2):
            nxt = []
            for hp in work_:
                if hp in seen_ or hp not in F.fns or hp == r["path"] or hp.startswith(r["path"].rsplit("::{closure", 1)[0] + "::{closure"):
                    continue
                seen_.add(hp)
                hr = F.fns[hp]
                calls |= set(hr["calls"])
                hm = F.mir(hp)
                if hm is not None:
                    hb = Body(hm, hr)
                    for i_, j_, pl_, rv_, ln_, ex_ in hb.stmts():
                        if rv_[0] == "agg" and "::" in rv_[1] and not rv_[1].startswith("closure:"):
                            ctors.add(rv_[1])
                nxt.extend(c for c in hr["calls"] if c.startswith("samyama::raft::state_machine::"))
                nxt.extend(hr.get("closures") or [])
            work_ = nxt
        a2 = dict(arm)
        a2["calls"], a2["ctors"] = sorted(calls), sorted(ctors)
        return a2

    for arm in ms[0]["arms"]:
        arm = _deepen(arm)
        pt = arm["pat"]
        if pt["k"] in ("wild", "bind"):
            wild = True
            continue
        if pt["k"] != "variant":
            continue
        v = pt["p"].rsplit("::", 1)[-1]
        seen[v] = arm
        persists = sorted(c for c in arm["calls"] if "PersistenceManager::persist_" in c)
        w = words(v)
        mutating = w and w[0] in ("create", "delete", "update", "set", "remove", "add", "merge", "drop")
        if not mutating:
            if persists:
                ctx.violation("R32a", "apply|%s|read-persists" % v, where(r, arm["lo"]), "non-mutating request %s calls %s" % (v, persists))
            continue
        nmut += 1
        inst = "apply|%s" % v
        if len(persists) != 1:
            ctx.violation("R32a", inst, where(r, arm["lo"]), "request %s reaches %d persist functions (%s); expected exactly one" % (v, len(persists), [p.rsplit("::", 1)[-1] for p in persists]))
            continue
        fn = persists[0].rsplit("::", 1)[-1]
        fw = set(words(fn))
        if not set(w) - {"properties"} <= fw:
            ctx.violation("R32a", inst, where(r, arm["lo"]), "request %s is persisted through %s, which is for a different operation" % (v, fn))
            continue
        if fn in used:
            ctx.violation("R32a", inst, where(r, arm["lo"]), "requests %s and %s are persisted through the same function %s" % (used[fn], v, fn))
            continue
        used[fn] = v
        if not any(c.endswith("Response::Error") for c in arm["ctors"]):
            ctx.violation("R32a", inst, where(r, arm["lo"]), "a failure of %s is not reported as Response::Error" % fn)
            continue
        ctx.ok("R32a", inst, "calls %s, maps Err to Response::Error" % fn)
        # R32b
        if fn in col.bad:
            ctx.violation("R16b", "%s|%s" % (fn, v), where(F.fns[persists[0]]), col.bad[fn])
        else:
            # follow thin wrappers
            ctx.ok("R32b", inst, "%s has a storage effect on every acknowledged path (C16)" % fn)
        if fn in col18.early:
            ctx.violation("R32e", "%s|%s|write-before-refusal" % (fn, v), where(F.fns[persists[0]]), "%s writes to the WAL / storage before the tenant manager has accepted the request: a refused %s is answered with an error but is recovered on every replica" % (fn, v))
        elif fn in ("persist_create_node", "persist_create_edge"):
            ctx.ok("R32e", inst, "the reservation dominates the writes of %s" % fn)
    missing = [v for v in variants if v not in seen]
    if missing and not wild:
        ctx.note("variants without explicit arm: %s" % missing)
    if wild:
        ctx.violation("R32a", "apply|wildcard", where(r), "apply has a wildcard arm over Request: a new request kind would be silently ignored")
    ctx.floor("R32a", "mutating Request variants", nmut, 6)
    # ---- R32c -----------------------------------------------------------------------------------------
    allow_clock_via = ("samyama::graph::node::Node::new", "samyama::graph::edge::Edge::new", "samyama::graph::node::Node::update_timestamp",
                       "samyama::graph::edge::Edge::update_timestamp", "tracing", "log::")
    par = cg.reach([r["path"]], cha=True, stop=lambda p: any(p.startswith(a) or a in p for a in allow_clock_via) or p.startswith("rocksdb::") or p.startswith("bincode::"))
    nd = [n for n in par if any(n.startswith(x) or ("::" + x) in n for x in NONDET)]
    ck = [n for n in par if any(n.startswith(x) for x in CLOCK) and n.rsplit("::", 1)[-1] in ("now", "now_utc", "elapsed", "timestamp_now", "today")]
    if nd:
        ctx.violation("R32c", "apply|nondeterminism|" + nd[0], where(r), "apply can reach %s via %s" % (nd[0], " -> ".join(cg.path_to(par, nd[0])[-4:])))
    elif ck:
        ctx.violation("R32c", "apply|clock|" + ck[0], where(r), "apply reads the clock outside entity timestamps: %s via %s" % (ck[0], " -> ".join(cg.path_to(par, ck[0])[-4:])))
    else:
        ctx.ok("R32c", "apply|deterministic", "no RNG/env/clock among %d functions reachable from apply (timestamps of Node::new/Edge::new excluded)" % len(par))
    # ---- R32d -----------------------------------------------------------------------------------------
    wr = [x for p, x in F.fns.items() if p.startswith("samyama::raft::node::RaftNode::write::") and x["coroutine"]]
    if len(wr) != 1:
        ctx.anchor_failure("R32d", "RaftNode::write coroutine")
    else:
        w = wr[0]
        b = Body(F.mir(w["path"]), w)
        ctx.saw_fn(w["path"]); ctx.saw_calls(len(b.calls()))
        applies = {c.bb for c in b.calls() if c.path.endswith("GraphStateMachine::apply")}
        oks = [i for i, j, pl, rv, line, exp in b.stmts() if pl[0] == 0 and rv[0] == "agg" and rv[1].endswith("Result::Ok")]
        if not applies or not oks:
            ctx.violation("R32d", "write|shape", where(w), "RaftNode::write has no apply call or no Ok return")
        elif all(b.must_pass(0, o, applies) for o in oks):
            ctx.ok("R32d", "write|applies-before-ok", "every path to Ok passes GraphStateMachine::apply")
        else:
            ctx.violation("R32d", "write|ok-without-apply", where(w), "RaftNode::write can return Ok without applying the request")
    return ("Decided: request-to-effect wiring of the replicated state machine (one matching persist function per mutating variant, errors surfaced), "
            "that each of those functions reaches storage on every acknowledged path (C16), that apply is free of nondeterministic sources, and that "
            "write() applies before acknowledging. Not decided: equality of recovered graphs across replicas (values).")
