"""C22 — every reply is exactly one RESP frame: string data written into a line-typed
frame passes a sanitiser that removes both CR and LF."""
from ..cfg import Body, name_matches
from ..report import where
from ..facts import in_module

LEVEL = "other"
TRANSFORM = ("replace", "replacen", "retain", "filter", "map", "escape_default", "escape_debug", "escape_unicode",
             "replace_range", "filter_map", "split", "lines", "trim_matches")
TESTS = ("contains", "find", "any", "position", "rfind", "matches", "all")


def all_consts(F, path):
    """Constant display strings in a function and the closures it creates."""
    out = set()
    seen = set()
    work = [path]
    while work:
        p = work.pop()
        if p in seen or p not in F.fns:
            continue
        seen.add(p)
        m = F.mir(p)
        if m is None:
            continue
        b = Body(m)
        for i, j, pl, rv, line, exp in b.stmts():
            for o in _ops(rv):
                if o[0] == "k":
                    out.add(o[1])
        for c in b.calls():
            for a in c.args:
                if a[0] == "k":
                    out.add(a[1])
        work.extend(F.fns[p]["closures"])
    return out


def mentions_cr_lf(consts):
    cr = any(c in ("const '\\r'", "const 13_u8", "const b'\\r'") or c == 'const "\\r"' for c in consts)
    lf = any(c in ("const '\\n'", "const 10_u8", "const b'\\n'") or c == 'const "\\n"' for c in consts)
    return cr, lf


def sanitiser_verdict(F, path):
    """(ok, reason) for a candidate sanitiser function."""
    r = F.fns.get(path)
    if r is None:
        return False, "%s is not a local function" % path
    b = Body(F.mir(path), r)
    cr, lf = mentions_cr_lf(all_consts(F, path))
    if not (cr and lf):
        return False, "%s does not mention both CR and LF (CR=%s, LF=%s)" % (path, cr, lf)
    # the result derives from a transforming call
    origins = b.origins(0)
    trans = [o[1] for o in origins if o[0] == "call" and o[1].path.rsplit("::", 1)[-1] in TRANSFORM]
    if not trans:
        return False, "%s returns nothing produced by a transforming call (%s)" % (path, "/".join(TRANSFORM[:4]))
    # every transforming call / test used must have a closure or pattern mentioning CR and LF
    for c in trans:
        cons = set()
        for a in c.args:
            if a[0] == "k":
                cons.add(a[1])
            else:
                for o in b.origins(a[1][0]):
                    if o[0] == "agg" and o[1].startswith("closure:"):
                        cons |= all_consts(F, o[1][8:])
                    if o[0] == "const":
                        cons.add(o[1][1])
        ccr, clf = mentions_cr_lf(cons)
        if not (ccr and clf):
            return False, "the transforming call %s at line %d does not cover both CR and LF" % (c.path, c.line)
    # raw pass-through of the parameter only behind a failed containment test covering CR and LF
    raw_blocks = []
    for i, j, pl, rv, line, exp in b.stmts():
        if pl[0] == 0 and rv[0] in ("use", "agg", "ref"):
            ls = [o[1][0] for o in _ops(rv) if o[0] != "k"]
            if rv[0] == "ref":
                ls = [rv[2][0]]
            for l in ls:
                og = b.origins(l)
                if any(o[0] == "arg" for o in og) and not any(o[0] == "call" and o[1].path.rsplit("::", 1)[-1] in TRANSFORM for o in og):
                    raw_blocks.append((i, line))
    for i, line in raw_blocks:
        guarded = False
        for c in b.calls():
            if c.path.rsplit("::", 1)[-1] in TESTS and c.target is not None:
                cons = set()
                for a in c.args:
                    if a[0] == "k":
                        cons.add(a[1])
                    else:
                        for o in b.origins(a[1][0]):
                            if o[0] == "agg" and o[1].startswith("closure:"):
                                cons |= all_consts(F, o[1][8:])
                ccr, clf = mentions_cr_lf(cons)
                if not (ccr and clf):
                    continue
                # the switch on the test result: the raw block must be reachable only via the false edge
                sb, t = b.switch_on(c.dest[0], c.target)
                if t is not None:
                    false_t = [tgt for v, tgt in t[2] if v == "0"]
                    true_t = t[3] if false_t else None
                    if false_t and true_t is not None and i not in b.reachable(true_t) and b.dominates(sb, i):
                        guarded = True
        if not guarded:
            return False, "%s returns its input unchanged at line %d without a dominating CR/LF containment test" % (path, line)
    return True, "mentions CR and LF, result produced by %s, pass-through only when the containment test fails" % ",".join(sorted({c.path.rsplit("::", 1)[-1] for c in trans}))


def run(ctx, F, cg):
    ctx.rule("R22a", "in RespValue::encode every string-typed value formatted with Display into the output derives from a sanitiser that removes CR and LF; all other variants are numeric or length-prefixed")
    ctx.rule("R22b", "the encode match has an arm for every RespValue variant and no wildcard")
    enc = F.fn("protocol::resp::RespValue::encode")
    b = Body(F.mir(enc["path"]), enc)
    ctx.saw_fn(enc["path"])
    ctx.saw_calls(len(b.calls()))
    disp = [c for c in b.calls() if "fmt::rt::Argument" in c.path and c.path.rsplit("::", 1)[-1].startswith("new_")]
    ctx.floor("R22a", "formatted arguments in encode", len(disp), 4)
    nstr = 0
    ordn = 0
    for c in disp:
        g = c.full
        ty = g[g.rfind("::<") + 3:-1] if "::<" in g else ""
        stringy = any(x in ty for x in ("str", "String", "Cow", "char", "Display", "Error")) and not any(ty.strip("&") == n for n in ("i64", "usize", "u64", "i32", "u32"))
        if not stringy:
            ctx.ok("R22a", "numeric-arg|%s" % ty, "formatted argument of type %s cannot contain CR/LF" % ty)
            continue
        nstr += 1
        inst = "encode|display-arg|%d" % ordn
        ordn += 1
        # origin of the displayed value
        arg = c.args[0]
        og = b.origins(arg[1][0]) if arg[0] != "k" else []
        san = [o[1] for o in og if o[0] == "call" and o[1].path in F.fns]
        if not san:
            ctx.violation("R22a", inst, where(enc, c.line), "string data of type %s is formatted into a line-typed frame without passing a CR/LF sanitiser" % ty)
            continue
        okall = True
        for sc in san:
            ok, why = sanitiser_verdict(F, sc.path)
            ctx.saw_fn(sc.path)
            if not ok:
                okall = False
                ctx.violation("R22a", inst, where(enc, c.line), "sanitiser rejected: " + why)
        if okall:
            ctx.ok("R22a", inst, "payload passes %s: %s" % (",".join(sorted({x.path for x in san})), sanitiser_verdict(F, san[0].path)[1]))
    ctx.floor("R22a", "string-typed formatted arguments in encode", nstr, 2)
    # raw byte writes must be length-prefixed: extend_from_slice is preceded by a len() display in the same arm
    raws = [c for c in b.calls() if c.path.rsplit("::", 1)[-1] in ("extend_from_slice", "write_all", "extend", "push_str")]
    for k, c in enumerate(raws):
        lens = [d for d in b.calls() if d.path.rsplit("::", 1)[-1] == "len" and b.dominates(d.bb, c.bb)]
        if lens:
            ctx.ok("R22a", "encode|raw-bytes|%d" % k, "raw payload write is dominated by a len() (length-prefixed frame)")
        else:
            ctx.violation("R22a", "encode|raw-bytes|%d" % k, where(enc, c.line), "raw bytes are written without a dominating length prefix")
    # ---- R22b -------------------------------------------------------------------------------------
    adt = F.adt("protocol::resp::RespValue")
    variants = {v["name"] for v in adt["variants"]}
    ms = [m for m in F.arms(enc["path"]) if m["sty"].endswith("RespValue")]
    if not ms:
        ctx.anchor_failure("R22b", "match over RespValue in encode")
    else:
        seen = set()
        wild = False
        for arm in ms[0]["arms"]:
            pt = arm["pat"]
            if pt["k"] == "variant":
                seen.add(pt["p"].rsplit("::", 1)[-1])
            elif pt["k"] in ("wild", "bind"):
                wild = True
        if wild or seen != variants:
            ctx.violation("R22b", "encode|coverage", where(enc), "encode match: wildcard=%s, missing variants %s" % (wild, sorted(variants - seen)))
        else:
            ctx.ok("R22b", "encode|coverage", "explicit arm for each of %s" % sorted(variants))
    # ---- R22c: the server writes only encoder output (or bytes forwarded from another node) --------
    ctx.rule("R22c", "every write_all in the connection loop sends a buffer filled by RespValue::encode or returned by Proxy::forward")
    hcs = [r for p, r in F.fns.items() if in_module(p, "samyama::protocol::") and any(("AsyncWriteExt" in c or "tokio::net" in c) and c.rsplit("::", 1)[-1] in ("write_all", "write", "write_buf", "write_all_buf", "try_write", "write_vectored") for c in r["calls"])]
    if not any(r["path"].startswith("samyama::protocol::server::handle_connection::") for r in hcs):
        ctx.anchor_failure("R22c", "protocol::server::handle_connection coroutine writing to the socket")
    nw = 0

    def buffer_ok(hb, a, depth=0):
        """(ok, reason): does the written buffer come from RespValue::encode / Proxy::forward?"""
        enc_bufs = set()
        for c in hb.calls_to(["RespValue::encode"]):
            if len(c.args) > 1 and c.args[1][0] != "k":
                enc_bufs |= _base_locals(hb, c.args[1][1][0])
        fwd = set()
        for c in hb.calls():
            if c.path.endswith("Proxy::forward"):
                fwd.add(c.dest[0])
        fwd = hb.forward_taint(fwd, through_calls=lambda c, ix: c.expname == "Await" or c.path.rsplit("::", 1)[-1] in ("into_future", "poll", "branch", "new_unchecked", "deref", "as_slice", "as_ref"))
        bases = _base_locals(hb, a[1][0]) if a and a[0] != "k" else set()
        if bases & enc_bufs:
            return True, "buffer was filled by RespValue::encode"
        if bases & fwd:
            return True, "bytes returned by Proxy::forward (another node's encoder output)"
        return False, "bytes written to the client do not come from RespValue::encode"

    for r in sorted(hcs, key=lambda x: x["path"]):
        hb = Body(F.mir(r["path"]), r)
        ctx.saw_fn(r["path"])
        ctx.saw_calls(len(hb.calls()))
        short = r["path"].replace("samyama::protocol::", "")
        if short.startswith("server::handle_connection::"):
            short = "handle_connection"
        for k, c in enumerate([c for c in hb.calls() if c.path.rsplit("::", 1)[-1] in ("write_all", "write", "write_buf", "write_all_buf", "try_write", "write_vectored") and ("AsyncWriteExt" in c.path or "tokio::net" in c.path or "AsyncWriteExt" in c.decl)]):
            nw += 1
            a = c.args[1] if len(c.args) > 1 else None
            ok, why = buffer_ok(hb, a)
            if ok:
                ctx.ok("R22c", "%s|write|%d" % (short.replace("handle_connection", "write") if False else short, k) if short != "handle_connection" else "write|%d" % k, why)
            else:
                ctx.violation("R22c", "%s|write|%d" % (short, k), where(r, c.line), why)
    ctx.floor("R22c", "write_all calls in the connection loop", nw, 3)
    # ---- R22d: one value per buffer ---------------------------------------------------------------------------------
    ctx.rule("R22d", "a reply buffer holds exactly one encoded value when it is written: between two RespValue::encode calls into the same buffer there is always a reset of that buffer (a fresh Vec or clear()) — a buffer reused across loop iterations and not cleared on one path sends the previous reply again in front of the new one")
    n_enc = 0
    for r in sorted(hcs, key=lambda x: x["path"]):
        hb = Body(F.mir(r["path"]), r)
        encs = [c for c in hb.calls_to(["RespValue::encode"]) if len(c.args) > 1 and c.args[1][0] != "k"]
        by_buf = {}
        for c in encs:
            for bl in _base_locals(hb, c.args[1][1][0]):
                by_buf.setdefault(bl, []).append(c)
        short = "handle_connection" if r["path"].startswith("samyama::protocol::server::handle_connection::") else r["path"].replace("samyama::protocol::", "")
        for bl, cs in sorted(by_buf.items()):
            if hb.local_ty(bl).strip() not in ("std::vec::Vec<u8>", "bytes::BytesMut"):
                continue
            # reset points of this buffer: (re)definitions of the local and clear()/truncate(0) calls on it
            resets = set()
            for d in hb.defs().get(bl, []):
                resets.add(d[1])
            for c in hb.calls():
                if c.path.rsplit("::", 1)[-1] in ("clear",) and c.args and c.args[0][0] != "k" and bl in _base_locals(hb, c.args[0][1][0]):
                    resets.add(c.bb)
            for c in cs:
                n_enc += 1
                inst = "%s|encode-into|%s|%d" % (short, hb.local_name(bl) or ("_%d" % bl), cs.index(c))
                if c.target is None:
                    continue
                after = hb.reachable(c.target, avoid=resets)
                clash = [c2 for c2 in cs if c2.bb in after]
                if clash:
                    ctx.violation("R22d", inst + "|second-encode-without-reset", where(r, clash[0].line),
                                  "after encoding a reply into `%s` the connection loop can encode another one into it (line %d) without clearing it first: the client receives the earlier reply again, followed by the new frame, as the answer to one request" % (hb.local_name(bl) or "the buffer", clash[0].line))
                else:
                    ctx.ok("R22d", inst, "every later encode into this buffer is behind a reset")
    ctx.floor("R22d", "encode calls into reply buffers", n_enc, 2)
    return ("Decided: in the encoder, string data reaches a CRLF-terminated frame only through a function that replaces both CR and LF "
            "(constants, transforming call and the pass-through guard are checked on MIR); numeric and length-prefixed variants cannot "
            "split a frame. This is sufficient for the one-frame clause given that all replies are written through RespValue::encode "
            "(checked: the server writes only encode output or forwarded bytes).")


def _base_locals(b, l):
    """Locals that `l` is a (re)borrow / deref / move of."""
    out = set()
    work = [l]
    while work:
        x = work.pop()
        if x in out:
            continue
        out.add(x)
        for d in b.defs().get(x, ()):
            if d[0] == "stmt":
                rv = d[4]
                if rv[0] in ("ref", "rawptr"):
                    work.append(rv[2][0])
                elif rv[0] == "use" and rv[1][0] != "k":
                    work.append(rv[1][1][0])
            elif d[0] == "call" and d[2].path.rsplit("::", 1)[-1] in ("deref", "deref_mut", "as_slice", "as_ref", "as_mut", "borrow", "borrow_mut"):
                for a in d[2].args[:1]:
                    if a[0] != "k":
                        work.append(a[1][0])
    return out


def _ops(rv):
    k = rv[0]
    if k in ("use", "repeat"):
        return [rv[1]]
    if k == "cast":
        return [rv[2]]
    if k == "bin":
        return rv[2:4]
    if k == "agg":
        return rv[2]
    return []
