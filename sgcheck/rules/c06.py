"""C06 — store read views agree with the logical graph: cross-representation write-effect
completeness of mutators (transitive field effects), counts from maintained data, raw-handle bypass."""
from ..cfg import Body
from ..report import where
from .. import storemodel as sm
from .. import storerules as sr

LEVEL = "other"
GS = sm.GS


def run(ctx, F, cg):
    ctx.rule("R06a", "delete_edge recycles the edge id, so its transitive write set must cover every representation an edge can live in (fields written by the edge creators and by compaction); a field it does not touch keeps an entry the next edge with that id inherits")
    ctx.rule("R06b", "edge_count / node_count read only representations that deletion maintains")
    ctx.rule("R06c", "every edge creator writes the core edge representations, or only omits what finish_bulk_load rebuilds")
    ctx.rule("R06d", "delete_node's write set covers every node representation the node creators write")
    ctx.rule("R06e", "labels of stored nodes are changed only through the store (label_index maintained): no non-test function combines get_node_mut with Node::add_label / remove_label")
    ctx.rule("R06f", "every public &mut self method of GraphStore that writes a read-view field directly is classified in the mutator table")
    ctx.rule("R06g", "an entry leaves an adjacency list only by relationship id: every selective removal on a Vec<(NodeId, EdgeId)> in the store is a retain whose predicate is `entry id != captured id` (positional removal cannot tell parallel relationships apart)")
    ctx.rule("R06h", "no relationship dangles from a missing node: in every relationship creator two has_node tests (one per endpoint) dominate the adjacency writes and their absent side returns Err")
    ctx.rule("R06i", "a read view of the adjacency reads whole (frozen tier, write buffer) pairs of one direction; single-tier accessors are a reviewed list and their callers merge both tiers")
    sr.removal_by_id(ctx, F, cg, "R06g")
    sr.endpoints_checked(ctx, F, cg, "R06h")
    sr.direction_coherence(ctx, F, cg, "R06i")
    ctx.rule("R06j", "finish_bulk_load rebuilds what stub loads skip on every path: compaction, the relationship-type index and the catalog are reached unconditionally from its entry (a rebuild made conditional on 'the buffer had something to compact' is skipped when the buffer was compacted earlier, and by-type views then miss every stub relationship)")
    fb = sm.fn_of(F, "finish_bulk_load")
    if fb is None:
        ctx.anchor_failure("R06j", GS + "::finish_bulk_load")
    else:
        fbb = Body(F.mir(fb["path"]), fb)
        ctx.saw_fn(fb["path"]); ctx.saw_calls(len(fbb.calls()))
        rets = fbb.ret_blocks()
        for need in ("rebuild_edge_type_index", "rebuild_catalog"):
            cs = {c.bb for c in fbb.calls() if c.path.endswith("GraphStore::" + need)}
            if not cs:
                ctx.violation("R06j", "finish_bulk_load|%s|never" % need, where(fb), "finish_bulk_load never calls %s" % need)
            elif all(fbb.must_pass(0, rb, cs) for rb in rets):
                ctx.ok("R06j", "finish_bulk_load|" + need, "called on every path")
            else:
                ctx.violation("R06j", "finish_bulk_load|%s|conditional" % need, where(fb), "finish_bulk_load can return without calling %s: relationships loaded as stubs stay out of the views it rebuilds" % need)
        comp = {c.bb for c in fbb.calls() if c.path.rsplit("::", 1)[-1] in ("compact_adjacency", "compact_adjacency_if_needed")}
        if comp and all(fbb.must_pass(0, rb, comp) for rb in rets):
            ctx.ok("R06j", "finish_bulk_load|compaction", "compaction reached on every path")
        else:
            ctx.violation("R06j", "finish_bulk_load|compaction|conditional", where(fb), "finish_bulk_load can return without compacting the write buffer")
    # ---- R06m: a slice that is binary-searched is sorted ----------------------------------------------------------
    ctx.rule("R06m", "a neighbour list handed to a binary search is sorted as a whole: a producer that concatenates several individually sorted runs in a loop (one per frozen segment) must sort the result on every path to its return when a consumer binary-searches it (edge_between / edges_between through search_adjacency_slice) — after a second compaction the concatenation [5,6,7 | 1] is searched for 1 and the live relationship is not found")
    IDENT_ = ("deref", "as_slice", "as_ref", "borrow", "index", "clone", "to_vec", "as_deref", "unwrap_or", "unwrap_or_default")
    searchers = {}      # fn path -> param indexes that reach a binary_search* receiver
    for p_, r_ in F.fns.items():
        if not p_.startswith("samyama::graph::store::") or "{closure" in p_ or not any("binary_search" in c for c in r_["calls"]):
            continue
        bb_ = Body(F.mir(p_), r_)
        for c in bb_.calls():
            if "binary_search" in c.path.rsplit("::", 1)[-1] and c.args and c.args[0][0] != "k":
                og = bb_.origins(c.args[0][1][0], through_calls=lambda cc: [0] if cc.path.rsplit("::", 1)[-1] in IDENT_ else None)
                for o in og:
                    if o[0] == "arg":
                        searchers.setdefault(p_, set()).add(o[1])
    ctx.floor("R06m", "store functions that binary-search a slice parameter", len(searchers), 1)
    n_flows = 0
    reported = set()
    for p_, r_ in sorted(F.fns.items()):
        if not p_.startswith("samyama::graph::store::") or not any(c in searchers for c in r_["calls"]):
            continue
        bb_ = Body(F.mir(p_), r_)
        for c in bb_.calls():
            if c.path not in searchers:
                continue
            for ai in searchers[c.path]:
                if ai - 1 >= len(c.args) or c.args[ai - 1][0] == "k":
                    continue
                og = bb_.origins(c.args[ai - 1][1][0], through_calls=lambda cc: [0] if cc.path.rsplit("::", 1)[-1] in IDENT_ else None)
                for o in og:
                    if o[0] != "call" or o[1].path not in F.fns or not o[1].path.startswith("samyama::graph::store::"):
                        continue
                    prod = o[1].path
                    n_flows += 1
                    pb = Body(F.mir(prod), F.fns[prod])
                    ctx.saw_fn(prod, p_)
                    loops = [x for x in pb.calls() if x.path.rsplit("::", 1)[-1] in ("extend_from_slice", "extend", "append", "push") and x.bb in pb.reach_after(x.bb)]
                    sorts = {x.bb for x in pb.calls() if x.path.rsplit("::", 1)[-1].startswith("sort")}
                    short = prod.replace("samyama::graph::store::", "")
                    cons = p_.replace("samyama::graph::store::", "")
                    bad_ = [x for x in loops if not all(pb.must_pass(x.bb, rb, sorts) for rb in pb.ret_blocks())]
                    if bad_:
                        key = "%s|concat-unsorted|%s" % (short, cons)
                        if key not in reported:
                            reported.add(key)
                            ctx.violation("R06m", key, where(F.fns[prod], bad_[0].line), "%s concatenates one sorted run per segment in a loop and returns the result unsorted; %s hands it to %s, which binary-searches it: with two or more frozen segments a live relationship whose neighbour sorts before the first segment's entries is not found" % (short, cons, c.path.rsplit("::", 1)[-1]))
                    else:
                        ctx.ok("R06m", "%s|%s" % (short, cons), "result is a single run or is sorted before it is returned")
    ctx.floor("R06m", "producer results flowing into a binary search", n_flows, 2)
    ctx.rule("R06l", "every relationship creator links the new relationship into both adjacency directions on every path to Ok")
    sr.creators_link_on_every_path(ctx, F, cg, "R06l")
    ctx.rule("R06k", "(shared with C05) a store mutator that fails has changed nothing — in particular it has not handed an id back to the allocator: an id freed by a failed delete is allocated twice")
    sr.validate_then_mutate(ctx, F, cg, "R06k", kinds=("node-add", "node-kill", "edge-add", "edge-kill"), floor=5)
    # ---- R06f ------------------------------------------------------------------------------------------
    un = sm.unclassified_mutators(F, cg)
    for name, w, r in un:
        ctx.violation("R06f", "unclassified-mutator|" + name, where(r), "GraphStore::%s writes %s but is not in the mutator kind table (classify it so the pairing rules cover it)" % (name, w))
    if not un:
        ctx.ok("R06f", "mutator-table-complete", "%d classified mutators; no unclassified direct writer of a view field" % len(sm.classified()))
    missing_anchor = [n for n in sm.classified() if sm.fn_of(F, n) is None]
    for n in missing_anchor:
        ctx.anchor_failure("R06f", "GraphStore::" + n)
    # ---- R06a ------------------------------------------------------------------------------------------
    E = set()
    for n in sm.KINDS["edge-add"] + sm.KINDS["tier-move"] + sm.KINDS["edge-prop-set"]:
        w = sm.weffects(F, cg, n) or set()
        E |= (w & sm.EDGE_VIEW_FIELDS)
        ctx.saw_fn(GS + "::" + n)
    ctx.floor("R06a", "edge representation fields", len(E), 8)
    W = sm.weffects(F, cg, "delete_edge") or set()
    de = sm.fn_of(F, "delete_edge")
    recycles = "free_edge_ids" in W
    for f in sorted(E):
        if f in W:
            ctx.ok("R06a", "delete_edge|maintains|" + f, "written by delete_edge (transitively)")
        elif not recycles:
            ctx.ok("R06a", "delete_edge|no-id-reuse|" + f, "ids are not recycled")
        else:
            ctx.violation("R06a", "delete_edge|not-maintained|" + f, where(de),
                          "delete_edge puts the id on the free list but never touches `%s`: the entry survives and the next create_edge with this id revives it (stale neighbour / inherited property)" % f)
    # ---- R06b ------------------------------------------------------------------------------------------
    for cnt, killer, view in (("edge_count", "delete_edge", sm.EDGE_VIEW_FIELDS), ("node_count", "delete_node", sm.NODE_VIEW_FIELDS)):
        r = sm.fn_of(F, cnt)
        if r is None:
            ctx.anchor_failure("R06b", "GraphStore::" + cnt)
            continue
        ctx.saw_fn(r["path"])
        reads = sm.reffects(F, cg, cnt) & view
        wk = sm.weffects(F, cg, killer)
        bad = sorted(reads - wk)
        if bad:
            for f in bad:
                ctx.violation("R06b", "%s|counts-unmaintained|%s" % (cnt, f), where(r), "%s sums `%s`, which %s does not maintain: the total keeps counting deleted entities" % (cnt, f, killer))
        else:
            ctx.ok("R06b", cnt, "reads %s, all maintained by %s" % (sorted(reads), killer))
    # ---- R06c ------------------------------------------------------------------------------------------
    core = {"outgoing", "incoming", "edge_endpoints", "edge_type_ids", "edge_type_index"}
    fin = sm.weffects(F, cg, "finish_bulk_load") or set()
    for n in sm.KINDS["edge-add"]:
        w = sm.weffects(F, cg, n)
        r = sm.fn_of(F, n)
        miss = core - w
        if not miss:
            ctx.ok("R06c", n, "writes all of %s" % sorted(core))
        elif miss <= fin and "stub" in n:
            ctx.ok("R06c", n, "omits %s, rebuilt by finish_bulk_load" % sorted(miss))
        else:
            ctx.violation("R06c", "%s|omits|%s" % (n, ",".join(sorted(miss))), where(r), "%s never writes %s and nothing rebuilds it" % (n, sorted(miss)))
    # ---- R06d ------------------------------------------------------------------------------------------
    N = set()
    for n in sm.KINDS["node-add"] + sm.KINDS["prop-set"] + sm.KINDS["label-add"]:
        N |= (sm.weffects(F, cg, n) or set()) & sm.NODE_VIEW_FIELDS
    Wn = sm.weffects(F, cg, "delete_node") or set()
    dn = sm.fn_of(F, "delete_node")
    for f in sorted(N):
        if f in Wn:
            ctx.ok("R06d", "delete_node|maintains|" + f, "written by delete_node")
        else:
            ctx.violation("R06d", "delete_node|not-maintained|" + f, where(dn), "delete_node recycles the node id but never touches `%s`" % f)
    # delete_node must reach delete_edge (no dangling relationships)
    if dn and cg.reaches(dn["path"], ["GraphStore::delete_edge"]):
        ctx.ok("R06d", "delete_node|cascades", "delete_node reaches delete_edge for incident relationships")
    else:
        ctx.violation("R06d", "delete_node|no-cascade", where(dn), "delete_node does not reach delete_edge: relationships would dangle from the missing node")
    # ---- R06e ------------------------------------------------------------------------------------------
    n_sites = 0
    for p, r in sorted(F.fns.items()):
        if p.startswith(GS + "::"):
            continue
        cs = r["calls"]
        if any(c.endswith("GraphStore::get_node_mut") for c in cs) and any(c.endswith("node::Node::add_label") or c.endswith("node::Node::remove_label") for c in cs):
            n_sites += 1
            ctx.violation("R06e", "raw-label-mutation|" + p.replace("samyama::", ""), where(r),
                          "%s changes the label set of a stored node through get_node_mut: label_index is not updated, so MATCH (n:Label) does not see it" % p)
    users = [p for p, r in F.fns.items() if any(c.endswith("GraphStore::get_node_mut") for c in r["calls"])]
    ctx.floor("R06e", "callers of get_node_mut examined", len(users), 5)
    if not n_sites:
        ctx.ok("R06e", "no-raw-label-mutation", "none of %d get_node_mut callers changes labels on the raw handle" % len(users))
    return ("Decided: representation completeness of the deleting mutators against what creators/compaction write (transitive field effects over "
            "the call graph), that counts only read maintained representations, creator completeness, delete cascade, and that label sets of stored "
            "nodes change only through index-maintaining store methods. removal from adjacency lists is by relationship id, creators test both endpoints, and read views read complete tier pairs of one direction. Not decided: sortedness of adjacency lists, degree arithmetic, edges_between logic.")
