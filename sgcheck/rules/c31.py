"""C31 — raft log storage: append truncates conflicts, snapshot compacts the prefix only,
last index/term falls back to the snapshot."""
from ..cfg import Body
from ..report import where
from .. import orderdom as od

LEVEL = "other"
REMOVERS = ("retain", "retain_mut", "truncate", "drain", "split_off")
STORE = "samyama::raft::storage::RaftStorage::"


def coroutine(F, name):
    c = [r for p, r in F.fns.items() if p.startswith(STORE + name + "::") and r["coroutine"]]
    if len(c) != 1:
        from ..facts import AnchorError
        raise AnchorError("RaftStorage::%s coroutine body resolves to %d functions" % (name, len(c)))
    return c[0]


def run(ctx, F, cg):
    ctx.rule("R31a", "in append_entries every push of an entry is dominated, in the same loop iteration, by a removal on the log whose predicate keeps exactly the entries with index < the new entry's index")
    ctx.rule("R31b", "create_snapshot prunes the log with a predicate that keeps exactly the entries with index > the snapshot index it records")
    ctx.rule("R31c", "get_last_log_index_term answers from the last log entry, reads the snapshot metadata only when the log is empty, and has a constant fallback")
    # ---- R31a ------------------------------------------------------------------------------------
    r = coroutine(F, "append_entries")
    b = Body(F.mir(r["path"]), r)
    ctx.saw_fn(r["path"]); ctx.saw_calls(len(b.calls()))
    pushes = [c for c in b.calls() if c.path.rsplit("::", 1)[-1] in ("push", "push_back", "insert", "extend", "append", "extend_from_slice") and "LogEntry" in c.full]
    ctx.floor("R31a", "log insertions in append_entries", len(pushes), 1)
    for k, p in enumerate(pushes):
        inst = "append_entries|push|%d" % k
        pushed = od.chain_locals(b, p.args[1]) if len(p.args) > 1 else set()
        rem = [c for c in b.calls() if c.path.rsplit("::", 1)[-1] in REMOVERS and "LogEntry" in c.full and b.dominates(c.bb, p.bb) and c.bb in b.reachable(p.bb)]
        if p.path.rsplit("::", 1)[-1] != "push":
            ctx.violation("R31a", inst, where(r, p.line), "log insertion through %s is not analysed (only push after a removal is accepted)" % p.path)
            continue
        if not rem:
            ctx.violation("R31a", inst, where(r, p.line), "entry is pushed without first removing the entries at and after its index: an append at an existing index leaves two entries for that index")
            continue
        good = False
        why = ""
        for c in rem:
            if c.path.rsplit("::", 1)[-1] not in ("retain", "retain_mut"):
                why = "removal through %s: position operand not analysed" % c.path
                continue
            tab, desc, proots = od.predicate_table(F, b, c, [9, 10, 11], 10)
            if tab is None:
                why = desc
                continue
            if tab != [True, False, False]:
                why = "predicate %s keeps index-1/index/index+1 = %s, expected [True, False, False]" % (desc, tab)
                continue
            # the captured quantity is the index of the entry being pushed
            co = od.closure_of(b, c.args[1])
            capbase = [od.base_place(b, o) for o in co[1]]
            if pushed and any(cb and cb[0] in pushed and any(x.endswith("LogEntry.index") for x in cb[1]) for cb in capbase):
                good = True
                why = "retain(%s) over the pushed entry's own index" % desc
            else:
                why = "the removal predicate is not over the index of the entry being pushed (captures %s, pushed %s)" % (capbase, pushed)
        if good:
            ctx.ok("R31a", inst, why)
        else:
            ctx.violation("R31a", inst, where(r, p.line), "conflicting entries are not truncated before the push: " + why)
    # ---- R31b ------------------------------------------------------------------------------------
    r = coroutine(F, "create_snapshot")
    b = Body(F.mir(r["path"]), r)
    ctx.saw_fn(r["path"]); ctx.saw_calls(len(b.calls()))
    # recorded snapshot index: first component of the tuple stored in Some(..) assigned through the metadata guard
    rec = None
    for i, j, pl, rv, line, exp in b.stmts():
        if rv[0] == "agg" and rv[1] == "tuple" and len(rv[2]) == 2:
            # is it wrapped into Option::Some and stored?
            for i2, j2, pl2, rv2, l2, e2 in b.stmts():
                if rv2[0] == "agg" and rv2[1].endswith("Option::Some") and rv2[2] and rv2[2][0][0] != "k" and rv2[2][0][1][0] == pl[0]:
                    rec = od.expr_of(b, rv[2][0])
    if rec is None:
        ctx.anchor_failure("R31b", "Some((index, term)) stored by create_snapshot")
    removers = []
    for c in b.calls():
        m = c.path.rsplit("::", 1)[-1]
        if m in REMOVERS and "LogEntry" in c.full:
            removers.append((b, r, c, None))
        elif c.path.startswith(STORE) and c.path in F.fns:
            # one level: a RaftStorage method whose coroutine prunes the log
            inner = [x for p2, x in F.fns.items() if p2.startswith(c.path + "::") and x["coroutine"]]
            for x in inner:
                ib = Body(F.mir(x["path"]), x)
                ctx.saw_fn(x["path"])
                for c2 in ib.calls():
                    if c2.path.rsplit("::", 1)[-1] in REMOVERS and "LogEntry" in c2.full:
                        removers.append((ib, x, c2, c))
    if not removers:
        ctx.violation("R31b", "create_snapshot|no-compaction", where(r), "create_snapshot does not prune the log at all")
    for k, (rb, rr, c, via) in enumerate(removers):
        inst = "create_snapshot|prune|%d" % k
        if c.path.rsplit("::", 1)[-1] not in ("retain", "retain_mut"):
            ctx.violation("R31b", inst, where(rr, c.line), "pruning through %s is not analysed" % c.path)
            continue
        S = 10
        base = S
        if via is not None:
            # value of the callee's captured parameter = caller's argument expression evaluated at index := S
            # callee param n corresponds to caller arg n (self = 0)
            tab = None
            co = od.closure_of(rb, c.args[1])
            desc = "?"
            if co:
                caps = [od.expr_of(rb, o) for o in co[1]]
                roots = []
                for ce in caps:
                    for x in od.roots(ce):
                        if x not in roots:
                            roots.append(x)
                if len(roots) == 1 and roots[0][0] == "upvar" and roots[0][1] < len(via.args):
                    ae = od.expr_of(b, via.args[roots[0][1]])
                    ar = od.roots(ae)
                    if len(ar) == 1 and rec is not None and ar[0] == od.roots(rec)[0]:
                        base = od.evaluate(ae, {ar[0]: S})
                        tab, desc, _ = od.predicate_table(F, rb, c, [S - 1, S, S + 1], base)
                    else:
                        desc = "argument %s is not a function of the recorded snapshot index" % od.show(ae)
        else:
            tab, desc, proots = od.predicate_table(F, rb, c, [S - 1, S, S + 1], S)
            if tab is not None and rec is not None and proots and od.roots(rec) and proots[0] != od.roots(rec)[0]:
                ctx.violation("R31b", inst, where(rr, c.line), "the prune predicate is over %s, not the recorded snapshot index %s" % (od.show(proots[0]), od.show(rec)))
                continue
        if tab is None:
            ctx.violation("R31b", inst, where(rr, c.line), "cannot classify the prune predicate: %s" % desc)
        elif tab != [False, False, True]:
            ctx.violation("R31b", inst, where(rr, c.line), "snapshot at index i prunes with %s%s: keeps i-1/i/i+1 = %s, expected [False, False, True] (the tail after the snapshot is lost or the prefix kept)" % (desc, " via %s" % via.path if via else "", tab))
        else:
            ctx.ok("R31b", inst, "prune predicate %s keeps exactly the entries after the snapshot index" % desc)
    # ---- R31c ------------------------------------------------------------------------------------
    r = coroutine(F, "get_last_log_index_term")
    b = Body(F.mir(r["path"]), r)
    ctx.saw_fn(r["path"]); ctx.saw_calls(len(b.calls()))
    lasts = [c for c in b.calls() if c.path.rsplit("::", 1)[-1] in ("last", "back", "last_mut") and "first" not in c.path]
    firsts = [c for c in b.calls() if c.path.rsplit("::", 1)[-1] in ("first", "front")]
    snap_reads = [i for i, j, pl, rv, line, exp in b.stmts() if any("snapshot_metadata" in p for p in (rv[2][1] if rv[0] == "ref" else (rv[1][1][1] if rv[0] == "use" and rv[1][0] != "k" else [])))]
    if firsts or not lasts:
        ctx.violation("R31c", "last-entry", where(r), "the last index/term is not taken from the newest retained entry (last())")
    else:
        c = lasts[0]
        # switch on the Option result: Some side must not read the snapshot
        sw = None
        for bb in b.reachable(c.bb):
            t = b.blocks[bb]["t"]
            if t[0] == "switch" and t[1][0] != "k":
                e = od.expr_of_place(b, t[1][1], 0, set())
                if e[0] == "root" and e[1] == "discr":
                    ds = b.defs().get(t[1][1][0])
                    if ds and ds[0][0] == "stmt" and ds[0][4][0] == "discr" and ds[0][4][1][0] == c.dest[0]:
                        sw = (bb, t)
                        break
        if sw is None:
            ctx.violation("R31c", "last-entry-switch", where(r, c.line), "result of last() is not matched on")
        else:
            bb, t = sw
            some_t = [tgt for v, tgt in t[2] if v == "1"]
            none_t = [tgt for v, tgt in t[2] if v == "0"] or [t[3]]
            if not some_t:
                some_t = [t[3]]
            some_reach = b.reachable(some_t[0], avoid={bb})
            none_reach = b.reachable(none_t[0], avoid={bb})
            sr_some = [x for x in snap_reads if x in some_reach and x not in none_reach]
            sr_none = [x for x in snap_reads if x in none_reach]
            if sr_some or not sr_none:
                ctx.violation("R31c", "snapshot-fallback", where(r), "the snapshot metadata is not consulted exactly when the log is empty")
            else:
                ctx.ok("R31c", "snapshot-fallback", "last() decides; snapshot metadata read only on the empty-log branch")
    return ("Decided: the removal predicates of append_entries and create_snapshot, extracted from the closure MIR and evaluated over the "
            "orderings {i-1, i, i+1} of an entry index against the new/snapshot index, keep exactly the entries the Raft log-matching and "
            "compaction rules require; the removal dominates every push; last index/term falls back to the snapshot only for an empty log. "
            "Not decided: behaviour of callers (openraft adapter) and persistence of the log.")
