"""C10 — lawful total orders: comparator-law lints over Ord / PartialEq / Hash / cypher_order of PropertyValue."""
from ..cfg import Body
from ..report import where

LEVEL = "other"
PV = "samyama::graph::property::PropertyValue"
FLOAT_PRIMS = {"core::f64::<impl f64>::total_cmp": "total_cmp", "core::f32::<impl f32>::total_cmp": "total_cmp",
               "std::cmp::PartialOrd::partial_cmp": "partial_cmp", "core::f64::<impl f64>::to_bits": "to_bits", "core::f32::<impl f32>::to_bits": "to_bits"}


def vname(p):
    return p["p"].rsplit("::", 1)[-1] if p.get("k") == "variant" else None


def pats(p):
    """expand or-patterns: list of patterns"""
    if p.get("k") == "or":
        out = []
        for e in p["e"]:
            out += pats(e)
        return out
    return [p]


def run(ctx, F, cg):
    ctx.rule("L1", "a float-bearing type with hand-written Ord (total_cmp) and Hash (to_bits) must not derive PartialEq (IEEE ==): -0.0 == 0.0 with different hashes, NaN != NaN under Eq")
    ctx.rule("L2", "inside one comparator every float comparison uses the same primitive (mixing total_cmp with partial_cmp().unwrap_or() makes NaN intransitive)")
    ctx.rule("L3", "the tuple match of Ord::cmp has an explicit (V, V) arm for every variant, and explicit cross arms exactly for variants that share a bucket")
    ctx.rule("L4", "Hash::hash matches every variant without wildcard and gives each a distinct tag")
    ctx.rule("L5", "cypher_order::rank is exhaustive without wildcard and same-rank pairs fall through to Ord")
    ctx.rule("L6", "no comparator consults `==` on PropertyValue: while PartialEq is derived (IEEE ==, rule L1) it is a different relation from cmp (0.0 == -0.0, NaN != NaN), so a shortcut `if a == b { Equal }` ties values the rest of the comparator orders strictly and breaks transitivity")
    comps = [r for p_, r in F.fns.items() if (p_.startswith("samyama::graph::property::cypher_order") or (r.get("self") == PV and r.get("trait") and r["trait"].rsplit("::", 1)[-1] in ("Ord", "PartialOrd"))) and "::tests::" not in p_]
    ctx.floor("L6", "comparator bodies (cypher_order and helpers, Ord, PartialOrd)", len(comps), 3)
    nbad = 0
    for r in comps:
        m_ = F.mir(r["path"])
        if not m_:
            continue
        bb_ = Body(m_, r)
        ctx.saw_fn(r["path"])
        for c in bb_.calls():
            if c.path.rsplit("::", 1)[-1] in ("eq", "ne") and "PartialEq" in c.path:
                tys = [bb_.local_ty(a[1][0]) for a in c.args[:2] if a[0] != "k"]
                if any("property::PropertyValue" in t for t in tys):
                    nbad += 1
                    ctx.violation("L6", "%s|uses-derived-eq" % r["path"].replace("samyama::graph::property::", ""), where(r, c.line),
                                  "%s tests `==` on %s: Float(0.0) == Float(-0.0) ties here while the comparator orders -0.0 < Integer(0) < 0.0 — not transitive (and NaN never takes the shortcut)" % (r["path"].rsplit("::", 2)[-1], tys[0]))
    if not nbad:
        ctx.ok("L6", "comparators-do-not-use-derived-eq", "%d comparator bodies, none calls PartialEq on PropertyValue" % len(comps))
    ctx.rule("L7", "cypher_order decides NaN's place before it delegates to the index order: every call of <PropertyValue as Ord>::cmp in it is dominated by a NaN test of each argument (the index order sorts a negative NaN below every number, ORDER BY sorts every NaN above them)")
    co = F.fn_opt("graph::property::cypher_order")
    if co is None:
        ctx.anchor_failure("L7", "graph::property::cypher_order")
    else:
        cb_ = Body(F.mir(co["path"]), co)
        ctx.saw_fn(co["path"])
        def _tests_nan(path):
            r_ = F.fns.get(path)
            return bool(r_) and any(c.endswith("::is_nan") for c in r_["calls"])
        nan_calls = [c for c in cb_.calls() if c.path.endswith("::is_nan") or _tests_nan(c.path)]
        dele = [c for c in cb_.calls() if c.path.endswith("cmp::Ord>::cmp") and "property::PropertyValue as" in c.path]
        ctx.floor("L7", "delegations to the index order in cypher_order", len(dele), 1)
        for k_, d_ in enumerate(dele):
            # NaN tests that dominate the delegation, by which parameter they look at
            seen_params = set()
            for c in nan_calls:
                if c.bb != d_.bb and cb_.dominates(c.bb, d_.bb):
                    for a in c.args:
                        if a[0] != "k":
                            for o in cb_.origins(a[1][0]):
                                if o[0] == "arg":
                                    seen_params.add(o[1])
            if {1, 2} <= seen_params:
                ctx.ok("L7", "cypher_order|delegation|%d" % k_, "NaN tests of both arguments dominate the delegation to Ord::cmp")
            else:
                ctx.violation("L7", "cypher_order|delegation|%d|nan-not-decided" % k_, where(co, d_.line),
                              "cypher_order hands the pair to Ord::cmp without first testing both values for NaN on every path (NaN is decided only inside a (Float, Float) arm): Integer vs Float(-NaN) is then ordered by total_cmp, giving 1.0 < -NaN < 0 < 1.0")
    ctx.rule("L8", "a comparator never returns the bare result of comparing an integer through a lossy cast to float: distinct integers above 2^53 round to one float, so `(i as f64).total_cmp(f)` as the final answer ties values that still order against each other (Ord breaks such ties; cypher_order must delegate)")
    ctx.rule("L9", "Ord agrees with the derived field-wise equality: the diagonal arm of a multi-field variant compares the fields one by one and does no arithmetic on them (folding seconds and nanos into one number makes unequal durations compare Equal, and the B-tree index keyed by Ord collapses them)")
    for r in comps:
        m_ = F.mir(r["path"])
        if not m_:
            continue
        bb_ = Body(m_, r)
        short_ = r["path"].replace("samyama::graph::property::", "").replace("<samyama::graph::property::", "<")
        # L8: origins of the return place that are total_cmp / partial_cmp calls fed by an IntToFloat cast
        og0 = bb_.origins(0, through_calls=lambda cc: None)
        direct = [o[1] for o in og0 if o[0] == "call" and o[1].path.rsplit("::", 1)[-1] in ("total_cmp", "partial_cmp", "cmp") and ("f64" in o[1].path or "f32" in o[1].path)]
        lossy = []
        for c in direct:
            for a in c.args[:2]:
                if a[0] == "k":
                    continue
                for x in bb_.origins(a[1][0], through_calls=lambda cc: None):
                    if x[0] == "other" or x[0] == "bin":
                        continue
                for d in bb_.defs().get(a[1][0], []):
                    src = d
                    # follow one ref/copy level
                    if d[0] == "stmt" and d[4][0] in ("ref", "use"):
                        base = d[4][2][0] if d[4][0] == "ref" else (d[4][1][1][0] if d[4][1][0] != "k" else None)
                        for d2 in bb_.defs().get(base, []) if base is not None else []:
                            if d2[0] == "stmt" and d2[4][0] == "cast" and d2[4][1] == "IntToFloat":
                                lossy.append(c)
                    if d[0] == "stmt" and d[4][0] == "cast" and d[4][1] == "IntToFloat":
                        lossy.append(c)
        if lossy:
            ctx.violation("L8", "%s|bare-lossy-comparison" % short_, where(r, lossy[0].line), "%s returns `%s` of an integer cast to float as its final answer: Integer(2^53) and Integer(2^53+1) both tie with Float(2^53) while ordering against each other, so ties are not transitive" % (short_, lossy[0].path.rsplit("::", 1)[-1]))
        else:
            ctx.ok("L8", short_, "no float comparison of a cast integer is returned bare")
    cmpf_ = F.trait_impl_fn("PropertyValue", "cmp::Ord", "cmp")
    cb_ = Body(F.mir(cmpf_["path"]), cmpf_)
    adt_ = F.adt("graph::property::PropertyValue")
    multi = {v["name"] for v in adt_["variants"] if len(v["fields"]) >= 2}
    ctx.floor("L9", "multi-field variants of PropertyValue", len(multi), 1)
    for m_ in [x for x in F.arms(cmpf_["path"]) if x["sty"].startswith("(&" + PV)][:1]:
        for arm in m_["arms"]:
            for p_ in pats(arm["pat"]):
                if p_.get("k") != "tuple" or len(p_["e"]) != 2:
                    continue
                a_, b2_ = vname(p_["e"][0]), vname(p_["e"][1])
                if a_ is None or a_ != b2_ or a_ not in multi:
                    continue
                lo, hi = arm["lo"], arm["hi"]
                arith = [line for i, j, pl, rv, line, exp in cb_.stmts() if lo <= line <= hi and rv[0] == "bin" and rv[1] in ("Mul", "MulWithOverflow", "Add", "AddWithOverflow", "Sub", "SubWithOverflow", "Div", "Rem", "Shl", "Shr")]
                if arith:
                    ctx.violation("L9", "Ord::cmp|%s|fields-combined" % a_, where(cmpf_, arith[0]), "the (%s, %s) arm of Ord::cmp does arithmetic on the fields before comparing (line %d): two values whose fields differ can compare Equal although the derived == and the hash tell them apart" % (a_, a_, arith[0]))
                else:
                    ctx.ok("L9", "Ord::cmp|%s" % a_, "fields compared one by one")
    adt = F.adt("graph::property::PropertyValue")
    variants = [v["name"] for v in adt["variants"]]
    has_float = any(f[1] in ("f64", "f32") or "f32" in f[1] or "f64" in f[1] for v in adt["variants"] for f in v["fields"])
    impls = {i["trait"].rsplit("::", 1)[-1]: i for i in F.impls if i["self"] == PV and i["trait"]}
    # ---- L1 ----------------------------------------------------------------------------------------
    if has_float and impls.get("PartialEq", {}).get("derived") and "Ord" in impls and not impls["Ord"]["derived"] and "Hash" in impls and not impls["Hash"]["derived"]:
        ctx.violation("L1", "PropertyValue|derived-PartialEq-with-manual-Ord-Hash", "%s:%s" % (adt["file"], adt["line"]),
                      "PartialEq is derived (IEEE float ==) while Ord uses total_cmp and Hash uses to_bits: Float(0.0) == Float(-0.0) but they hash and order differently; Float(NaN) != Float(NaN) although the type is Eq and cmp gives Equal")
    else:
        ctx.ok("L1", "PropertyValue|eq-ord-hash-consistent", "PartialEq derived=%s" % impls.get("PartialEq", {}).get("derived"))
    # ---- L2 / L3 -----------------------------------------------------------------------------------
    cmpf = F.trait_impl_fn("PropertyValue", "cmp::Ord", "cmp")
    ctx.saw_fn(cmpf["path"])
    ms = [m for m in F.arms(cmpf["path"]) if m["sty"].startswith("(&" + PV)]
    if not ms:
        ctx.anchor_failure("L3", "tuple match in <PropertyValue as Ord>::cmp")
        return "anchor"
    m = ms[0]
    prims = {}
    diag = set()
    cross = set()
    wild_arms = 0
    for arm in m["arms"]:
        for p in pats(arm["pat"]):
            if p.get("k") != "tuple" or len(p["e"]) != 2:
                wild_arms += 1
                continue
            a, b_ = vname(p["e"][0]), vname(p["e"][1])
            if a is None or b_ is None:
                wild_arms += 1
                continue
            if a == b_:
                diag.add(a)
            else:
                cross.add((a, b_))
            floaty = {v["name"] for v in adt["variants"] if any("f64" in f[1] or "f32" in f[1] for f in v["fields"])}
            if a in floaty or b_ in floaty:
                # the arm's own calls plus those of the property module's helpers it calls (two levels):
                # `(Integer, Float) => cmp_int_float(..)` compares floats exactly as the inlined arm did
                deep, work_ = set(arm["calls"]), [c for c in arm["calls"] if c.startswith("samyama::graph::property::")]
                for _ in range(2):
                    nxt = []
                    for hp in work_:
                        hr = F.fns.get(hp)
                        if hr and hp != cmpf["path"]:
                            new_ = set(hr["calls"]) - deep
                            deep |= new_
                            nxt += [c for c in new_ if c.startswith("samyama::graph::property::")]
                    work_ = nxt
                for c in sorted(deep):
                    if c in FLOAT_PRIMS:
                        prims.setdefault(FLOAT_PRIMS[c], []).append("(%s, %s)" % (a, b_))
    cmp_prims = {k: v for k, v in prims.items() if k in ("total_cmp", "partial_cmp")}
    ctx.floor("L2", "float-comparing arms in Ord::cmp", sum(len(v) for v in prims.values()), 3)
    if len(cmp_prims) > 1:
        ctx.violation("L2", "Ord::cmp|mixed-float-comparison", where(cmpf), "float comparisons use different primitives: %s — e.g. Integer(5) < Float(-NaN) (partial_cmp -> unwrap_or(Less)) while Float(-NaN) < Float(1.0) < Integer(5) (total_cmp): not transitive" % {k: v for k, v in cmp_prims.items()})
    else:
        ctx.ok("L2", "Ord::cmp|one-float-primitive", "all float-bearing arms use %s" % (list(prims) or "none"))
    missing = [v for v in variants if v not in diag]
    if missing:
        ctx.violation("L3", "Ord::cmp|diagonal|" + ",".join(missing), where(cmpf), "no explicit (V, V) arm for %s: equal-variant values fall to the bucket comparison and compare Equal" % missing)
    else:
        ctx.ok("L3", "Ord::cmp|diagonal", "explicit (V, V) arm for all %d variants" % len(variants))
    # buckets
    bk = F.fn_opt("cmp::bucket")
    buckets = {}
    if bk:
        for mm in F.arms(bk["path"]):
            for arm in mm["arms"]:
                tag = [l for l in arm["lits"] if l.startswith("i:")]
                for p in pats(arm["pat"]):
                    if vname(p) and tag:
                        buckets[vname(p)] = tag[0]
    if buckets:
        same = {(a, b_) for a in variants for b_ in variants if a != b_ and buckets.get(a) == buckets.get(b_)}
        if cross != same:
            ctx.violation("L3", "Ord::cmp|cross-arms", where(cmpf), "cross-variant arms %s do not match the same-bucket pairs %s: two different variants in one bucket without a cross arm compare Equal" % (sorted(cross), sorted(same)))
        else:
            ctx.ok("L3", "Ord::cmp|cross-arms", "cross arms exactly for same-bucket pairs %s" % sorted(same))
        if set(buckets) != set(variants):
            ctx.violation("L3", "bucket|coverage", where(bk), "bucket() does not name every variant")
    else:
        ctx.anchor_failure("L3", "bucket() inside Ord::cmp")
    # ---- L4 ------------------------------------------------------------------------------------------
    hf = F.trait_impl_fn("PropertyValue", "hash::Hash", "hash")
    ctx.saw_fn(hf["path"])
    hm = [x for x in F.arms(hf["path"]) if x["sty"].endswith("PropertyValue")]
    if not hm:
        ctx.anchor_failure("L4", "match in <PropertyValue as Hash>::hash")
    else:
        tags = {}
        wild = False
        for arm in hm[0]["arms"]:
            for p in pats(arm["pat"]):
                v = vname(p)
                if v is None:
                    wild = True
                    continue
                t = sorted(l for l in arm["lits"] if l.startswith("i:"))
                tags[v] = t[0] if t else None
        if wild or set(tags) != set(variants):
            ctx.violation("L4", "Hash|coverage", where(hf), "Hash::hash: wildcard=%s, variants without arm: %s" % (wild, sorted(set(variants) - set(tags))))
        elif len(set(tags.values())) != len(tags) or None in tags.values():
            ctx.violation("L4", "Hash|tags", where(hf), "variant tags are not distinct: %s" % tags)
        else:
            ctx.ok("L4", "Hash|exhaustive-distinct-tags", "%d variants, %d distinct tags" % (len(tags), len(set(tags.values()))))
    # ---- L5 ------------------------------------------------------------------------------------------
    co = F.fn("graph::property::cypher_order")
    ctx.saw_fn(co["path"])
    # the ranking function, whatever it is called: a local callee of cypher_order from &PropertyValue to an integer
    # that matches on the value
    rk = F.fn_opt("cypher_order::rank")
    if rk is None:
        for c_ in co["calls"]:
            cr_ = F.fns.get(c_)
            if cr_ and c_.startswith("samyama::graph::property::") and PV in cr_["sig"].split("->")[0] and cr_["sig"].rsplit("->", 1)[-1].strip() in ("u8", "u16", "u32", "usize", "i32", "i8", "u64") \
                    and any(mm["sty"].replace("&", "").strip().endswith("PropertyValue") for mm in F.arms(c_)):
                rk = cr_
                break
    if rk is None:
        ctx.anchor_failure("L5", "cypher_order::rank")
    else:
        rv = set()
        wild = False
        for mm in F.arms(rk["path"]):
            for arm in mm["arms"]:
                for p in pats(arm["pat"]):
                    if vname(p):
                        rv.add(vname(p))
                    else:
                        wild = True
        if wild or rv != set(variants):
            ctx.violation("L5", "rank|coverage", where(rk), "rank(): wildcard=%s, missing %s" % (wild, sorted(set(variants) - rv)))
        else:
            ctx.ok("L5", "rank|exhaustive", "all %d variants ranked explicitly" % len(rv))
        falls = False
        for mm in F.arms(co["path"]):
            if mm["sty"].startswith("(&" + PV):
                for arm in mm["arms"]:
                    if arm["pat"].get("k") in ("wild", "bind") and any(c.endswith("cmp::Ord::cmp") for c in arm["calls"]):
                        falls = True
        if not falls:
            # the same fall-through written as a tail expression (`a.cmp(b)`) instead of a wildcard arm
            cm_ = F.mir(co["path"])
            if cm_ is not None:
                falls = any((c.path.endswith("cmp::Ord::cmp") or c.path.endswith("cmp::Ord>::cmp")) and "PropertyValue" in (c.full + c.path) for c in Body(cm_, co).calls())
        if falls:
            ctx.ok("L5", "cypher_order|falls-through-to-Ord", "same-rank pairs are ordered by Ord::cmp")
        else:
            ctx.violation("L5", "cypher_order|fallthrough", where(co), "same-rank values are not ordered by Ord::cmp")
    return ("Decided: structural comparator-law lints — Eq/Ord/Hash agreement of the impl kinds, a single float comparison primitive per comparator, "
            "diagonal and same-bucket cross coverage of the tuple match, Hash exhaustiveness with distinct tags, rank exhaustiveness. "
            "Not decided: transitivity over values (precision beyond 2^53, list/map recursion).")
