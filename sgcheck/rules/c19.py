"""C19 — writes acknowledged by the server survive a restart: each mutation kind reaches a
persistence call (with a storage effect, C16) from each front end; boot recovery re-inserts them."""
from ..cfg import Body
from ..report import where
from ..facts import in_module
from . import c16
from .c32 import _Collect

LEVEL = "other"
PM = "samyama::persistence::PersistenceManager::"
FRONT_ENDS = [
    ("RESP", "samyama::protocol::command::CommandHandler::handle_graph_query::"),
    ("HTTP", "samyama::http::handler::query_handler::"),
]
KINDS = [
    ("create-node", ("persist_create_node",)),
    ("create-edge", ("persist_create_edge",)),
    ("update-node (SET/REMOVE property, label change)", ("persist_update_node_properties", "persist_update_node_properties_versioned")),
    ("update-edge (SET/REMOVE property)", ("persist_update_edge_properties",)),
    ("delete-node", ("persist_delete_node",)),
    ("delete-edge", ("persist_delete_edge",)),
]


def _failure_targets(b, c):
    """(switch block, [failure-side targets]) of the switch on the discriminant of this call's Result, or None"""
    if c.target is None:
        return None
    tainted = b.forward_taint({c.dest[0]}, through_calls=lambda cc, ix: cc.path.rsplit("::", 1)[-1] in ("branch", "as_ref", "map_err"))
    for i in sorted(b.reachable(c.bb)):
        t = b.blocks[i]["t"]
        if t[0] != "switch" or t[1][0] == "k":
            continue
        ds = b.defs().get(t[1][1][0], [])
        if len(ds) == 1 and ds[0][0] == "stmt" and ds[0][4][0] == "discr" and (ds[0][4][1][0] == c.dest[0] or ds[0][4][1][0] in tainted):
            ty = b.local_ty(ds[0][4][1][0])
            if ty.startswith("std::result::Result<") or ty.startswith("std::ops::ControlFlow<"):
                one = [tgt for v, tgt in t[2] if v == "1"]
                return i, ([one[0]] if one else [t[3]])
    return None


def run(ctx, F, cg):
    ctx.rule("R19a", "from the write branch of each query front end, for each mutation kind, a PersistenceManager function for that kind is reachable (necessary: an effect that reaches no persistence call cannot survive a restart)")
    ctx.rule("R19b", "each such function has a storage effect on every acknowledged path (C16 R16b)")
    ctx.rule("R19c", "the server's boot path reaches PersistenceManager::recover and re-inserts what it returns (insert_recovered_node / insert_recovered_edge)")
    col = _Collect()
    c16.run(col, F, cg)
    for name, prefix in FRONT_ENDS:
        cs = [r for p, r in F.fns.items() if p.startswith(prefix) and r["coroutine"]]
        if len(cs) != 1:
            ctx.anchor_failure("R19a", "%s front end coroutine (%s)" % (name, prefix))
            continue
        r = cs[0]
        ctx.saw_fn(r["path"])
        par = cg.reach([r["path"]], cha=False, stop=lambda p: in_module(p, "samyama::query::executor::") or in_module(p, "samyama::graph::"))
        reached = {p.replace(PM, "") for p in par if p.startswith(PM + "persist_")}
        for kind, fns in KINDS:
            inst = "%s|%s" % (name, kind.split(" ")[0])
            hit = [f for f in fns if f in reached]
            if not hit:
                ctx.violation("R19", inst, where(r), "%s: a %s acknowledged through this endpoint reaches no persistence call (reached: %s) and is lost on restart" % (name, kind, sorted(reached) or "none"))
            elif any(f in col.bad for f in hit):
                ctx.violation("R19", inst + "|log-only", where(r), "%s reaches %s which has no storage effect" % (name, hit))
            else:
                ctx.ok("R19a", inst, "reaches %s (storage effect: C16)" % hit[0])
    # ---- R19d: a failed persistence call is not acknowledged ---------------------------------------------
    ctx.rule("R19d", "in a front end, the failing side of every persist_* call never reaches the success reply: from the Err arm of the call's result no path leads to the formatting of the result rows (an acknowledgement promises durability)")
    n_p = 0
    for name, prefix in FRONT_ENDS:
        cs = [r for p, r in F.fns.items() if p.startswith(prefix) and r["coroutine"]]
        if len(cs) != 1:
            continue
        r = cs[0]
        b = Body(F.mir(r["path"]), r)
        # a persist loop moved into a helper of the front end: the helper is analysed as its own unit (its failing
        # persist calls must not reach an Ok return), and the helper call stands for the persist calls in the handler
        helpers_ = sorted({c.path for c in b.calls() if c.path in F.fns and not c.path.startswith(PM) and any(x.startswith(PM + "persist_") for x in F.fns[c.path]["calls"])})
        for hp in helpers_:
            hr = F.fns[hp]
            hb = Body(F.mir(hp), hr)
            oks_h = {i for i, j, pl, rv, line, exp in hb.stmts() if pl[0] == 0 and rv[0] == "agg" and rv[1].endswith("Result::Ok")}
            for k, c in enumerate(cc for cc in hb.calls() if cc.path.startswith(PM + "persist_")):
                n_p += 1
                inst = "%s|%s|%s|%d" % (name, hp.rsplit("::", 1)[-1], c.path.replace(PM, ""), k)
                fails = _failure_targets(hb, c)
                if fails is None:
                    if any(cc.path.endswith("from_residual") and cc.bb in hb.reachable(c.target) for cc in hb.calls() if c.target is not None):
                        ctx.ok("R19d", inst, "result propagated with `?`")
                    else:
                        ctx.violation("R19d", inst + "|result-ignored", where(hr, c.line), "%s ignores the result of %s: a write that was not persisted is acknowledged" % (hp.rsplit("::", 1)[-1], c.path.replace(PM, "")))
                    continue
                sw_, fts = fails
                reach = set()
                for ft in fts:
                    reach |= hb.reachable(ft, avoid={sw_})
                if reach & oks_h:
                    ctx.violation("R19d", inst + "|failure-acknowledged", where(hr, c.line), "%s: when %s fails the helper can still return Ok: the handler goes on to acknowledge a write that was not persisted" % (hp.rsplit("::", 1)[-1], c.path.replace(PM, "")))
                else:
                    ctx.ok("R19d", inst, "the failing side never reaches Ok")
        pcs = [c for c in b.calls() if c.path.startswith(PM + "persist_") or c.path in helpers_]
        for k, c in enumerate(pcs):
            n_p += 1
            inst = "%s|%s|%d" % (name, c.path.replace(PM, "").rsplit("::", 1)[-1] if c.path in helpers_ else c.path.replace(PM, ""), k)
            if c.target is None:
                continue
            # the switch on the discriminant of this call's result
            err_t = None
            for i in sorted(b.live_blocks()):
                t = b.blocks[i]["t"]
                if t[0] != "switch" or t[1][0] == "k":
                    continue
                ds = b.defs().get(t[1][1][0], [])
                if len(ds) == 1 and ds[0][0] == "stmt" and ds[0][4][0] == "discr":
                    src = ds[0][4][1][0]
                    if src == c.dest[0] or src in b.forward_taint({c.dest[0]}, through_calls=lambda cc, ix: cc.path.rsplit("::", 1)[-1] in ("branch", "as_ref")):
                        one = [tgt for v, tgt in t[2] if v == "1"]
                        err_t = (i, one[0] if one else t[3])
                        break
            if err_t is None:
                # result dropped or propagated with `?`: `?` is fine (from_residual reaches no success reply)
                if any(cc.path.endswith("from_residual") and cc.bb in b.reachable(c.target) for cc in b.calls()):
                    ctx.ok("R19d", inst, "result propagated with `?`")
                else:
                    ctx.violation("R19d", inst + "|result-ignored", where(r, c.line), "%s ignores the result of %s: a write that was not persisted is acknowledged" % (name, c.path.replace(PM, "")))
                continue
            sw, et = err_t
            ok_reply = [cc for cc in b.calls() if cc.path.rsplit("::", 1)[-1] in ("format_query_result", "Json", "into_response") or cc.path.endswith("RespValue::Array")]
            succ_blocks = {cc.bb for cc in ok_reply}
            # success reply = blocks reachable from the Ok side that build the reply; the Err side must not reach any call that formats rows
            fmt = {cc.bb for cc in b.calls() if cc.path.rsplit("::", 1)[-1] == "format_query_result"}
            if not fmt:
                ctx.anchor_failure("R19d", "%s: the call that formats the result rows (format_query_result)" % name)
                continue
            reach = b.reachable(et, avoid={sw})
            if reach & fmt:
                ctx.violation("R19d", inst + "|failure-acknowledged", where(r, c.line),
                              "%s: when %s fails the handler still goes on to format and return the rows: the client is told the write succeeded although it will be missing after a restart (a quota refusal is ignored the same way)" % (name, c.path.replace(PM, "")))
            else:
                ctx.ok("R19d", inst, "the failing side never reaches the success reply")
    ctx.floor("R19d", "persistence calls made by front ends", n_p, 2)
    # ---- R19e: every created / changed entity of the result is handed to persistence ---------------------
    ctx.rule("R19e", "in a front end that persists from result rows, every row value of an entity kind (Value::Node, Value::Edge) reaches its persist_* call: from the Node / Edge side of the switch on the value's kind, every path to the next row value passes the call (or an error return) — a filter in between (de-duplication keeping the first image, a 'changed?' test) lets an acknowledged change go unpersisted")
    vadt = F.adt("executor::record::Value")
    vnames = [v["name"] for v in vadt["variants"]]
    n_e = 0
    for name, prefix in FRONT_ENDS:
        cs = [r for p, r in F.fns.items() if p.startswith(prefix) and r["coroutine"]]
        if len(cs) != 1:
            continue
        r = cs[0]
        b = Body(F.mir(r["path"]), r)
        pcs = [c for c in b.calls() if c.path.startswith(PM + "persist_")]
        if not pcs:
            # the loop over the result rows may live in a helper of the front end
            for hc in b.calls():
                if hc.path in F.fns and not hc.path.startswith(PM) and any(x.startswith(PM + "persist_") for x in F.fns[hc.path]["calls"]):
                    r = F.fns[hc.path]
                    b = Body(F.mir(hc.path), r)
                    pcs = [c for c in b.calls() if c.path.startswith(PM + "persist_")]
                    break
        if not pcs:
            continue
        loops = {c.bb for c in b.calls() if c.path.rsplit("::", 1)[-1] == "next" and c.expname == "ForLoop"}
        errs = {cc.bb for cc in b.calls() if cc.path.endswith("from_residual")} | {i for i, j, pl, rv, line, exp in b.stmts() if rv[0] == "agg" and (rv[1].endswith("RespValue::Error") or (pl[0] == 0 and rv[1].endswith("Result::Err")))}
        found = False
        for i in sorted(b.live_blocks()):
            t = b.blocks[i]["t"]
            if t[0] != "switch" or t[1][0] == "k":
                continue
            ds = b.defs().get(t[1][1][0], [])
            if not (len(ds) == 1 and ds[0][0] == "stmt" and ds[0][4][0] == "discr"):
                continue
            src = ds[0][4][1]
            if "record::Value" not in b.local_ty(src[0]) or b.local_ty(src[0]).startswith("std::option::Option"):
                continue
            if not any(pc.bb in b.reachable(i) for pc in pcs):
                continue
            found = True
            for kind, fnpat in (("Node", "persist_create_node"), ("Edge", "persist_create_edge")):
                idx = str(vnames.index(kind))
                tg = [tgt for v, tgt in t[2] if v == idx]
                side = tg[0] if tg else t[3]
                n_e += 1
                through = {pc.bb for pc in pcs if pc.path.endswith(fnpat)} | errs
                targets = loops | set(b.ret_blocks())
                skip = [x for x in targets if x in b.reachable(side, avoid=through | {i})]
                inst = "%s|%s" % (name, kind)
                if skip:
                    ctx.violation("R19e", inst + "|entity-skipped", where(r, b.blocks[i]["l"]),
                                  "%s: a Value::%s of the result can go on to the next value without passing %s: some acknowledged images of an entity are not persisted (with SET running row by row, later rows carry the newer image)" % (name, kind, fnpat))
                else:
                    ctx.ok("R19e", inst, "every Value::%s reaches %s before the next value" % (kind, fnpat))
        if not found:
            ctx.anchor_failure("R19e", "%s: switch on the kind of a result value before the persist calls" % name)
    ctx.floor("R19e", "entity kinds persisted from result rows", n_e, 2)
    ctx.rule("R19f", "(shared with C06) what recovery re-inserts is linked like what was created: every relationship creator, insert_recovered_edge included, links both adjacency directions on every path to Ok")
    from .. import storerules as sr_
    sr_.creators_link_on_every_path(ctx, F, cg, "R19f")
    # ---- R19c ------------------------------------------------------------------------------------------
    ss = [r for p, r in F.fns.items() if r["unit"] == "samyama.bin" and any(c == PM + "recover" for c in r["calls"])]
    if not ss:
        ctx.violation("R19c", "boot|never-recovers", "src/main.rs", "the server binary never calls PersistenceManager::recover")
    for s in ss:
        ctx.saw_fn(s["path"])
        need = ("GraphStore::insert_recovered_node", "GraphStore::insert_recovered_edge")
        miss = [n for n in need if not any(c.endswith(n) for c in s["calls"])]
        if miss:
            ctx.violation("R19c", "boot|recovered-not-inserted", where(s), "recovered entities are not re-inserted (%s missing)" % miss)
        else:
            ctx.ok("R19c", "boot|recover-and-insert", "%s calls recover, insert_recovered_node and insert_recovered_edge" % s["path"])
    return ("Decided: a necessary reachability condition per (front end x mutation kind): without a path to a persistence call with a storage effect the "
            "acknowledged write cannot survive a restart. RESP reaches only the two create functions (and only for entities that appear in result rows, a "
            "data dependence reachability cannot see); HTTP reaches none — ten known findings. Not decided: that reached calls are made for every affected entity.")
