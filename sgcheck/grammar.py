"""Minimal facts from the pest grammar (read as text; only literal extraction)."""
import os
import re


def load(repo):
    p = os.path.join(repo, "src", "query", "cypher.pest")
    txt = open(p, encoding="utf-8").read()
    rules = {}
    # strip // comments outside strings (line-level: grammar comments start the line)
    lines = [l for l in txt.split("\n") if not l.lstrip().startswith("//")]
    body = "\n".join(lines)
    for m in re.finditer(r'^([A-Za-z_][A-Za-z0-9_]*)\s*=\s*([_@$!]?)\{', body, re.M):
        name = m.group(1)
        i = m.end()
        depth = 1
        j = i
        instr = False
        while j < len(body) and depth:
            c = body[j]
            if instr:
                if c == "\\":
                    j += 1
                elif c == '"':
                    instr = False
            else:
                if c == '"':
                    instr = True
                elif c == "{":
                    depth += 1
                elif c == "}":
                    depth -= 1
            j += 1
        rules[name] = body[i:j - 1]
    return rules


def literals(rule_body):
    out = []
    for m in re.finditer(r'"((?:\\.|[^"\\])*)"', rule_body):
        s = m.group(1)
        s = s.replace('\\"', '"').replace("\\\\", "\\").replace("\\t", "\t").replace("\\r", "\r").replace("\\n", "\n").replace("\\'", "'")
        out.append(s)
    return out


def top_alternatives(rule_body):
    alts = []
    depth = 0
    cur = ""
    instr = False
    i = 0
    while i < len(rule_body):
        c = rule_body[i]
        if instr:
            cur += c
            if c == "\\":
                cur += rule_body[i + 1]
                i += 1
            elif c == '"':
                instr = False
        else:
            if c == '"':
                instr = True
                cur += c
            elif c in "({[":
                depth += 1
                cur += c
            elif c in ")}]":
                depth -= 1
                cur += c
            elif c == "|" and depth == 0:
                alts.append(cur)
                cur = ""
            else:
                cur += c
        i += 1
    alts.append(cur)
    return alts


def whitespace_chars(rules):
    return set("".join(literals(rules.get("WHITESPACE", ""))))


def delimiter_chars(rules):
    """First characters of string-literal and comment openers: whitespace inside them is significant."""
    out = set()
    for rn in ("string", "COMMENT", "escaped_identifier", "quoted_identifier", "backtick_identifier"):
        if rn in rules:
            body = rules[rn]
            # unwrap one level of parentheses per alternative
            for alt in top_alternatives(body):
                lits = literals(alt)
                if lits and lits[0]:
                    out.add(lits[0][0])
    return out
