"""Bounded MIR inlining at the facts level.

`inlined_mir(F, path, allow, depth)` returns a copy of the function's MIR facts in which every call of a function
accepted by `allow(callee_path)` (a crate-private helper of the anchor, typically) is replaced by the callee's own
blocks: parameters become assignments, `return` becomes an assignment to the call's destination followed by a jump to
the call's target.  Rules that read an anchor through such a body see a step that was moved into a helper exactly
where it used to be.  Recursion is cut by the call stack; coroutine callees (yield) and callees without MIR are left
as calls."""
import copy
import re

from .cfg import Body

_CACHE = {}


def _mp_place(pl, off):
    proj = []
    for x in pl[1]:
        if isinstance(x, str) and x.startswith("i:"):
            try:
                proj.append("i:%d" % (int(x[2:]) + off))
            except ValueError:
                proj.append(x)
        else:
            proj.append(x)
    return [pl[0] + off, proj]


def _mp_op(op, off):
    if op[0] == "k":
        return list(op)          # a copy: promoted references are renumbered per inlining site
    return [op[0], _mp_place(op[1], off)]


def _mp_rv(rv, off):
    k = rv[0]
    if k in ("use", "repeat"):
        return [k, _mp_op(rv[1], off)] + list(rv[2:])
    if k in ("ref", "rawptr"):
        return [k, rv[1], _mp_place(rv[2], off)] + list(rv[3:])
    if k == "cast":
        return [k, rv[1], _mp_op(rv[2], off)] + list(rv[3:])
    if k == "bin":
        return [k, rv[1], _mp_op(rv[2], off), _mp_op(rv[3], off)] + list(rv[4:])
    if k == "un":
        return [k, rv[1], _mp_op(rv[2], off)] + list(rv[3:])
    if k == "agg":
        return [k, rv[1], [_mp_op(o, off) for o in rv[2]]] + list(rv[3:])
    if k == "discr":
        return [k, _mp_place(rv[1], off)] + list(rv[2:])
    return None


def _mp_term(t, off, boff):
    k = t[0]
    if k == "goto":
        return [k, t[1] + boff]
    if k == "switch":
        return [k, _mp_op(t[1], off), [[v, tg + boff] for v, tg in t[2]], t[3] + boff]
    if k == "call":
        return [k, t[1], [_mp_op(a, off) for a in t[2]], _mp_place(t[3], off), (t[4] + boff) if t[4] is not None else None] + list(t[5:])
    if k == "drop":
        return [k, _mp_place(t[1], off), t[2] + boff]
    if k == "assert":
        return [k, t[1], _mp_op(t[2], off), t[3], t[4] + boff, [_mp_op(o, off) for o in (t[5] if len(t) > 5 else [])]]
    if k in ("ret", "unreachable", "resume"):
        return list(t)
    return None


_PROM = re.compile(r"promoted\[(\d+)\]")


def _renumber_promoted(x, poff):
    if isinstance(x, list):
        if len(x) >= 2 and x[0] == "k" and isinstance(x[1], str) and "promoted[" in x[1]:
            x[1] = _PROM.sub(lambda m: "promoted[%d]" % (int(m.group(1)) + poff), x[1])
            return
        for y in x:
            _renumber_promoted(y, poff)
    elif isinstance(x, dict):
        for y in x.values():
            _renumber_promoted(y, poff)


def inlined_mir(F, path, allow, depth=2, _stack=()):
    key = (id(F), path, depth, getattr(allow, "__name__", ""), getattr(allow, "_key", None))
    if key in _CACHE:
        return _CACHE[key]
    base = getattr(F, "_orig_mir", F.mir)(path)
    if base is None:
        return None
    mir = {"k": base.get("k"), "path": base["path"], "argc": base["argc"], "locals": list(base["locals"]),
           "blocks": copy.deepcopy(base["blocks"]), "prom": base.get("prom"), "inlined": []}
    if depth <= 0:
        _CACHE[key] = mir
        return mir
    nb0 = len(mir["blocks"])
    for bi in range(nb0):
        t = mir["blocks"][bi]["t"]
        if t[0] != "call":
            continue
        cp = t[1].get("p", "?")
        if cp == path or cp in _stack or cp not in F.fns or not allow(cp):
            continue
        cm = inlined_mir(F, cp, allow, depth - 1, _stack + (path,))
        if cm is None or len(cm["blocks"]) > 400:
            continue
        if any(b["t"][0] == "yield" for b in cm["blocks"]) or len(t[2]) != cm["argc"]:
            continue
        off = len(mir["locals"])
        boff = len(mir["blocks"])
        newblocks = []
        ok = True
        for cb in cm["blocks"]:
            ss = []
            for s in cb["s"]:
                rv = _mp_rv(s[1], off)
                if rv is None:
                    ok = False
                    break
                ss.append([_mp_place(s[0], off), rv] + list(s[2:]))
            if not ok:
                break
            ct = cb["t"]
            if ct[0] == "ret":
                ss.append([t[3], ["use", ["m", [off, []]]], cb.get("l", 0), 0])
                nt = ["goto", t[4]] if t[4] is not None else ["unreachable"]
            else:
                nt = _mp_term(ct, off, boff)
                if nt is None:
                    ok = False
                    break
            nb = dict(cb)
            nb["s"], nb["t"] = ss, nt
            newblocks.append(nb)
        if not ok:
            continue
        # the callee's promoted constants keep their meaning: append them and renumber the references
        cprom = cm.get("prom") or []
        if cprom:
            poff = len(mir.get("prom") or [])
            mir["prom"] = list(mir.get("prom") or []) + list(cprom)
            if poff:
                _renumber_promoted(newblocks, poff)
        mir["locals"].extend(cm["locals"])
        mir["blocks"].extend(newblocks)
        blk = mir["blocks"][bi]
        line = blk.get("l", 0)
        for ai, a in enumerate(t[2]):
            blk["s"].append([[off + 1 + ai, []], ["use", a], line, 0])
        blk["t"] = ["goto", boff]
        mir["inlined"].append(cp)
        mir["inlined"].extend(cm.get("inlined", []))
    _CACHE[key] = mir
    return mir


def same_impl(anchor_path):
    """allow-predicate: private helpers of the anchor's own type / module (same path prefix up to the last `::`)."""
    owner = anchor_path.split("::{closure")[0].rsplit("::", 1)[0]

    def allow(p):
        return p.startswith(owner + "::") and "{closure" not in p
    allow._key = owner
    return allow


def body(F, path, allow=None, depth=2):
    """Body over the inlined MIR, with the fn record's call / field-effect facts widened by the inlined callees."""
    allow = allow or same_impl(path)
    m = inlined_mir(F, path, allow, depth)
    if m is None:
        return None
    r = dict(F.fns[path])
    calls, rd, wr, cl = list(r["calls"]), list(r["r"]), list(r["w"]), list(r.get("closures") or [])
    for cp in m.get("inlined", []):
        cr = F.fns.get(cp)
        if cr:
            calls += cr["calls"]; rd += cr["r"]; wr += cr["w"]; cl += (cr.get("closures") or [])
    r["calls"], r["r"], r["w"], r["closures"] = sorted(set(calls)), sorted(set(rd)), sorted(set(wr)), sorted(set(cl))
    return Body(m, r)


def private_helpers(F, anchor_path):
    """allow-predicate: non-public functions of the anchor's own impl / module — what `extract method` produces.
    Public methods (has_node, get_node, ...) stay calls: rules name them."""
    owner = anchor_path.split("::{closure")[0].rsplit("::", 1)[0]

    def allow(p):
        r = F.fns.get(p)
        return bool(r) and p.startswith(owner + "::") and "{closure" not in p and r.get("vis") != "pub" and not r.get("trait")
    allow._key = "priv:" + owner
    return allow
