"""Check context: obligations, violations, known findings, evidence."""
import json
import os
import sys
import time

VERIF = os.path.dirname(os.path.dirname(os.path.abspath(__file__)))
KF_FILE = os.path.join(VERIF, "known_findings.json")


class Ctx:
    def __init__(self, pid, tier, facts, level="other"):
        self.pid = pid
        self.tier = tier
        self.facts = facts
        self.level = level
        self.t0 = time.time()
        self.obligations = []      # dicts: rule, instance, status, detail
        self.violations = []       # dicts: key, rule, where, msg
        self.known_hits = []
        self.notes = []
        self.analysed_fns = set()
        self.analysed_calls = 0
        self.floors = []
        self.rules = {}
        self.assumptions = []
        kf = {"findings": [], "fixed": []}
        if os.path.exists(KF_FILE):
            kf = json.load(open(KF_FILE))
        self.kf = {f["key"]: f for f in kf.get("findings", []) if f["property"] == pid}
        # shared rules: a finding listed under another property is still a KNOWN-FINDING here
        self.kf_any = {f["key"]: f for f in kf.get("findings", [])}

    # ---- bookkeeping ---------------------------------------------------------------------
    def rule(self, rid, text):
        self.rules[rid] = text

    def saw_fn(self, *paths):
        for p in paths:
            self.analysed_fns.add(p)

    def saw_calls(self, n):
        self.analysed_calls += n

    def ok(self, rule, instance, detail=""):
        self.obligations.append({"rule": rule, "instance": instance, "status": "holds", "detail": detail})

    def note(self, msg):
        self.notes.append(msg)

    def floor(self, rule, what, found, minimum):
        self.floors.append({"rule": rule, "what": what, "found": found, "floor": minimum})
        if found < minimum:
            self.violation(rule, "floor|" + what, "<checker>", "rule %s matched %d instance(s) of %s, fewer than the %d confirmed by hand — the rule would pass vacuously; anchors moved?" % (rule, found, what, minimum))
            return False
        return True

    def violation(self, rule, instance, where, msg):
        """instance: stable key part (def path | callee | ordinal) — never a line number.
        where: file:line (function) for the human."""
        key = "%s|%s" % (rule, instance)
        f = self.kf.get(key) or self.kf_any.get(key)
        if f is not None:
            self.known_hits.append({"key": key, "where": where, "msg": msg, "what": f.get("what", "")})
            self.obligations.append({"rule": rule, "instance": instance, "status": "known-finding", "detail": msg, "where": where})
        else:
            self.violations.append({"key": key, "rule": rule, "where": where, "msg": msg})
            self.obligations.append({"rule": rule, "instance": instance, "status": "violated", "detail": msg, "where": where})

    def anchor_failure(self, rule, msg):
        self.violation(rule, "anchor|" + msg[:80], "<checker>", "anchor not found (fail closed): " + msg)

    # ---- finish -----------------------------------------------------------------------------
    def finish(self, explanation, samples=None, extra=None):
        wall = time.time() - self.t0
        n_ob = len(self.obligations)
        n_ok = sum(1 for o in self.obligations if o["status"] == "holds")
        n_kf = sum(1 for o in self.obligations if o["status"] == "known-finding")
        distinct = len({(o["rule"], o["instance"]) for o in self.obligations})
        samp = samples or []
        if not samp:
            samp = self.obligations[:12]
        cov = {
            "explanation": explanation,
            "rules": self.rules,
            "obligations": n_ob,
            "discharged": n_ok,
            "known_findings_matched": n_kf,
            "violated": len(self.violations),
            "evaluations": max(n_ob, 1),
            "distinct_nontrivial": max(distinct, 0),
            "rule": "one obligation per (rule, code instance) enumerated from the type-checked program; distinct = distinct (rule, instance) keys",
            "functions_analysed": len(self.analysed_fns),
            "functions": sorted(self.analysed_fns)[:200],
            "call_sites_analysed": self.analysed_calls,
            "floors": self.floors,
            "samples": samp,
            "notes": self.notes,
            "facts_dir": os.path.basename(self.facts.dir) if self.facts is not None else None,
            "units": [m["crate"] + (".bin" if m["bin"] else ".lib") for m in (self.facts.metas if self.facts else [])],
            "bodies_in_scope": sum(m["bodies"] for m in (self.facts.metas if self.facts else [])),
            "checker_cmd": "./check %s --tier %s" % (self.pid, self.tier),
            "trusted_base": ["rustc nightly type checker and MIR construction", "sgfacts driver", "sgcheck rule library"],
            "exhaustive": False,
        }
        if extra:
            cov.update(extra)
        ev = {
            "property_id": self.pid,
            "tier": self.tier,
            "seed": int(os.environ.get("VERIF_SEED", "0") or 0),
            "level": self.level,
            "coverage": cov,
            "assumptions": self.assumptions,
            "wall_s": round(wall, 2),
            "violations": len(self.violations),
            "obligation_list": self.obligations,
        }
        os.makedirs(os.path.join(VERIF, "evidence"), exist_ok=True)
        evp = os.path.join(VERIF, "evidence", self.pid + ".json")
        with open(evp, "w") as fh:
            json.dump(ev, fh, indent=1, sort_keys=False)
        for h in self.known_hits:
            print("KNOWN-FINDING: property=%s %s — %s [%s]" % (self.pid, h["key"], h["msg"], h["where"]))
        print("%s tier=%s: %d obligations, %d hold, %d known findings, %d violations; %d functions, %d call sites analysed (%.1fs)" % (
            self.pid, self.tier, n_ob, n_ok, n_kf, len(self.violations), len(self.analysed_fns), self.analysed_calls, wall))
        if self.violations:
            os.makedirs(os.path.join(VERIF, ".work", "replay"), exist_ok=True)
            rp = os.path.join(VERIF, ".work", "replay", self.pid + ".json")
            with open(rp, "w") as fh:
                json.dump(self.violations, fh, indent=1)
            for v in self.violations:
                print("  violated: %s at %s: %s" % (v["key"], v["where"], v["msg"]))
            print("VIOLATION property=%s replay=%s" % (self.pid, rp))
            return 1
        return 0


def where(fn, line=None):
    """file:line (function) string for a fn record."""
    f = fn.get("file", "?")
    for pre in ("/repo/",):
        if f.startswith(pre):
            f = f[len(pre):]
    return "%s:%s (%s)" % (f, line if line is not None else fn.get("line", "?"), fn.get("path", "?"))
