"""Mutation points and error exits of a GraphStore method (shared by C05 / C06 / C11).

A *mutation point* is a place in the MIR body after which the store differs:
  - a statement writing a field of `*self` (other than allocator / cache bookkeeping),
  - a call of a local function with `&mut` receiver whose transitive field writes include a view field,
  - a call of a write-locking method of an interior-mutable index manager,
  - a std container mutation on a `&mut` reference into a view field,
  - a write / non-navigating `&mut` call through a handle obtained by get_mut / last_mut / entry / iter_mut.
An *error exit* is a block building `Err(..)` into the return place or calling `FromResidual::from_residual`."""
from . import orderdom as od
from . import storemodel as sm

GS = sm.GS
STD_MUT = ("push", "insert", "remove", "retain", "retain_mut", "clear", "extend", "pop", "swap_remove", "truncate", "resize", "take", "drain", "set",
           "or_insert_with", "or_default", "or_insert", "append", "dedup", "sort", "sort_by", "sort_unstable", "sort_by_key", "split_off", "push_back", "push_front", "pop_front", "pop_back")
NAV = ("get_mut", "last_mut", "entry", "iter_mut", "first_mut", "values_mut")
THRU = ("ok_or", "ok_or_else", "branch", "unwrap", "expect", "as_mut", "deref_mut", "and_then", "map", "last_mut", "get_mut", "first_mut", "unwrap_or_default", "index_mut", "next")
MANAGERS = ("IndexManager", "VectorIndexManager", "HierarchyIndexManager", "ConstraintManager")


def _is_mut_ref(ty):
    return ty.startswith("&mut") or (ty.startswith("&'") and " mut " in ty[:16])


def manager_writers(F):
    out = set()
    for p, r in F.fns.items():
        if r.get("trait"):
            continue
        if (r.get("self") or "").rsplit("::", 1)[-1] in MANAGERS and any("RwLock" in c and c.endswith("::write") for c in r["calls"]):
            out.add(p)
    return out


def mutation_points(F, cg, b, mgr=None):
    """-> list of (bb, line, description)"""
    mgr = mgr if mgr is not None else manager_writers(F)
    muts, handles = [], []
    for i, j, pl, rv, line, exp in b.stmts():
        if pl[0] == 1 and any(x.startswith("f:") for x in pl[1]):
            f = [x[2:] for x in pl[1] if x.startswith("f:")][0].split(".")[-1]
            if f not in sm.BOOKKEEPING:
                muts.append((i, line, "writes self." + f))
    for c in b.calls():
        if not c.args or c.args[0][0] == "k":
            continue
        a0 = c.args[0]
        ty = b.local_ty(a0[1][0])
        name = c.path.rsplit("::", 1)[-1]
        if c.path in F.fns:
            if c.path in mgr:
                muts.append((c.bb, c.line, "calls %s" % name))
                continue
            if _is_mut_ref(ty):
                w = cg.transitive_effects(c.path, "w")
                wf = {f[len(GS) + 1:] for f in w if f.startswith(GS + ".")}
                if wf - sm.BOOKKEEPING or any(x in mgr for x in cg.reach([c.path])):
                    muts.append((c.bb, c.line, "calls %s" % name))
            continue
        if _is_mut_ref(ty):
            fs = [f.split(".")[-1] for f in od.chain_fields(b, a0) if f.startswith(GS + ".")]
            if fs and fs[0] not in sm.BOOKKEEPING:
                if name in STD_MUT:
                    muts.append((c.bb, c.line, "%s on self.%s" % (name, fs[0])))
                elif name in NAV:
                    handles.append(c)
            elif fs and fs[0] in ("free_node_ids", "free_edge_ids") and name in ("push", "extend", "insert"):
                # handing an id back to the allocator is not bookkeeping when the call then fails:
                # the id of an entity that is not (or no longer) live gets allocated twice
                muts.append((c.bb, c.line, "%s on self.%s" % (name, fs[0])))
    if handles:
        derived = b.forward_taint({h.dest[0] for h in handles}, through_calls=lambda c, ix: c.path.rsplit("::", 1)[-1] in THRU)
        for i, j, pl, rv, line, exp in b.stmts():
            if pl[0] in derived and "*" in pl[1] and any(x.startswith("f:") for x in pl[1]):
                muts.append((i, line, "writes ." + [x for x in pl[1] if x.startswith("f:")][-1].split(".")[-1] + " through a handle"))
        for c in b.calls():
            if c.args and c.args[0][0] != "k" and c.args[0][1][0] in derived and c.path.rsplit("::", 1)[-1] not in THRU + NAV:
                if _is_mut_ref(b.local_ty(c.args[0][1][0])):
                    muts.append((c.bb, c.line, "calls %s through a handle" % c.path.rsplit("::", 1)[-1]))
    return muts


def error_exits(b):
    out = []
    for i, j, pl, rv, line, exp in b.stmts():
        if pl[0] == 0 and rv[0] == "agg" and rv[1].endswith("Result::Err"):
            out.append((i, line, "Err(..)"))
    for c in b.calls():
        if c.path.endswith("from_residual"):
            out.append((c.bb, c.line, "?"))
    return out


def _none_exits_precede_mutation(F, cg, callee, _memo={}):
    """The local callee returns Option and every `None` it returns is decided before its first mutation point:
    its None then means 'nothing there, nothing changed'."""
    if callee in _memo:
        return _memo[callee]
    _memo[callee] = False
    r = F.fns.get(callee)
    m = F.mir(callee) if r else None
    if not m or "Option<" not in r["sig"].rsplit("->", 1)[-1]:
        return False
    from .cfg import Body
    cb = Body(m, r)
    muts = mutation_points(F, cg, cb)
    nones = [(i, line, "None") for i, j, pl, rv, line, exp in cb.stmts() if pl[0] == 0 and rv[0] == "agg" and rv[1].endswith("Option::None")]
    nones += [(c.bb, c.line, "?") for c in cb.calls() if c.path.endswith("from_residual")]
    ok = not errors_after_mutation(cb, muts, nones)
    _memo[callee] = ok
    return ok


def _manager_errors_precede_write(F, callee, _memo={}):
    """A write-locking manager method returning Result fails only before it takes its write lock."""
    if callee in _memo:
        return _memo[callee]
    _memo[callee] = False
    r = F.fns.get(callee)
    m = F.mir(callee) if r else None
    if not m or "Result<" not in r["sig"].rsplit("->", 1)[-1]:
        return False
    from .cfg import Body
    cb = Body(m, r)
    locks = [c for c in cb.calls() if "RwLock" in c.path and c.path.endswith("::write")]
    errs = error_exits(cb)
    ok = True
    for lk in locks:
        after = cb.reachable(lk.target) if lk.target is not None else set()
        if any(eb in after for eb, el, ew in errs):
            ok = False
    _memo[callee] = ok and bool(locks)
    return _memo[callee]


def _some_side(b, call):
    """target block of the Some side of the first switch on the discriminant of an Option-returning call (through `?`)"""
    derived = b.forward_taint({call.dest[0]}, through_calls=lambda c, ix: c.path.rsplit("::", 1)[-1] in ("branch", "ok_or", "ok_or_else", "map_err", "map"))
    for i in sorted(b.reachable(call.bb)):
        t = b.blocks[i]["t"]
        if t[0] != "switch" or t[1][0] == "k":
            continue
        ds = b.defs().get(t[1][1][0], [])
        if len(ds) == 1 and ds[0][0] == "stmt" and ds[0][4][0] == "discr" and ds[0][4][1][0] in derived:
            ty = b.local_ty(ds[0][4][1][0])
            if ty.startswith("std::option::Option<"):
                one = [tgt for v, tgt in t[2] if v == "1"]
                return i, (one[0] if one else t[3])
            if ty.startswith("std::ops::ControlFlow<") or ty.startswith("std::result::Result<"):
                zero = [tgt for v, tgt in t[2] if v == "0"]
                return i, (zero[0] if zero else t[3])
    return None


def errors_after_mutation(b, muts, errs, F=None, cg=None):
    """pairs (mutation, error exit) with a CFG path mutation -> error exit.  With F/cg given, a mutating call of a
    local Option-returning helper whose None results all precede its own mutations only counts on its Some side."""
    bad = []
    calls_by_bb = {c.bb: c for c in b.calls()} if F is not None else {}
    for (mb, ml, mw) in muts:
        reach = set()
        c = calls_by_bb.get(mb)
        side = None
        if c is not None and c.path in F.fns and mw.startswith("calls ") and (_none_exits_precede_mutation(F, cg, c.path) or _manager_errors_precede_write(F, c.path)):
            side = _some_side(b, c)
        if side is not None:
            reach = b.reachable(side[1], avoid={side[0]})
            for (eb, el, ew) in errs:
                if eb in reach:
                    bad.append(((mb, ml, mw), (eb, el, ew)))
            continue
        for s in b.succ(mb):
            reach |= b.reachable(s)
        for (eb, el, ew) in errs:
            if eb in reach or (eb == mb and el > ml):
                bad.append(((mb, ml, mw), (eb, el, ew)))
    return bad


def store_mutating_calls(F, cg, b, mgr=None):
    """Calls in an operator body (or any body that holds `&mut GraphStore` as a parameter) that change the store:
    write-locking index-manager methods and GraphStore methods with a `&mut` receiver whose transitive field
    writes include a view field."""
    mgr = mgr if mgr is not None else manager_writers(F)
    out = []
    for c in b.calls():
        if c.path in mgr:
            out.append((c.bb, c.line, "calls %s" % c.path.rsplit("::", 1)[-1]))
            continue
        r = F.fns.get(c.path)
        if r and r.get("self") == GS and not r.get("trait") and c.args and c.args[0][0] != "k" and _is_mut_ref(b.local_ty(c.args[0][1][0])):
            w = cg.transitive_effects(c.path, "w")
            wf = {f[len(GS) + 1:] for f in w if f.startswith(GS + ".")}
            if wf - sm.BOOKKEEPING or any(x in mgr for x in cg.reach([c.path])):
                out.append((c.bb, c.line, "calls %s" % c.path.rsplit("::", 1)[-1]))
    return out


def some_side(b, call):
    """public alias: (switch block, success-side target) of an Option / Result returning call"""
    return _some_side(b, call)
