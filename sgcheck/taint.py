"""Taint + guard analysis for attacker-controlled integers (C21, C25).

Sources: results of numeric `str::parse`/`from_str_radix` (and of local functions whose
return value derives from one).  A tainted value may reach a sink only under *facts*
established by dominating comparisons:

  lb   — bounded below by a constant (value >= K side of a comparison)
  ub   — bounded above by a constant
  ublen— bounded above by an untainted runtime length (e.g. `rest.len() < len + 2` exits)

A fact holds at a block when every CFG path from the entry passes an edge that carries
it (decided by deleting those edges and testing reachability).  Comparisons are
normalised, so `a < b`, `b > a`, `!(a >= b)` are the same fact.
"""
from collections import defaultdict

from .cfg import Body, name_matches

NUM_TYPES = ("i8", "i16", "i32", "i64", "i128", "isize", "u8", "u16", "u32", "u64", "u128", "usize")
SIGNED = ("i8", "i16", "i32", "i64", "i128", "isize")
WIDTH = {"i8": 8, "u8": 8, "i16": 16, "u16": 16, "i32": 32, "u32": 32, "i64": 64, "u64": 64, "isize": 64, "usize": 64, "i128": 128, "u128": 128}


def is_numeric_parse(c):
    p = c.path
    if p.endswith("str>::parse") or "::parse" in p and "core::str" in p:
        g = c.full
        for t in NUM_TYPES:
            if g.endswith("::parse::<%s>" % t):
                return t
        return None
    if "from_str_radix" in p:
        for t in NUM_TYPES:
            if ("<impl %s>" % t) in p or p.startswith("core::num::<impl %s>" % t):
                return t
        return "int"
    return None


def is_float_parse(c):
    g = c.full
    return g.endswith("::parse::<f64>") or g.endswith("::parse::<f32>")


# calls through which taint flows from arg0 (receiver) to the result
TRANSPARENT = ("map_err", "Try>::branch", "Try::branch", "unwrap_or", "unwrap_or_default", "unwrap", "expect",
               "ok", "Option::<T>::unwrap_or", "clone", "into", "from", "min", "max", "abs", "unsigned_abs",
               "wrapping_add", "wrapping_sub", "wrapping_mul", "saturating_add", "saturating_sub", "saturating_mul",
               "checked_add", "checked_sub", "checked_mul", "pow", "try_into", "try_from", "unwrap_or_else", "ok_or",
               "ok_or_else", "map", "and_then", "copied", "cloned")


class TaintResult:
    def __init__(self):
        self.tainted = {}      # local -> set(root ids)
        self.roots = {}        # root id -> (desc, line)


def compute_taint(b, extra_sources=None, source_pred=None, tainted_params=()):
    """extra_sources: callee paths (local helper functions) whose result is tainted."""
    tr = TaintResult()
    extra_sources = extra_sources or set()
    rid = 0
    for c in b.calls():
        ty = (source_pred or is_numeric_parse)(c)
        if ty or c.path in extra_sources:
            tr.roots[rid] = ("%s at line %d" % (c.full.rsplit("::", 2)[-2] + "::" + c.full.rsplit("::", 1)[-1] if ty else c.path, c.line), c.line)
            tr.tainted.setdefault(c.dest[0], set()).add(rid)
            rid += 1
    for p in tainted_params:
        tr.roots[rid] = ("parameter _%d" % p, b.blocks[0]["l"])
        tr.tainted.setdefault(p, set()).add(rid)
        rid += 1
    changed = True
    while changed:
        changed = False
        for i, j, pl, rv, line, exp in b.stmts():
            srcs = set()
            for l in _rv_locals(rv):
                if l in tr.tainted:
                    srcs |= tr.tainted[l]
            if srcs:
                cur = tr.tainted.setdefault(pl[0], set())
                if not srcs <= cur:
                    cur |= srcs
                    changed = True
        for c in b.calls():
            m = c.path.rsplit("::", 1)[-1]
            if m in TRANSPARENT or c.path.endswith(TRANSPARENT):
                srcs = set()
                for a in c.args[:1]:
                    if a[0] != "k" and a[1][0] in tr.tainted:
                        srcs |= tr.tainted[a[1][0]]
                if srcs:
                    cur = tr.tainted.setdefault(c.dest[0], set())
                    if not srcs <= cur:
                        cur |= srcs
                        changed = True
    return tr


def _rv_locals(rv):
    k = rv[0]
    if k in ("use", "repeat"):
        o = rv[1]
        return [o[1][0]] if o[0] != "k" else []
    if k in ("ref", "rawptr"):
        return [rv[2][0]]
    if k == "cast":
        o = rv[2]
        return [o[1][0]] if o[0] != "k" else []
    if k == "bin":
        return [o[1][0] for o in rv[2:4] if o[0] != "k"]
    if k == "un":
        o = rv[2]
        return [o[1][0]] if o[0] != "k" else []
    if k == "agg":
        return [o[1][0] for o in rv[2] if o[0] != "k"]
    if k == "discr":
        return []
    return []


def returns_tainted(b, tr):
    return 0 in tr.tainted


# ----------------------------------------------------------------------------------------------
# guards
# ----------------------------------------------------------------------------------------------
NEG = {"Lt": "Ge", "Le": "Gt", "Gt": "Le", "Ge": "Lt", "Eq": "Ne", "Ne": "Eq"}
SWAP = {"Lt": "Gt", "Le": "Ge", "Gt": "Lt", "Ge": "Le", "Eq": "Eq", "Ne": "Ne"}


def guard_edges(b, tr):
    """edge (bb, succ) -> set of (root, fact) where fact in {'lb','ub','ublen','eq'}"""
    edges = defaultdict(set)
    defs = b.defs()
    len_locals = _len_locals(b)
    for i in b.live_blocks():
        t = b.blocks[i]["t"]
        if t[0] != "switch" or t[1][0] == "k":
            continue
        cl = t[1][1][0]
        cmp = None
        neg = False
        # find defining comparison (same block or any block: temps are single-assignment)
        cur = cl
        for _ in range(4):
            ds = [d for d in defs.get(cur, ()) if d[0] == "stmt"]
            if len(ds) != 1:
                break
            rv = ds[0][4]
            if rv[0] == "bin" and rv[1] in NEG:
                cmp = rv
                break
            if rv[0] == "un" and rv[1] == "Not" and rv[2][0] != "k":
                neg = not neg
                cur = rv[2][1][0]
                continue
            if rv[0] == "use" and rv[1][0] != "k" and not rv[1][1][1]:
                cur = rv[1][1][0]
                continue
            break
        if cmp is None:
            continue
        op, a, bb_ = cmp[1], cmp[2], cmp[3]
        ta = tr.tainted.get(a[1][0]) if a[0] != "k" else None
        tb = tr.tainted.get(bb_[1][0]) if bb_[0] != "k" else None
        if ta and tb:
            continue
        if not ta and not tb:
            continue
        if tb:
            op = SWAP[op]
            a, bb_ = bb_, a
            ta = tb
        # now: tainted OP other
        other_kind = "const" if bb_[0] == "k" else ("len" if bb_[1][0] in len_locals else "var")
        if neg:
            op = NEG[op]
        # true edge = target for value != 0 (otherwise), false edge = target for "0"
        false_t = None
        for val, tgt in t[2]:
            if val == "0":
                false_t = tgt
        true_t = t[3]
        if false_t is None:
            # switch [1 -> X] else Y
            for val, tgt in t[2]:
                if val == "1":
                    true_t = tgt
                    false_t = t[3]
        for (tgt, eop) in ((true_t, op), (false_t, NEG[op])):
            if tgt is None:
                continue
            facts = set()
            if eop in ("Lt", "Le"):
                facts.add("ub" if other_kind == "const" else ("ublen" if other_kind == "len" else "ubvar"))
            elif eop in ("Gt", "Ge"):
                if other_kind == "const":
                    facts.add("lb")
            elif eop == "Eq":
                if other_kind == "const":
                    facts |= {"lb", "ub"}
            for r in ta:
                for f in facts:
                    edges[(i, tgt)].add((r, f))
    return edges


def _len_locals(b):
    """Locals holding an untainted runtime length: results of len()/remaining()/capacity()."""
    out = set()
    for c in b.calls():
        m = c.path.rsplit("::", 1)[-1]
        if m in ("len", "remaining", "capacity", "count"):
            out.add(c.dest[0])
    changed = True
    while changed:
        changed = False
        for i, j, pl, rv, line, exp in b.stmts():
            if pl[0] in out or pl[1]:
                continue
            if rv[0] == "use" and rv[1][0] != "k" and rv[1][1][0] in out:
                out.add(pl[0])
                changed = True
            elif rv[0] == "other" and "PtrMetadata" in str(rv[1]):
                out.add(pl[0])
                changed = True
            elif rv[0] == "bin" and rv[1] in ("Sub", "SubWithOverflow", "Add", "AddWithOverflow"):
                ls = [o for o in rv[2:4]]
                if all((o[0] == "k") or (o[1][0] in out) for o in ls) and any(o[0] != "k" for o in ls):
                    out.add(pl[0])
                    changed = True
    return out


def facts_at(b, edges, block):
    """set of (root, fact) that hold on every path entry ->* block."""
    allfacts = set()
    for fs in edges.values():
        allfacts |= fs
    out = set()
    for f in allfacts:
        cut = {e for e, fs in edges.items() if f in fs}
        if not _reach_without_edges(b, 0, block, cut):
            out.add(f)
    return out


def _reach_without_edges(b, start, target, cut):
    if start == target:
        return True
    seen = {start}
    st = [start]
    while st:
        x = st.pop()
        for s in b.succ(x):
            if (x, s) in cut or s in seen:
                continue
            if s == target:
                return True
            seen.add(s)
            st.append(s)
    return False


# ----------------------------------------------------------------------------------------------
# sinks
# ----------------------------------------------------------------------------------------------
ALLOC = ("with_capacity", "reserve", "reserve_exact", "resize", "resize_with", "repeat", "set_len", "from_elem")
CONSUME = ("advance", "split_to", "split_off", "truncate", "skip", "take", "nth", "drain")


def find_sinks(b, tr):
    """Yield dicts: kind, roots, bb, line, need(set of alternative fact-sets), desc."""
    out = []
    T = tr.tainted
    # casts
    for i, j, pl, rv, line, exp in b.stmts():
        if rv[0] == "cast" and rv[1].startswith("IntToInt") and rv[2][0] != "k" and rv[2][1][0] in T:
            frm, to = rv[3], rv[4]
            if frm in SIGNED and to not in SIGNED:
                out.append({"kind": "cast-signed-to-unsigned", "roots": T[rv[2][1][0]], "bb": i, "line": line,
                            "need": [{"lb"}], "desc": "%s as %s" % (frm, to)})
            elif frm in WIDTH and to in WIDTH and WIDTH[to] < WIDTH[frm]:
                out.append({"kind": "cast-narrowing", "roots": T[rv[2][1][0]], "bb": i, "line": line,
                            "need": [{"ub"}], "desc": "%s as %s" % (frm, to)})
            elif frm not in SIGNED and to in SIGNED and WIDTH.get(to, 0) <= WIDTH.get(frm, 0):
                out.append({"kind": "cast-unsigned-to-signed", "roots": T[rv[2][1][0]], "bb": i, "line": line,
                            "need": [{"ub"}], "desc": "%s as %s" % (frm, to)})
        if rv[0] == "cast" and rv[1].startswith("FloatToInt") and rv[2][0] != "k" and rv[2][1][0] in T:
            out.append({"kind": "cast-float-to-int", "roots": T[rv[2][1][0]], "bb": i, "line": line,
                        "need": [{"ub", "lb"}], "desc": "%s as %s" % (rv[3], rv[4])})
    # overflow asserts
    for i in b.live_blocks():
        t = b.blocks[i]["t"]
        if t[0] == "assert" and t[1].startswith("overflow"):
            roots = set()
            for o in t[5]:
                if o[0] != "k" and o[1][0] in T:
                    roots |= T[o[1][0]]
            if roots:
                op = t[1].split(":")[1]
                need = [{"lb"}] if op == "Sub" else [{"ub"}, {"ublen"}]
                out.append({"kind": "arith-overflow:" + op, "roots": roots, "bb": i, "line": b.blocks[i]["l"], "need": need,
                            "desc": "unchecked %s on a client-supplied number" % op})
        if t[0] == "assert" and t[1] == "bounds":
            roots = set()
            o = t[5][1] if len(t[5]) > 1 else None
            if o and o[0] != "k" and o[1][0] in T:
                roots |= T[o[1][0]]
            if roots:
                out.append({"kind": "index-bounds", "roots": roots, "bb": i, "line": b.blocks[i]["l"], "need": [{"ublen"}],
                            "desc": "array index by a client-supplied number"})
    for c in b.calls():
        m = c.path.rsplit("::", 1)[-1]
        roots = set()
        for a in c.args:
            if a[0] != "k" and a[1][0] in T:
                roots |= T[a[1][0]]
        if not roots:
            continue
        if m in ALLOC and ("Vec" in c.path or "String" in c.path or "BytesMut" in c.path or "vec::" in c.path or "VecDeque" in c.path or "HashMap" in c.path):
            # the property bounds memory by the bytes *received*, not by a constant: the size must be below a
            # runtime length of the input (ublen), a constant cap (ub) alone still lets 14 bytes reserve 512 MB
            out.append({"kind": "alloc:" + m, "roots": roots, "bb": c.bb, "line": c.line, "need": [{"ublen"}],
                        "desc": "allocation sized by a client-supplied number (%s) that is not bounded by the number of bytes received" % c.path})
        elif m in ("index", "index_mut", "get_unchecked", "slice_index_order_fail") and ("Index" in c.path or "slice" in c.path):
            out.append({"kind": "slice-index", "roots": roots, "bb": c.bb, "line": c.line, "need": [{"ublen"}],
                        "desc": "slice indexed by a client-supplied number"})
        elif m in CONSUME and ("bytes::" in c.path or "Buf" in c.path):
            out.append({"kind": "buffer-" + m, "roots": roots, "bb": c.bb, "line": c.line, "need": [{"ublen"}],
                        "desc": "%s by a client-supplied count" % c.path})
    return out


def check_function(b, tr):
    """Returns (sinks, failures) — failures are sinks whose needed facts do not hold."""
    if not tr.tainted:
        return [], []
    edges = guard_edges(b, tr)
    sinks = find_sinks(b, tr)
    bad = []
    for s in sinks:
        have = facts_at(b, edges, s["bb"])
        ok_roots = True
        for r in s["roots"]:
            hr = {f for (rr, f) in have if rr == r}
            if not any(alt <= hr for alt in s["need"]):
                ok_roots = False
        s["have"] = sorted({f for (rr, f) in have if rr in s["roots"]})
        if not ok_roots:
            bad.append(s)
    return sinks, bad
