"""History monotonicity of the single-objective solvers (C34, R34g).

A solver's best-fitness history never gets worse if one of these holds, each visible in the shape of solve():
  A  the pushed value is a loop-carried best-so-far holder (an f64 or an Individual) and every assignment to it inside
     the iteration loop lies on the true side of a comparison `new < holder`;
  P  the pushed value is read from the population in each iteration and every member written inside the loop
     (a `.fitness` write, an Individual::new, an Individual literal — in solve() or in a closure created in the loop)
     lies on the true side of a comparison against a member's current fitness (greedy replacement);
  C  the population is read and some write is unconditional, but a named mechanism keeps the minimum (table below).
The fitness values are only compared, so the reasoning is over the orderings of two values, not over the values."""
from . import orderdom as od
from .cfg import Body

CMPS = ("Lt", "Gt", "Le", "Ge")


def _guards(b):
    """(switch bb, true target, false target, op, lhs, rhs, line) for every switch on a float comparison"""
    cmpdef = {}
    for i, j, pl, rv, line, exp in b.stmts():
        if rv[0] == "bin" and rv[1] in CMPS and not pl[1]:
            if all(o[0] != "k" and b.local_ty(o[1][0]) == "f64" for o in rv[2:4]):
                cmpdef[pl[0]] = (rv[1], rv[2], rv[3], line)
    out = []
    for sb in sorted(b.live_blocks()):
        t = b.blocks[sb]["t"]
        if t[0] != "switch" or t[1][0] == "k":
            continue
        hit = [l for l in od.chain_locals(b, t[1]) if l in cmpdef]
        if not hit:
            continue
        op, lhs, rhs, line = cmpdef[hit[0]]
        one = [tgt for v, tgt in t[2] if v == "1"]
        zero = [tgt for v, tgt in t[2] if v == "0"]
        out.append((sb, one[0] if one else t[3], zero[0] if zero else t[3], op, lhs, rhs, line))
    return out


def _true_side(b, bb, g):
    sb, tt, ft = g[0], g[1], g[2]
    return b.dominates(sb, bb) and bb != sb and bb in b.reachable(tt, avoid={sb}) and bb not in b.reachable(ft, avoid={sb})


def _reads_fitness(b, o):
    return o[0] != "k" and any(f.endswith("Individual.fitness") for f in od.chain_fields(b, o))


def _greedy_guard(b, bb, guards):
    """a guard whose true side holds bb and whose 'old' side reads a member's fitness, the new one being on the smaller side"""
    for g in guards:
        if not _true_side(b, bb, g):
            continue
        op, lhs, rhs = g[3], g[4], g[5]
        old, new = (rhs, lhs) if op in ("Lt", "Le") else (lhs, rhs)
        if _reads_fitness(b, old):
            return g
        if _reads_fitness(b, new) and _reads_fitness(b, old):
            return g
    return None


def _member_writes(b, blocks=None):
    out = []
    for i, j, pl, rv, line, exp in b.stmts():
        if blocks is not None and i not in blocks:
            continue
        if any(x.startswith("f:") and x.endswith("Individual.fitness") for x in pl[1]):
            out.append((i, line, "writes .fitness"))
        elif rv[0] == "agg" and rv[1].endswith("common::Individual"):
            out.append((i, line, "builds an Individual"))
    for c in b.calls():
        if blocks is not None and c.bb not in blocks:
            continue
        if c.path.endswith("common::Individual::new"):
            out.append((c.bb, c.line, "Individual::new"))
    return out


def _loop_of(b, bb):
    fwd = set()
    for s in b.succ(bb):
        fwd |= b.reachable(s)
    return {x for x in fwd if bb in b.reachable(x)} | ({bb} if bb in fwd else set())


def classify(F, solve, c_table):
    """-> dict(cls=..., ok=bool, why=str, line=int, detail=str)"""
    r = F.fns[solve]
    b = Body(F.mir(solve), r)
    pushes = [c for c in b.calls() if c.path.endswith("Vec::<T, A>::push") and c.args and c.args[0][0] != "k"
              and "Vec<f64>" in b.local_ty(c.args[0][1][0]) and len(c.args) > 1]
    if not pushes:
        return dict(cls="?", ok=False, why="no history push found in solve()", line=r.get("line", 0))
    res = None
    for pc in pushes:
        one = _classify_push(F, solve, r, b, pc, c_table)
        if res is None or not one["ok"]:
            res = one
        if not one["ok"]:
            break
    return res


def _classify_push(F, solve, r, b, pc, c_table):
    L = _loop_of(b, pc.bb)
    if not L:
        return dict(cls="?", ok=False, why="the history push is not inside a loop", line=pc.line)
    a = pc.args[1]
    if a[0] == "k":
        return dict(cls="?", ok=False, why="a constant is pushed to the history", line=pc.line)
    # walk the copy chain from the pushed operand to a local that has a definition outside the loop
    pl = a[1]
    holder = None
    for _ in range(12):
        l = pl[0]
        ds = b.defs().get(l, [])
        if any(d[1] not in L for d in ds):
            holder = l
            break
        if len(ds) == 1 and ds[0][0] == "stmt" and ds[0][4][0] == "use" and ds[0][4][1][0] != "k":
            pl = ds[0][4][1][1]
            continue
        break
    guards = _guards(b)
    if holder is not None and any(d[1] not in L for d in b.defs().get(holder, [])):
        # ---- class A -------------------------------------------------------------------------------------
        bad = None
        n = 0
        defs_in = []
        for i, j, pl2, rv, line, exp in b.stmts():
            if pl2[0] == holder and i in L and (not pl2[1] or any(x.endswith("Individual.fitness") for x in pl2[1])):
                defs_in.append((i, line))
        for c in b.calls():
            if c.dest[0] == holder and not c.dest[1] and c.bb in L:
                defs_in.append((c.target if c.target is not None else c.bb, c.line))
        for (bb, line) in defs_in:
            n += 1
            okg = False
            for g in guards:
                if not _true_side(b, bb, g):
                    continue
                op, lhs, rhs = g[3], g[4], g[5]
                old, new = (rhs, lhs) if op in ("Lt", "Le") else (lhs, rhs)
                if holder in od.chain_locals(b, old) and holder not in od.chain_locals(b, new):
                    okg = True
            if not okg:
                bad = (line, "the best-so-far value pushed to the history is assigned (line %d) outside the true side of a `new < best` comparison: it can be raised" % line)
        if bad:
            return dict(cls="A", ok=False, why=bad[1], line=bad[0])
        return dict(cls="A", ok=True, why="running minimum: %d in-loop assignment(s) of the pushed holder, each under `new < holder`" % n, line=pc.line)
    # ---- population read? ---------------------------------------------------------------------------------
    og = b.origins(a[1][0], through_calls=lambda cc: [0] if cc.path.rsplit("::", 1)[-1] in ("index", "deref", "fold", "map", "iter", "into_iter", "min_by", "unwrap", "expect", "cloned", "copied", "first", "get") else None)
    from_pop = any(o[0] == "via" and o[1].path.rsplit("::", 1)[-1] in ("index", "iter", "first", "get") and "Individual" in o[1].full for o in og)
    if not from_pop:
        return dict(cls="?", ok=False, why="the value pushed to the history is neither a loop-carried best-so-far holder nor read from the population", line=pc.line)
    # ---- class P: all in-loop member writes are greedy --------------------------------------------------------
    bad = []
    n = 0
    for (bb, line, what) in _member_writes(b, L):
        n += 1
        if not _greedy_guard(b, bb, guards):
            bad.append((solve, line, what))
    in_loop_closures = set()
    for i, j, pl2, rv, line, exp in b.stmts():
        if i in L and rv[0] == "agg" and rv[1].startswith("closure:"):
            in_loop_closures.add(rv[1][8:])
    allc = [p for p in F.fns if any(p == c or p.startswith(c + "::{closure") for c in in_loop_closures)]
    for cp in sorted(allc):
        m = F.mir(cp)
        if m is None:
            continue
        cb = Body(m, F.fns[cp])
        cg_ = _guards(cb)
        for (bb, line, what) in _member_writes(cb):
            n += 1
            if not _greedy_guard(cb, bb, cg_):
                bad.append((cp, line, what))
    if not bad:
        return dict(cls="P", ok=True, why="population read; %d in-loop member write(s), all greedy" % n, line=pc.line)
    short = solve.rsplit("::", 3)[-3]
    if short in c_table:
        okc, whyc = c_table[short](F, solve, b, pc, L)
        return dict(cls="C", ok=okc, why=whyc, line=pc.line)
    fn, line, what = bad[0]
    return dict(cls="P", ok=False, line=line, fn=fn,
                why="the history is read from the population, but a member is overwritten unconditionally (%s at line %d%s): when that member is the best one, the history goes up" % (what, line, "" if fn == solve else " in a closure"))


def ga_elitism(F, solve, b, pc, L):
    """the member whose fitness is pushed is cloned into the next generation on every path of the iteration"""
    thr = lambda cc: [0] if cc.path.rsplit("::", 1)[-1] in ("clone", "index", "deref") else None
    hist_idx = set()
    for o in b.origins(pc.args[1][1][0], through_calls=thr):
        if o[0] == "via" and o[1].path.endswith("::index") and len(o[1].args) > 1 and o[1].args[1][0] != "k":
            hist_idx |= od.chain_locals(b, o[1].args[1])
    for c in b.calls():
        if c.bb not in L or not c.path.endswith("Vec::<T, A>::push") or len(c.args) < 2 or c.args[1][0] == "k" or c.args[0][0] == "k":
            continue
        if "Individual" not in b.local_ty(c.args[0][1][0]):
            continue
        for o in b.origins(c.args[1][1][0], through_calls=thr):
            if o[0] == "via" and o[1].path.endswith("::index") and len(o[1].args) > 1 and o[1].args[1][0] != "k":
                if od.chain_locals(b, o[1].args[1]) & hist_idx and not _escapes(b, pc.bb, c.bb, L):
                    return True, "elitism: the member whose fitness is recorded is cloned into the next generation on every path of the iteration"
    # the same through a helper: a crate function called on every path of the iteration with the recorded member,
    # which pushes a clone of that parameter on every path to its return
    for c in b.calls():
        if c.bb not in L or c.path not in F.fns or _escapes(b, pc.bb, c.bb, L):
            continue
        for ix, a in enumerate(c.args):
            if a[0] == "k":
                continue
            fed = False
            for o in b.origins(a[1][0], through_calls=thr):
                if o[0] == "via" and o[1].path.endswith("::index") and len(o[1].args) > 1 and o[1].args[1][0] != "k" and od.chain_locals(b, o[1].args[1]) & hist_idx:
                    fed = True
            if not fed:
                continue
            hm = F.mir(c.path)
            if hm is None:
                continue
            hb = Body(hm, F.fns[c.path])
            rets = hb.ret_blocks()
            for hc in hb.calls():
                if hc.path.endswith("Vec::<T, A>::push") and len(hc.args) > 1 and hc.args[1][0] != "k" and "Individual" in hb.local_ty(hc.args[0][1][0]):
                    og = hb.origins(hc.args[1][1][0], through_calls=thr)
                    if any(o[0] == "arg" and o[1] == ix + 1 for o in og) and rets and all(hb.must_pass(0, rb, {hc.bb}) for rb in rets):
                        return True, "elitism: %s is called with the recorded member on every path of the iteration and always pushes its clone" % c.path.rsplit("::", 1)[-1]
    return False, "the population is replaced wholesale and the recorded best member is not carried into the next generation on every path: the history can go up"


def _escapes(b, frm, must, L):
    """is there a path inside L from `frm` back to `frm` that avoids `must`?"""
    for s in b.succ(frm):
        if s in L and s != must and frm in b.reachable(s, avoid={must}):
            return True
    return False
