"""MIR body wrapper: CFG, dominators, reachability, call sites, simple def-use."""
from collections import defaultdict


def place_local(pl):
    return pl[0]


def place_fields(pl):
    """Field names (Adt.field) mentioned in the projection of a place."""
    return [p[2:] for p in pl[1] if p.startswith("f:")]


def place_str(pl):
    s = "_%d" % pl[0]
    for p in pl[1]:
        if p == "*":
            s = "(*%s)" % s
        elif p.startswith("f:"):
            s += "." + p[2:].rsplit(".", 1)[-1]
        elif p.startswith(("t:", "u:")):
            s += "." + p[2:]
        elif p.startswith("i:"):
            s += "[_%s]" % p[2:]
        elif p.startswith("d:"):
            s += " as " + p[2:]
        else:
            s += "[" + p + "]"
    return s


def op_place(op):
    return op[1] if op[0] in ("c", "m") else None


def op_local(op):
    return op[1][0] if op[0] in ("c", "m") else None


def op_const(op):
    """(display, type, value-text) for constants, else None."""
    if op[0] == "k":
        return (op[1], op[2] if len(op) > 2 else "", op[3] if len(op) > 3 else "")
    return None


def const_str(op):
    """If the operand is a string-literal constant return its text (best effort)."""
    if op[0] != "k":
        return None
    d = op[1]
    if d.startswith('const "') and d.endswith('"'):
        body = d[7:-1]
        try:
            return bytes(body, "utf-8").decode("unicode_escape") if "\\" in body else body
        except Exception:
            return body
    return None


def const_int(op):
    if op[0] != "k" or len(op) < 4 or op[3] == "":
        return None
    try:
        return int(op[3])
    except ValueError:
        return None


def fmt_template(hexstr):
    """Decode a core::fmt::Arguments template (nightly 1.97 encoding) into a list of
    ('lit', text) / ('arg', index_or_None, flagsbyte) parts; None if malformed."""
    try:
        b = bytes.fromhex(hexstr)
    except ValueError:
        return None
    out = []
    i = 0
    nxt = 0
    while i < len(b):
        n = b[i]
        i += 1
        if n == 0:
            return out if i == len(b) else None
        if n < 128:
            out.append(("lit", b[i:i + n].decode("utf-8", "replace")))
            i += n
        elif n == 128:
            ln = b[i] | (b[i + 1] << 8)
            out.append(("lit", b[i + 2:i + 2 + ln].decode("utf-8", "replace")))
            i += 2 + ln
        elif n >= 0xC0:
            flags = width = prec = None
            if n & 1:
                flags = int.from_bytes(b[i:i + 4], "little")
                i += 4
            if n & 2:
                width = int.from_bytes(b[i:i + 2], "little")
                i += 2
            if n & 4:
                prec = int.from_bytes(b[i:i + 2], "little")
                i += 2
            idx = None
            if n & 8:
                idx = b[i] | (b[i + 1] << 8)
                i += 2
            if idx is None:
                idx = nxt
                nxt += 1
            else:
                nxt = idx + 1
            out.append(("arg", idx, n, flags, width, prec))
        else:
            return None
    return None


def lits_strings(lits):
    """All literal text carried by an arm's literal set: plain strings and the literal
    pieces of format templates."""
    out = []
    for l in lits:
        if l.startswith("s:"):
            out.append(l[2:])
        elif l.startswith("h:"):
            t = fmt_template(l[2:])
            if t is not None:
                out.extend(x[1] for x in t if x[0] == "lit")
    return out


class Call:
    __slots__ = ("bb", "callee", "args", "dest", "target", "exp", "expname", "line", "body")

    def __init__(self, body, bb, t, line):
        self.body = body
        self.bb = bb
        self.callee = t[1]
        self.args = t[2]
        self.dest = t[3]
        self.target = t[4]
        self.exp = t[5]
        self.expname = t[6]
        self.line = line

    @property
    def path(self):
        return self.callee.get("p", "?")

    @property
    def decl(self):
        return self.callee.get("d", self.callee.get("p", "?"))

    @property
    def full(self):
        return self.callee.get("pg") or self.callee.get("g") or self.path

    @property
    def gen(self):
        return self.callee.get("g", "")

    def is_macro(self):
        return self.exp == 1

    def __repr__(self):
        return "Call(bb%d %s @%d)" % (self.bb, self.path, self.line)


def name_matches(path, pats):
    """pats: iterable of suffix patterns; a pattern matches when path == pat or path ends
    with '::'+pat; generic segments (`::<...>`) in path are ignored."""
    p = strip_generics(path)
    for pat in pats:
        if p == pat or p.endswith("::" + pat) or p.endswith(">::" + pat):
            return True
    return False


def strip_generics(p):
    out = []
    depth = 0
    i = 0
    n = len(p)
    while i < n:
        c = p[i]
        if c == "<":
            # keep leading qualified-self `<T as Trait>` (depth0 at segment start) — detect by previous char
            if i == 0 or p[i - 1] != ":":
                # type args without turbofish e.g. Vec<T>
                depth += 1
            elif p[i - 2:i] == "::":
                depth += 1
                # drop the preceding '::'
                if out[-2:] == [":", ":"]:
                    out = out[:-2]
            i += 1
            continue
        if c == ">" and depth > 0 and (i == 0 or p[i - 1] != "-"):
            depth -= 1
            i += 1
            continue
        if depth == 0:
            out.append(c)
        i += 1
    return "".join(out)


class Body:
    def __init__(self, mir, fn=None):
        self.mir = mir
        self.fn = fn
        self.path = mir["path"]
        self.blocks = mir["blocks"]
        self.locals = mir["locals"]
        self.argc = mir["argc"]
        self.n = len(self.blocks)
        self._succ = [self._succ_of(b["t"]) for b in self.blocks]
        self._pred = None
        self._dom = None
        self._reach = None
        self._calls = None
        self._defs = None

    @staticmethod
    def _succ_of(t):
        k = t[0]
        if k == "goto":
            return [t[1]]
        if k == "switch":
            out = [x[1] for x in t[2]]
            out.append(t[3])
            # dedupe preserving order
            seen = []
            for x in out:
                if x not in seen:
                    seen.append(x)
            return seen
        if k == "call":
            return [t[4]] if t[4] is not None else []
        if k == "drop":
            return [t[2]]
        if k == "assert":
            return [t[4]]
        if k == "yield":
            return [t[2]]
        return []

    def succ(self, bb):
        return self._succ[bb]

    def const_text(self, disp):
        """Display text of a constant; `...promoted[N]` is resolved to the promoted body's constants."""
        import re
        m = re.search(r"promoted\[(\d+)\]$", disp.strip())
        if m:
            pr = self.mir.get("prom") or []
            n = int(m.group(1))
            if n < len(pr):
                return " ".join(pr[n])
        return disp

    def operand_text(self, op, depth=3):
        """All constant text an operand may carry (through refs/copies), promoteds resolved."""
        if op[0] == "k":
            return self.const_text(op[1])
        out = []
        for o in self.origins(op[1][0]):
            if o[0] == "const":
                out.append(self.const_text(o[1][1]))
            elif o[0] == "agg":
                out.append(o[1])
        return " ".join(out)

    def pred(self, bb):
        if self._pred is None:
            pr = [[] for _ in range(self.n)]
            for b in range(self.n):
                for s in self._succ[b]:
                    pr[s].append(b)
            self._pred = pr
        return self._pred[bb]

    def reachable(self, start=0, avoid=()):
        avoid = set(avoid)
        if start in avoid:
            return set()
        seen = {start}
        st = [start]
        while st:
            b = st.pop()
            for s in self._succ[b]:
                if s not in seen and s not in avoid:
                    seen.add(s)
                    st.append(s)
        return seen

    def live_blocks(self):
        if self._reach is None:
            self._reach = self.reachable(0)
        return self._reach

    def can_reach(self, a, b, avoid=()):
        """Is there a path a ->* b (length >= 0) avoiding blocks in `avoid` (a, b exempt)."""
        if a == b:
            return True
        av = set(avoid) - {a, b}
        return b in self.reachable(a, av)

    def reach_after(self, a, avoid=()):
        """Blocks reachable from the successors of a (a itself only if on a cycle)."""
        out = set()
        av = set(avoid)
        for s in self._succ[a]:
            if s not in av:
                out |= self.reachable(s, av)
        return out

    def dominators(self):
        if self._dom is not None:
            return self._dom
        live = self.live_blocks()
        order = self._rpo()
        dom = {b: None for b in live}
        dom[0] = {0}
        allset = set(live)
        for b in live:
            if b != 0:
                dom[b] = set(allset)
        changed = True
        while changed:
            changed = False
            for b in order:
                if b == 0:
                    continue
                ps = [p for p in self.pred(b) if p in live]
                new = None
                for p in ps:
                    new = set(dom[p]) if new is None else (new & dom[p])
                new = (new or set()) | {b}
                if new != dom[b]:
                    dom[b] = new
                    changed = True
        self._dom = dom
        return dom

    def dominates(self, a, b):
        d = self.dominators().get(b)
        return d is not None and a in d

    def _rpo(self):
        seen = set()
        out = []
        st = [(0, iter(self._succ[0]))]
        seen.add(0)
        while st:
            b, it = st[-1]
            adv = False
            for s in it:
                if s not in seen:
                    seen.add(s)
                    st.append((s, iter(self._succ[s])))
                    adv = True
                    break
            if not adv:
                out.append(b)
                st.pop()
        out.reverse()
        return out

    # ---- single boolean flag refinement ---------------------------------------------------
    def bool_flags(self):
        """Named bool locals that are only ever assigned boolean constants."""
        out = []
        defs = self.defs()
        for l, (ty, name) in enumerate(self.locals):
            if ty != "bool" or not name:
                continue
            ds = defs.get(l, [])
            if ds and all(d[0] == "stmt" and not d[3][1] and d[4][0] == "use" and d[4][1][0] == "k" for d in ds):
                out.append(l)
        return out

    def reachable_with_flag(self, start, flag, avoid=(), states=False):
        """Blocks reachable from `start` when the value of the bool local `flag` is tracked
        (path-sensitive in that one variable only; prunes switch edges that contradict it)."""
        avoid = set(avoid)
        seen = set()
        work = [(start, None)]
        out = set()
        while work:
            bb, val = work.pop()
            if (bb, val) in seen or bb in avoid:
                continue
            seen.add((bb, val))
            out.add(bb)
            derived = {}   # tmp local -> negated?
            for s in self.blocks[bb]["s"]:
                pl, rv = s[0], s[1]
                if pl[1]:
                    continue
                if pl[0] == flag:
                    if rv[0] == "use" and rv[1][0] == "k":
                        val = 1 if rv[1][1].strip() == "const true" else 0
                    else:
                        val = None
                    continue
                if rv[0] == "use" and rv[1][0] != "k" and not rv[1][1][1]:
                    src = rv[1][1][0]
                    if src == flag:
                        derived[pl[0]] = False
                    elif src in derived:
                        derived[pl[0]] = derived[src]
                elif rv[0] == "un" and rv[1] == "Not" and rv[2][0] != "k" and not rv[2][1][1]:
                    src = rv[2][1][0]
                    if src == flag:
                        derived[pl[0]] = True
                    elif src in derived:
                        derived[pl[0]] = not derived[src]
            t = self.blocks[bb]["t"]
            succs = self._succ[bb]
            if t[0] == "switch" and val is not None and t[1][0] != "k" and not t[1][1][1]:
                l = t[1][1][0]
                neg = None
                if l == flag:
                    neg = False
                elif l in derived:
                    neg = derived[l]
                if neg is not None:
                    v = val if not neg else 1 - val
                    tgt = None
                    for sval, sbb in t[2]:
                        if sval == str(v):
                            tgt = sbb
                    if tgt is None:
                        tgt = t[3]
                    succs = [tgt]
            for s2 in succs:
                work.append((s2, val))
        if states:
            return seen
        return out

    def must_pass(self, start, target, through):
        """True if every CFG path start ->* target meets a block in `through`; refined by
        every single-bool-flag abstraction (each only removes infeasible paths)."""
        if target not in self.reachable(start, avoid=through):
            return True
        for f in self.bool_flags():
            if target not in self.reachable_with_flag(start, f, avoid=through):
                return True
        return False

    # ---- calls -------------------------------------------------------------------------
    def calls(self, include_macro=True):
        if self._calls is None:
            cs = []
            live = self.live_blocks()
            for i, b in enumerate(self.blocks):
                if i not in live:
                    continue
                t = b["t"]
                if t[0] == "call":
                    cs.append(Call(self, i, t, b["l"]))
            self._calls = cs
        if include_macro:
            return self._calls
        return [c for c in self._calls if c.exp != 1]

    def calls_to(self, pats, include_macro=True):
        return [c for c in self.calls(include_macro) if name_matches(c.path, pats) or name_matches(c.decl, pats)]

    def ret_blocks(self):
        live = self.live_blocks()
        return [i for i, b in enumerate(self.blocks) if i in live and b["t"][0] == "ret"]

    # ---- statements ----------------------------------------------------------------------
    def stmts(self):
        """Yield (bb, idx, place, rvalue, line, exp) over live blocks."""
        live = self.live_blocks()
        for i, b in enumerate(self.blocks):
            if i not in live:
                continue
            for j, s in enumerate(b["s"]):
                yield i, j, s[0], s[1], s[2], s[3]

    def defs(self):
        """local -> list of ('stmt', bb, idx, place, rvalue) | ('call', bb, Call)"""
        if self._defs is None:
            d = defaultdict(list)
            for i, j, pl, rv, line, exp in self.stmts():
                d[pl[0]].append(("stmt", i, j, pl, rv))
            for c in self.calls():
                d[c.dest[0]].append(("call", c.bb, c))
            self._defs = d
        return self._defs

    def switch_on(self, local, near=None):
        """(switch block, terminator) of the switch that tests the bool `local` — directly in block `near`, or, when
        the value is first bound to a name, the switch whose operand is a single-definition copy of it."""
        if near is not None:
            t = self.blocks[near]["t"]
            if t[0] == "switch" and t[1][0] != "k" and t[1][1][0] == local:
                return near, t
        for sb in sorted(self.live_blocks()):
            t = self.blocks[sb]["t"]
            if t[0] != "switch" or t[1][0] == "k":
                continue
            l = t[1][1][0]
            for _ in range(6):
                if l == local:
                    return sb, t
                ds = self.defs().get(l, [])
                if len(ds) == 1 and ds[0][0] == "stmt" and ds[0][4][0] == "use" and ds[0][4][1][0] != "k" and not ds[0][4][1][1][1]:
                    l = ds[0][4][1][1][0]
                    continue
                break
        return None, None

    def error_exit_blocks(self):
        """blocks that put an error into the return place: `_0 = Err(..)` or `_0 = from_residual(..)` (the `?` exit)"""
        out = {i for i, j, pl, rv, line, exp in self.stmts() if pl[0] == 0 and rv[0] == "agg" and rv[1].endswith("Result::Err")}
        out |= {c.bb for c in self.calls() if c.dest[0] == 0 and c.path.endswith("from_residual")}
        return out

    def success_passes(self, start, via):
        """every path from `start` to a return that is not an error exit passes a block of `via` — whatever the
        spelling of the success return (an `Ok(..)` literal, a variable holding a Result, a tail call)"""
        via = set(via) | self.error_exit_blocks()
        rets = [rb for rb in self.ret_blocks() if rb in self.reachable(start)]
        return all(self.must_pass(start, rb, via) for rb in rets)

    def local_ty(self, l):
        return self.locals[l][0]

    def local_name(self, l):
        return self.locals[l][1]

    # ---- backward origin tracing --------------------------------------------------------
    def origins(self, local, through_calls=None, max_steps=4000):
        """Flow-insensitive backward slice from `local`.  Returns a list of origin items:
        ('arg', n), ('call', Call), ('const', op), ('agg', kind, ops, bb), ('other', rv).
        `through_calls(call)` -> list of arg indexes whose value flows to the result (the
        call is then transparent) or None to stop at the call."""
        seen = set()
        out = []
        work = [local]
        steps = 0
        defs = self.defs()
        while work and steps < max_steps:
            l = work.pop()
            if l in seen:
                continue
            seen.add(l)
            steps += 1
            if 1 <= l <= self.argc:
                out.append(("arg", l))
            for d in defs.get(l, ()):
                if d[0] == "call":
                    c = d[2]
                    idxs = through_calls(c) if through_calls else None
                    if idxs is None:
                        out.append(("call", c))
                    else:
                        out.append(("via", c))
                        for ix in idxs:
                            if ix < len(c.args):
                                a = c.args[ix]
                                if a[0] == "k":
                                    out.append(("const", a))
                                else:
                                    work.append(a[1][0])
                else:
                    rv = d[4]
                    k = rv[0]
                    if k in ("use", "repeat"):
                        o = rv[1]
                        if o[0] == "k":
                            out.append(("const", o))
                        else:
                            work.append(o[1][0])
                    elif k in ("ref", "rawptr"):
                        work.append(rv[2][0])
                    elif k == "cast":
                        o = rv[2]
                        if o[0] == "k":
                            out.append(("const", o))
                        else:
                            work.append(o[1][0])
                    elif k in ("bin",):
                        out.append(("bin", rv, d[1]))
                        for o in rv[2:4]:
                            if o[0] == "k":
                                out.append(("const", o))
                            else:
                                work.append(o[1][0])
                    elif k == "un":
                        o = rv[2]
                        if o[0] != "k":
                            work.append(o[1][0])
                    elif k == "agg":
                        out.append(("agg", rv[1], rv[2], d[1]))
                        for o in rv[2]:
                            if o[0] == "k":
                                out.append(("const", o))
                            else:
                                work.append(o[1][0])
                    elif k == "discr":
                        work.append(rv[1][0])
                    else:
                        out.append(("other", rv))
        return out

    def uses_of(self, local):
        """Forward: positions that read `local`: list of ('stmt', bb, idx, place, rv) and ('call', Call, argidx)
        and ('switch', bb)."""
        out = []
        for i, j, pl, rv, line, exp in self.stmts():
            if _rv_mentions(rv, local) or (pl[0] == local and pl[1]):
                out.append(("stmt", i, j, pl, rv))
        for c in self.calls():
            for ix, a in enumerate(c.args):
                if a[0] != "k" and a[1][0] == local:
                    out.append(("call", c, ix))
        live = self.live_blocks()
        for i, b in enumerate(self.blocks):
            if i in live and b["t"][0] == "switch":
                o = b["t"][1]
                if o[0] != "k" and o[1][0] == local:
                    out.append(("switch", i))
        return out

    def forward_taint(self, seeds, through_calls=None, max_steps=5000):
        """Flow-insensitive forward closure of locals derived from seed locals.
        through_calls(call, argidx) -> True if the call's result derives from that arg."""
        tainted = set(seeds)
        changed = True
        steps = 0
        while changed and steps < max_steps:
            changed = False
            steps += 1
            for i, j, pl, rv, line, exp in self.stmts():
                if pl[0] in tainted:
                    continue
                if any(_rv_mentions(rv, t) for t in tainted):
                    tainted.add(pl[0])
                    changed = True
            for c in self.calls():
                if c.dest[0] in tainted:
                    continue
                for ix, a in enumerate(c.args):
                    if a[0] != "k" and a[1][0] in tainted:
                        if through_calls is None or through_calls(c, ix):
                            tainted.add(c.dest[0])
                            changed = True
                            break
        return tainted


def _rv_mentions(rv, local):
    k = rv[0]
    if k in ("use", "repeat"):
        o = rv[1]
        return o[0] != "k" and o[1][0] == local
    if k in ("ref", "rawptr"):
        return rv[2][0] == local
    if k == "cast":
        o = rv[2]
        return o[0] != "k" and o[1][0] == local
    if k == "bin":
        return any(o[0] != "k" and o[1][0] == local for o in rv[2:4])
    if k == "un":
        o = rv[2]
        return o[0] != "k" and o[1][0] == local
    if k == "agg":
        return any(o[0] != "k" and o[1][0] == local for o in rv[2])
    if k == "discr":
        return rv[1][0] == local
    return False
