"""Mutator kind table and representation sets of GraphStore (shared by C02/C06/C07/C11/C28/C29)."""
GS = "samyama::graph::store::GraphStore"

KINDS = {
    "node-add": ["create_node_with_labels", "create_node_with_properties", "create_node_stub", "insert_recovered_node"],
    "node-kill": ["delete_node"],
    "prop-set": ["set_node_property", "set_column_property"],
    "prop-kill": ["remove_node_property"],
    "label-add": ["add_label_to_node"],
    "label-kill": ["remove_label_from_node"],
    "edge-add": ["create_edge", "create_edge_with_properties", "create_edge_stub", "insert_recovered_edge"],
    "edge-kill": ["delete_edge"],
    "edge-prop-set": ["set_edge_property", "set_edge_property_sparse"],
    "edge-prop-kill": ["remove_edge_property"],
    "tier-move": ["compact_adjacency"],
    "bulk-finish": ["finish_bulk_load"],
    "raw-handle": ["get_node_mut", "get_edge_properties_mut"],
    "rebuild": ["rebuild_edge_type_index"],
    "gc": ["gc_versions"],
    "reset": ["clear"],
}
# allocator / interning bookkeeping: not part of any read view
BOOKKEEPING = {"next_node_id", "next_edge_id", "free_node_ids", "free_edge_ids", "edge_type_table", "edge_type_to_id",
               "statistics_cache", "stats_cache", "cached_statistics", "catalog"}
EDGE_VIEW_FIELDS = {"outgoing", "incoming", "frozen_outgoing", "frozen_incoming", "edge_endpoints", "edge_type_ids", "edge_type_index",
                    "edge_properties", "edge_version_log", "edge_columns"}
NODE_VIEW_FIELDS = {"nodes", "label_index", "node_columns"}


def fn_of(F, name):
    return F.fn_opt(GS + "::" + name)


def weffects(F, cg, name):
    r = fn_of(F, name)
    if r is None:
        return None
    eff = cg.transitive_effects(r["path"], "w")
    return {f[len(GS) + 1:] for f in eff if f.startswith(GS + ".")}


def reffects(F, cg, name):
    r = fn_of(F, name)
    if r is None:
        return None
    eff = cg.transitive_effects(r["path"], "r")
    return {f[len(GS) + 1:] for f in eff if f.startswith(GS + ".")}


def classified():
    out = set()
    for v in KINDS.values():
        out |= set(v)
    return out


def unclassified_mutators(F, cg):
    """pub fn (&mut self ..) of GraphStore writing a view field that is not in the kind table."""
    known = classified()
    out = []
    for p, r in F.fns.items():
        if not p.startswith(GS + "::") or "{closure" in p or r.get("trait"):
            continue
        name = p[len(GS) + 2:]
        if "::" in name or r["vis"] != "pub":
            continue
        if " mut " + GS not in r["sig"].split("->")[0].split(",")[0]:
            continue
        if name in known:
            continue
        w = {f[len(GS) + 1:] for f in r["w"] if f.startswith(GS + ".")}
        # direct writes only: wrappers that delegate to classified mutators are fine
        if w & (EDGE_VIEW_FIELDS | NODE_VIEW_FIELDS):
            out.append((name, sorted(w & (EDGE_VIEW_FIELDS | NODE_VIEW_FIELDS)), r))
    return out
