"""Quantitative length guards: for a slice indexed with a client-derived bound, evaluate the
dominating `len()` comparison(s) and the index bound over a small grid and require
   every (n, L) that passes the guards satisfies bound(n) <= L.
Expressions are extracted from MIR (orderdom); len() calls on the same base are one root."""
from . import orderdom as od


def canon(b, e):
    """Rewrite call roots: len()/PtrMetadata on the same base -> ('len', base); everything else unchanged."""
    k = e[0]
    if k == "call":
        m = e[1].rsplit("::", 1)[-1]
        if m == "len" and e[3] and e[3][0][0] == "ref":
            base = sorted(od.chain_locals(b, ["c", [e[3][0][1], []]]))
            return ("root", "len", "len(_%s)" % (base[-1] if base else "?"))
        return e
    if k in ("arith", "cmp"):
        return (k, e[1], canon(b, e[2]), canon(b, e[3]))
    if k == "not":
        return ("not", canon(b, e[1]))
    return e


def dominating_len_guards(b, block):
    """[(switch_bb, cmp_expr, pass_value)] for switches dominating `block` whose condition compares a len() root with
    something, where `block` lies on exactly one side; pass_value is the truth value of the comparison on that side."""
    out = []
    for i in sorted(b.live_blocks()):
        t = b.blocks[i]["t"]
        if t[0] != "switch" or t[1][0] == "k" or i == block or not b.dominates(i, block):
            continue
        ds = [d for d in b.defs().get(t[1][1][0], []) if d[0] == "stmt"]
        if len(ds) != 1 or ds[0][4][0] != "bin" or ds[0][4][1] not in od.CMP:
            continue
        rv = ds[0][4]
        e = canon(b, ("cmp", od.CMP[rv[1]], od.expr_of(b, rv[2]), od.expr_of(b, rv[3])))
        if not any(r[0] == "root" and r[1] == "len" for r in od.roots(e)):
            continue
        false_t = [tgt for v, tgt in t[2] if v == "0"]
        true_t = t[3]
        if not false_t:
            continue
        on_true = block in b.reachable(true_t, avoid={i})
        on_false = block in b.reachable(false_t[0], avoid={i})
        if on_true == on_false:
            continue
        out.append((i, e, on_true))
    return out


def check_bound(b, block, bound_expr, base_local_set, grid_n=range(0, 9), grid_l=range(0, 13)):
    """Returns (ok, detail). bound_expr: expression of the index upper bound (in terms of client-number roots)."""
    be = canon(b, bound_expr)
    guards = dominating_len_guards(b, block)
    if not guards:
        return False, "no dominating comparison with a length"
    lroots = set()
    for _, e, _ in guards:
        for r in od.roots(e):
            if r[0] == "root" and r[1] == "len":
                lroots.add(r)
    nroots = [r for r in od.roots(be)]
    for _, e, _ in guards:
        for r in od.roots(e):
            if r not in lroots and r not in nroots:
                nroots.append(r)
    if len(lroots) != 1:
        return False, "guards compare with %d different lengths" % len(lroots)
    lr = list(lroots)[0]
    if len(nroots) > 2:
        return False, "bound depends on more than two quantities"
    import itertools
    for vals in itertools.product(grid_n, repeat=max(1, len(nroots))):
        env = {r: v for r, v in zip(nroots, vals)}
        for L in grid_l:
            env[lr] = L
            try:
                passes = all(bool(od.evaluate(e, env)) == pv for _, e, pv in guards)
                if passes and od.evaluate(be, env) > L:
                    return False, "guards %s let through %s with length %d but the bound %s = %d" % (
                        [("" if pv else "!") + od.show(e) for _, e, pv in guards], {od.show(r): v for r, v in zip(nroots, vals)}, L, od.show(be), od.evaluate(be, env))
            except Exception as ex:
                return False, "cannot evaluate: %s" % ex
    return True, "for all grid points passing %s: %s <= length" % ([("" if pv else "!") + od.show(e) for _, e, pv in guards], od.show(be))
