"""Buffer-consumption typestate used by C20: 'no consumption before an incomplete return'.

For a function F with a `&mut BytesMut`-like parameter, a forward may-analysis over the
CFG computes, per block, whether the buffer may already have been consumed.  Consumption
happens at direct consuming calls (advance/split_to/...) and on the *Some*-outcome of a
call to another function of the family that may consume.  The Some-outcome is recognised
through the `?`/match lowering (Try::branch -> discriminant switch -> Continue.0 ->
discriminant switch on the Option), so `else { Ok(None) }` after `read_line(buf)?` is not
confused with a consumed state.  Unrecognised uses of such a result are treated as
consumption (conservative)."""
from .cfg import Body, name_matches

CONSUMING_METHODS = ("advance", "split_to", "split_off", "truncate", "clear", "split", "copy_to_bytes",
                     "copy_to_slice", "get_u8", "get_i8", "get_u16", "get_u32", "get_u64", "get_i64",
                     "get_i32", "get_i16", "set_len", "unsplit_consume", "freeze_consume", "drain")


def is_consuming_call(c):
    p = c.path
    if "bytes::" not in p and "BytesMut" not in p and "Buf" not in p:
        return False
    m = p.rsplit("::", 1)[-1]
    return m in CONSUMING_METHODS


class Family:
    """Functions in a module that take the connection buffer mutably."""

    def __init__(self, F, module_prefix, buf_ty="&mut bytes::BytesMut"):
        self.F = F
        self.members = {}
        for p, r in F.fns.items():
            if not p.startswith(module_prefix):
                continue
            m = F.mir(p)
            if m is None:
                continue
            b = Body(m, r)
            bufs = [i for i in range(1, b.argc + 1) if b.local_ty(i).replace("'_ ", "").startswith("&mut bytes::BytesMut") or "&mut bytes::BytesMut" in b.local_ty(i)]
            if bufs:
                self.members[p] = (r, b, bufs)
        # fixpoints
        self.may_consume = set()
        self.may_incomplete_err = set()
        changed = True
        while changed:
            changed = False
            for p, (r, b, bufs) in self.members.items():
                if p not in self.may_consume:
                    for c in b.calls():
                        if is_consuming_call(c) or c.path in self.may_consume:
                            self.may_consume.add(p)
                            changed = True
                            break
                if p not in self.may_incomplete_err:
                    if self._constructs_incomplete(b) or any(c.path in self.may_incomplete_err for c in b.calls()):
                        self.may_incomplete_err.add(p)
                        changed = True

    @staticmethod
    def _constructs_incomplete(b):
        for i, j, pl, rv, line, exp in b.stmts():
            if rv[0] == "agg" and rv[1].endswith("RespError::Incomplete"):
                return True
            if rv[0] == "use" and rv[1][0] == "k" and "RespError::Incomplete" in rv[1][1]:
                return True
        return False


def analyse(fam, path):
    """Returns list of (kind, line, detail) incomplete exits reached in a consumed state."""
    r, b, bufs = fam.members[path]
    # ---- flow-insensitive tags -------------------------------------------------------------
    tag = {}       # local -> (kind, callbb)   kind in R, CF, O, dR, dCF, dO
    fam_calls = {}
    for c in b.calls():
        if c.path in fam.members:
            fam_calls[c.bb] = c
            ret = b.local_ty(c.dest[0])
            if ret.startswith("std::result::Result<std::option::Option"):
                tag[c.dest[0]] = ("R", c.bb)
            elif ret.startswith("std::option::Option"):
                tag[c.dest[0]] = ("O", c.bb)
            else:
                tag[c.dest[0]] = ("X", c.bb)
    changed = True
    while changed:
        changed = False
        for c in b.calls():
            if c.path.endswith("Try>::branch") and c.args and c.args[0][0] != "k":
                t = tag.get(c.args[0][1][0])
                if t and t[0] == "R" and tag.get(c.dest[0]) != ("CF", t[1]):
                    tag[c.dest[0]] = ("CF", t[1])
                    changed = True
        for i, j, pl, rv, line, exp in b.stmts():
            if pl[1]:
                continue
            new = None
            if rv[0] == "use" and rv[1][0] != "k":
                src = rv[1][1]
                t = tag.get(src[0])
                if t:
                    projs = src[1]
                    if not projs:
                        new = t
                    elif t[0] == "CF" and projs[0] == "d:Continue":
                        new = ("O", t[1])
                    elif t[0] == "R" and projs[0] == "d:Ok":
                        new = ("O", t[1])
                    elif t[0] == "O" and projs[0] == "d:Some":
                        new = None      # the payload: consumption is decided at the switch
                    elif t[0] in ("CF", "R") and projs[0] in ("d:Break", "d:Err"):
                        new = ("E", t[1])
            elif rv[0] == "discr":
                t = tag.get(rv[1][0])
                if t and t[0] in ("R", "CF", "O"):
                    projs = rv[1][1]
                    if not projs:
                        new = ("d" + t[0], t[1])
                    elif len(projs) == 2 and ((t[0] == "R" and projs[0] == "d:Ok") or (t[0] == "CF" and projs[0] == "d:Continue")):
                        new = ("dO", t[1])
            if new and tag.get(pl[0]) != new:
                tag[pl[0]] = new
                changed = True
    # ---- unrecognised uses of R/CF/O/X tagged locals -> conservative consumption point -----
    conservative_blocks = set()
    for c in b.calls():
        for a in c.args:
            if a[0] != "k":
                t = tag.get(a[1][0])
                if t and t[0] in ("R", "O", "X", "CF") and t[1] in fam_calls and fam_calls[t[1]].path in fam.may_consume:
                    if c.path.endswith("Try>::branch") and t[0] == "R":
                        continue
                    if c.path.endswith("from_residual"):
                        continue
                    conservative_blocks.add(c.bb)
    for bb, c in fam_calls.items():
        if tag[c.dest[0]][0] == "X" and c.path in fam.may_consume:
            conservative_blocks.add(bb)
    # ---- edge effects ------------------------------------------------------------------------
    consume_edges = set()
    for i in b.live_blocks():
        t = b.blocks[i]["t"]
        if t[0] == "switch" and t[1][0] != "k":
            tg = tag.get(t[1][1][0])
            if tg and tg[0] == "dO" and tg[1] in fam_calls and fam_calls[tg[1]].path in fam.may_consume:
                for val, tgt in t[2]:
                    if val == "1":
                        consume_edges.add((i, tgt))
    direct = {c.bb for c in b.calls() if is_consuming_call(c)}
    # ---- forward may-analysis ---------------------------------------------------------------
    cin = {i: None for i in b.live_blocks()}
    cin[0] = False
    work = [0]
    while work:
        i = work.pop()
        o = cin[i] or (i in direct) or (i in conservative_blocks)
        for s in b.succ(i):
            v = o or ((i, s) in consume_edges)
            if cin[s] is None:
                cin[s] = v
                work.append(s)
            elif v and not cin[s]:
                cin[s] = True
                work.append(s)
    # ---- incomplete exits ---------------------------------------------------------------------
    bad = []
    exits = 0
    for i, j, pl, rv, line, exp in b.stmts():
        if rv[0] == "agg" and rv[1].endswith("RespError::Incomplete"):
            exits += 1
            if cin[i]:
                bad.append(("constructs-Incomplete", line, "Err(Incomplete) built after the buffer may have been consumed"))
        if pl[0] == 0 and not pl[1] and rv[0] == "agg" and rv[1].endswith("Result::Ok") and rv[2] and rv[2][0][0] != "k":
            src = rv[2][0][1][0]
            # Ok(None)?
            for d in b.defs().get(src, ()):
                if d[0] == "stmt" and d[4][0] == "agg" and d[4][1].endswith("Option::None") and d[1] == i:
                    exits += 1
                    if cin[i]:
                        bad.append(("returns-Ok(None)", line, "Ok(None) returned after the buffer may have been consumed"))
    for c in b.calls():
        if c.path.endswith("from_residual") and c.args and c.args[0][0] != "k":
            # which family call does the residual come from?
            src = c.args[0][1][0]
            t = tag.get(src)
            if t is None:
                # follow one move
                for d in b.defs().get(src, ()):
                    if d[0] == "stmt" and d[4][0] == "use" and d[4][1][0] != "k":
                        t = tag.get(d[4][1][1][0]) or t
            if t and t[1] in fam_calls and fam_calls[t[1]].path in fam.may_incomplete_err:
                exits += 1
                callbb = t[1]
                if cin[callbb]:
                    bad.append(("propagates-Incomplete:" + fam_calls[callbb].path.rsplit("::", 1)[-1], c.line,
                                "`?` propagates a possible Err(Incomplete) from %s after the buffer may have been consumed" % fam_calls[callbb].path))
    return bad, exits, len(fam_calls), len(direct)
