"""Debug: pretty-print the MIR facts of a function.  python3 -m sgcheck.dump <suffix> [--arms]"""
import glob, sys, os, json
from .facts import Facts, extract
from .cfg import Body, place_str

def opstr(o):
    if o[0] in ("c", "m"):
        return ("move " if o[0] == "m" else "") + place_str(o[1])
    if o[0] == "k":
        return o[1]
    return "?"

def rvstr(rv):
    k = rv[0]
    if k == "use": return opstr(rv[1])
    if k == "ref": return ("&mut " if rv[1] else "&") + place_str(rv[2])
    if k == "cast": return "%s as %s (%s)" % (opstr(rv[2]), rv[4], rv[1])
    if k == "bin": return "%s(%s, %s)" % (rv[1], opstr(rv[2]), opstr(rv[3]))
    if k == "un": return "%s(%s)" % (rv[1], opstr(rv[2]))
    if k == "agg": return "%s{%s}" % (rv[1], ", ".join(opstr(o) for o in rv[2]))
    if k == "discr": return "discr(%s)" % place_str(rv[1])
    return json.dumps(rv)

def main():
    F = Facts(extract())
    suf = sys.argv[1]
    for r in F.find_fns(suf):
        print("==", r["path"], r["file"], r["line"], "sig:", r["sig"])
        m = F.mir(r["path"])
        b = Body(m, r)
        for i, (t, n) in enumerate(m["locals"]):
            print("   _%d: %s%s" % (i, t, " // " + n if n else ""))
        live = b.live_blocks()
        for i, blk in enumerate(m["blocks"]):
            if i not in live: continue
            print(" bb%d:%s" % (i, " (cleanup)" if blk["c"] else ""))
            for s in blk["s"]:
                print("    %s = %s   // %d%s" % (place_str(s[0]), rvstr(s[1]), s[2], " x" if s[3] else ""))
            t = blk["t"]
            if t[0] == "call":
                print("    %s = %s(%s) -> %s  // %d %s" % (place_str(t[3]), t[1].get("pg") or t[1].get("g") or t[1]["p"], ", ".join(opstr(a) for a in t[2]), t[4], blk["l"], t[6]))
            elif t[0] == "switch":
                print("    switch %s %s else %s" % (opstr(t[1]), t[2], t[3]))
            elif t[0] == "drop":
                print("    drop %s -> %s" % (place_str(t[1]), t[2]))
            elif t[0] == "assert":
                print("    assert[%s] %s -> %s" % (t[1], opstr(t[2]), t[4]))
            else:
                print("    %s" % t)
        if "--arms" in sys.argv:
            for a in F.arms(r["path"]):
                print(json.dumps(a)[:3000])

main()
