"""Whole-program call graph over the fn records (resolved callees + closures + CHA)."""
from collections import defaultdict, deque

from .cfg import name_matches, strip_generics


class CallGraph:
    def __init__(self, facts):
        self.facts = facts
        self.fns = facts.fns
        self.edges = {}
        self._impls_by_trait_method = defaultdict(list)
        for p, r in self.fns.items():
            if r.get("trait"):
                m = p.rsplit("::", 1)[-1]
                self._impls_by_trait_method[(r["trait"], m)].append(p)
        for p, r in self.fns.items():
            self.edges[p] = set(r["calls"]) | set(r["closures"])

    def cha(self, unresolved):
        """'?crate::Trait::method' -> local impl method paths."""
        q = unresolved[1:]
        if "::" not in q:
            return []
        tr, m = q.rsplit("::", 1)
        return self._impls_by_trait_method.get((tr, m), [])

    def callees(self, p, cha=False):
        out = set()
        for c in self.edges.get(p, ()):
            if c.startswith("?"):
                out.add(c)
                if cha:
                    out.update(self.cha(c))
            else:
                out.add(c)
        return out

    def reach(self, roots, cha=False, stop=None, max_depth=None):
        """BFS over local functions. Returns dict node -> parent (for path witnesses).
        External callees are included as leaf nodes."""
        parent = {}
        dq = deque()
        for r in roots:
            parent[r] = None
            dq.append((r, 0))
        while dq:
            p, d = dq.popleft()
            if stop is not None and stop(p) and parent[p] is not None:
                continue
            if max_depth is not None and d >= max_depth:
                continue
            for c in self.callees(p, cha):
                if c not in parent:
                    parent[c] = p
                    if c in self.edges:
                        dq.append((c, d + 1))
        return parent

    def path_to(self, parent, node):
        out = []
        while node is not None:
            out.append(node)
            node = parent[node]
        out.reverse()
        return out

    def find_reaching(self, root, pats, cha=False, stop=None, max_depth=None):
        """First callee (BFS order) reachable from root matching pats; returns witness path or None."""
        par = self.reach([root], cha=cha, stop=stop, max_depth=max_depth)
        hits = []
        for n in par:
            if n != root and (name_matches(n, pats)):
                hits.append(self.path_to(par, n))
        hits.sort(key=len)
        return hits

    def reaches(self, root, pats, cha=False, max_depth=None):
        return bool(self.find_reaching(root, pats, cha=cha, max_depth=max_depth))

    def transitive_effects(self, root, kind="w", cha=False, max_depth=None):
        """Union of field effect sets over everything reachable from root (local fns)."""
        par = self.reach([root], cha=cha, max_depth=max_depth)
        out = {}
        for n in par:
            r = self.fns.get(n)
            if r:
                for f in r[kind]:
                    out.setdefault(f, n)
        return out

    def callers_of(self, pats):
        out = []
        for p, cs in self.edges.items():
            for c in cs:
                if name_matches(c, pats):
                    out.append((p, c))
        return out
