"""Thin wrappers: crate-local functions that call a given target on every path to their return.  A rule that looks
for `target(..)` at a site treats a call of such a wrapper as the target call (helper extraction is not a change)."""
from .cfg import Body


def thin_wrappers(F, is_target, prefix, rounds=2):
    """paths of functions under `prefix` whose every return is reached only through a call for which
    is_target(path) holds (or through an already recognised wrapper)."""
    found = set()
    for _ in range(rounds):
        new = set()
        for p, r in F.fns.items():
            if p in found or not p.startswith(prefix) or "{closure" in p:
                continue
            if not any(is_target(c) or c in found for c in r["calls"]):
                continue
            m = F.mir(p)
            if m is None:
                continue
            b = Body(m, r)
            hits = {c.bb for c in b.calls() if is_target(c.path) or c.path in found}
            rets = b.ret_blocks()
            if hits and rets and all(b.must_pass(0, rb, hits) for rb in rets):
                new.add(p)
        if not new:
            break
        found |= new
    return found
