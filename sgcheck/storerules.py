"""Structural rules over GraphStore shared by several properties (added after seed batch 4).

validate_then_mutate   C05 / C11: a store mutator returning Result has no error exit after a mutation point
direction_coherence    C02 / C06: a read view reads whole (frozen, buffer) pairs of one direction
removal_by_id          C06:       selective removal from an adjacency list is keyed by relationship id
endpoints_checked      C06:       every relationship creator tests both endpoints for liveness first
remove_before_insert   C02 / C11: index maintenance never removes an old entry after inserting the new one
barrier_drains         C04 / C05: a WITH barrier emits nothing before its input is exhausted"""
from .cfg import Body
from .report import where
from .facts import in_module
from . import storemodel as sm
from . import mutpoints as mp
from . import inline as inl
from . import orderdom as od

GS = sm.GS
ADJ = ["outgoing", "incoming", "frozen_outgoing", "frozen_incoming"]
PAIRS = {"out": {"outgoing", "frozen_outgoing"}, "in": {"incoming", "frozen_incoming"}}
# read views that deliberately expose ONE tier; their callers must merge the other tier themselves (checked below)
SINGLE_TIER = {
    "get_outgoing_neighbor_slice": ("out", "write-buffer slice for LeapFrog / export; partner: frozen_outgoing_neighbors"),
    "get_incoming_neighbor_slice": ("in", "write-buffer slice for LeapFrog; partner: frozen_incoming_neighbors"),
    "frozen_outgoing_neighbors": ("out", "frozen tier for LeapFrog / export; partner: get_outgoing_neighbor_slice"),
    "frozen_incoming_neighbors": ("in", "frozen tier for LeapFrog; partner: get_incoming_neighbor_slice"),
    "compact_adjacency_if_needed": ("out", "reads the buffer size only, to decide whether to compact"),
}
PARTNER = {"get_outgoing_neighbor_slice": "frozen_outgoing_neighbors", "frozen_outgoing_neighbors": "get_outgoing_neighbor_slice",
           "get_incoming_neighbor_slice": "frozen_incoming_neighbors", "frozen_incoming_neighbors": "get_incoming_neighbor_slice"}


def _mutators_returning_result(F, kinds):
    out = []
    for k in kinds:
        for n in sm.KINDS[k]:
            r = sm.fn_of(F, n)
            if r is None:
                continue
            first = r["sig"].split("fn(", 1)[-1].split(",")[0]
            if "mut " + GS not in first:
                continue
            if "Result<" not in r["sig"].rsplit("->", 1)[-1]:
                continue
            out.append((n, r))
    return out


def validate_then_mutate(ctx, F, cg, RULE, kinds=("node-add", "node-kill", "prop-set", "prop-kill", "label-add", "label-kill", "edge-add", "edge-kill", "edge-prop-set", "edge-prop-kill"), floor=9):
    mgr = mp.manager_writers(F)
    fns = _mutators_returning_result(F, kinds)
    ctx.floor(RULE, "fallible store mutators examined", len(fns), floor)
    for n, r in fns:
        b = Body(F.mir(r["path"]), r)
        ctx.saw_fn(r["path"]); ctx.saw_calls(len(b.calls()))
        muts = mp.mutation_points(F, cg, b, mgr)
        errs = mp.error_exits(b)
        bad = mp.errors_after_mutation(b, muts, errs, F, cg)
        if not bad:
            ctx.ok(RULE, n, "%d mutation point(s), %d error exit(s): every error exit precedes the first mutation" % (len(muts), len(errs)))
            continue
        seen = set()
        for (mb, ml, mw), (eb, el, ew) in bad:
            if mw in seen:
                continue
            seen.add(mw)
            ctx.violation(RULE, "%s|error-after-mutation|%s" % (n, mw), where(r, el),
                          "GraphStore::%s can return an error (%s at line %d) after it %s (line %d): the caller sees a failed call and a changed store" % (n, ew, el, mw, ml))


def direction_coherence(ctx, F, cg, RULE):
    n_views = 0
    for p, r in sorted(F.fns.items()):
        if "::tests::" in p or not in_module(p, "samyama::graph::store"):
            continue
        if r.get("trait") and r["trait"].endswith("Debug"):
            continue
        rs = {f[len(GS) + 1:] for f in r.get("r", []) if f.startswith(GS + ".")} & set(ADJ)
        ws = {f[len(GS) + 1:] for f in r.get("w", []) if f.startswith(GS + ".")} & set(ADJ)
        if not rs or ws:
            continue
        n_views += 1
        name = p.replace(GS + "::", "").replace("samyama::graph::store::", "")
        if rs == PAIRS["out"] or rs == PAIRS["in"] or rs == set(ADJ):
            ctx.ok(RULE, "view|" + name, "reads %s" % sorted(rs))
        elif len(rs) == 1:
            short = name.split("::")[0]
            if short in SINGLE_TIER:
                ctx.ok(RULE, "single-tier|" + name, "reviewed single-tier accessor: " + SINGLE_TIER[short][1])
            else:
                ctx.violation(RULE, "single-tier-view|" + name, where(r),
                              "%s reads only `%s`: relationships in the other tier (compacted vs write buffer) are invisible to it, so its answer changes with compaction" % (name, sorted(rs)[0]))
        else:
            ctx.violation(RULE, "mixed-direction-view|" + name, where(r),
                          "%s reads %s: a frozen tier of one direction combined with the buffer of the other (or an incomplete pair) — after compaction it answers from the wrong adjacency" % (name, sorted(rs)))
    ctx.floor(RULE, "adjacency read views examined", n_views, 18)
    # callers of single-tier accessors merge both tiers of that direction
    n_callers = 0
    for p, r in sorted(F.fns.items()):
        if "::tests::" in p or in_module(p, "samyama::graph::store"):
            continue
        used = {c.rsplit("::", 1)[-1] for c in r["calls"] if c.startswith(GS + "::") and c.rsplit("::", 1)[-1] in PARTNER}
        if not used:
            continue
        n_callers += 1
        miss = sorted(u for u in used if PARTNER[u] not in used)
        short = p.replace("samyama::", "")
        if miss:
            ctx.violation(RULE, "caller-one-tier|%s|%s" % (short, miss[0]), where(r), "%s calls %s but not %s: it sees one tier only" % (short, miss[0], PARTNER[miss[0]]))
        else:
            ctx.ok(RULE, "caller|" + short, "merges both tiers for %s" % sorted(used))
    ctx.floor(RULE, "callers of single-tier accessors", n_callers, 3)


def _is_adj_list(ty):
    t = ty.replace("&mut ", "").replace("&", "").strip()
    return t.startswith("std::vec::Vec<(samyama::graph::types::NodeId, samyama::graph::types::EdgeId)>")


def _retain_by_edge_id(F, b, call):
    """retain(|e| e.<EdgeId component> != captured EdgeId) -> (True, text) ; else (False, why)"""
    co = od.closure_of(b, call.args[1]) if len(call.args) > 1 else None
    if co is None:
        return False, "predicate is not a closure literal"
    cpath, caps = co
    m = F.mir(cpath)
    if m is None:
        return False, "closure body not found"
    cb = Body(m)
    # the closure's return value: result of PartialEq::ne (or !eq) between an EdgeId projected out of the element and a captured EdgeId
    ds = cb.defs().get(0, [])
    if len(ds) != 1:
        return False, "predicate has %d definitions of its result" % len(ds)
    d = ds[0]
    neg = False
    c = None
    if d[0] == "call":
        c = d[2]
    elif d[4][0] == "un" and d[4][1] == "Not" and d[4][2][0] != "k":
        neg = True
        dd = cb.defs().get(d[4][2][1][0], [])
        if len(dd) == 1 and dd[0][0] == "call":
            c = dd[0][2]
    elif d[4][0] == "bin" and d[4][1] in ("Ne", "Eq"):
        return False, "primitive comparison (not on EdgeId)"
    if c is None:
        return False, "predicate is not a single comparison"
    nm = c.path.rsplit("::", 1)[-1]
    tys = [cb.local_ty(a[1][0]) for a in c.args[:2] if a[0] != "k"]
    if nm not in ("ne", "eq") or len(tys) != 2 or not all(t.replace("&", "").strip().endswith("types::EdgeId") for t in tys):
        return False, "predicate compares %s with %s" % (c.path, tys)
    keeps_when_differs = (nm == "ne") != neg
    if not keeps_when_differs:
        return False, "predicate keeps the entries whose id EQUALS the deleted one"
    sides = []
    for a in c.args[:2]:
        if a[0] == "k":
            return False, "compares with a constant"
        bp = od.base_place(cb, a)
        sides.append(bp)
    elem = [s for s in sides if s and s[0] == 2 or (s and s[0] != 1 and _from_param(cb, s[0], 2))]
    capt = [s for s in sides if s and (s[0] == 1 or _from_param(cb, s[0], 1))]
    if not elem or not capt:
        return False, "comparison is not element-vs-captured"
    return True, "keeps an entry iff its relationship id differs from the captured id"


def _position_by_edge_id(F, b, call):
    """remove(pos) where pos comes (through ?/match/unwrap) from position(|e| e.id == captured id) on an iterator"""
    if len(call.args) < 2 or call.args[1][0] == "k":
        return False
    og = b.origins(call.args[1][1][0], through_calls=lambda c: [0] if c.path.rsplit("::", 1)[-1] in ("unwrap", "expect", "branch", "unwrap_or", "ok_or") else None)
    for o in og:
        if o[0] != "call" or o[1].path.rsplit("::", 1)[-1] not in ("position", "rposition"):
            continue
        pc = o[1]
        co = od.closure_of(b, pc.args[1]) if len(pc.args) > 1 else None
        if not co:
            continue
        m = F.mir(co[0])
        if not m:
            continue
        cb = Body(m)
        ds = cb.defs().get(0, [])
        if len(ds) == 1 and ds[0][0] == "call":
            c = ds[0][2]
            tys = [cb.local_ty(a[1][0]) for a in c.args[:2] if a[0] != "k"]
            if c.path.rsplit("::", 1)[-1] == "eq" and len(tys) == 2 and all(t.replace("&", "").strip().endswith("types::EdgeId") for t in tys):
                return True
    return False


def _index_loop_by_edge_id(b, call):
    """remove(pos) on the true side of `list[pos].id == id` (two EdgeId values compared, the element taken at the same
    position that is then removed): the index-loop spelling of retain-by-id"""
    if len(call.args) < 2 or call.args[1][0] == "k":
        return False
    pos = od.chain_locals(b, call.args[1])
    for c in b.calls():
        if c.path.rsplit("::", 1)[-1] != "eq" or len(c.args) < 2 or c.target is None:
            continue
        tys = [b.local_ty(a[1][0]) for a in c.args[:2] if a[0] != "k"]
        if len(tys) != 2 or not all(t.replace("&", "").strip().endswith("types::EdgeId") for t in tys):
            continue
        sb_, t = b.switch_on(c.dest[0], c.target)
        if t is None:
            continue
        zero = [tgt for v, tgt in t[2] if v == "0"]
        true_t = t[3] if zero else None
        if true_t is None or not (b.dominates(sb_, call.bb) and call.bb in b.reachable(true_t, avoid={sb_}) and call.bb not in b.reachable(zero[0], avoid={sb_})):
            continue
        # one operand is a field of the element indexed at `pos`
        for a in c.args[:2]:
            if a[0] == "k":
                continue
            for o in b.origins(a[1][0], through_calls=lambda cc: [0] if cc.path.rsplit("::", 1)[-1] in ("index", "index_mut", "deref", "get_unchecked") else None):
                if o[0] == "via" and o[1].path.rsplit("::", 1)[-1] in ("index", "index_mut") and len(o[1].args) > 1 and o[1].args[1][0] != "k":
                    if od.chain_locals(b, o[1].args[1]) & pos:
                        return True
    return False


def _from_param(cb, local, param):
    og = cb.origins(local)
    return any(o[0] == "arg" and o[1] == param for o in og)


def removal_by_id(ctx, F, cg, RULE):
    SELECTIVE = ("remove", "swap_remove", "retain", "retain_mut", "drain", "truncate", "pop", "dedup", "dedup_by_key", "dedup_by", "split_off")
    n = 0
    for p, r in sorted(F.fns.items()):
        if "::tests::" in p or not in_module(p, "samyama::graph::store"):
            continue
        m = F.mir(p)
        if not m:
            continue
        b = Body(m, r)
        k = 0
        for c in b.calls():
            nm = c.path.rsplit("::", 1)[-1]
            if nm not in SELECTIVE or "Vec" not in c.path or not c.args or c.args[0][0] == "k":
                continue
            if not _is_adj_list(b.local_ty(c.args[0][1][0])):
                continue
            n += 1
            short = p.replace(GS + "::", "").replace("samyama::graph::store::", "")
            key = "%s|%s|%d" % (short, nm, k)
            k += 1
            ctx.saw_fn(p)
            if nm in ("retain", "retain_mut"):
                ok, why = _retain_by_edge_id(F, b, c)
                if ok:
                    ctx.ok(RULE, key, why)
                else:
                    ctx.violation(RULE, key + "|not-by-id", where(r, c.line), "adjacency entries are removed by a predicate that is not `entry.id != deleted id`: %s (parallel relationships between one pair share the neighbour, only the id tells them apart)" % why)
            elif nm in ("remove", "swap_remove") and _position_by_edge_id(F, b, c):
                ctx.ok(RULE, key, "removes the entry at a position found by `entry.id == captured id`")
            elif nm in ("remove", "swap_remove") and _index_loop_by_edge_id(b, c):
                ctx.ok(RULE, key, "removes the entry at a position just tested with `list[pos].id == id`")
            else:
                ctx.violation(RULE, key + "|positional", where(r, c.line),
                              "an adjacency entry is removed with %s (by position, not by relationship id): with parallel relationships or an unsorted stub-loaded list the position found need not be the deleted relationship's entry" % nm)
    ctx.floor(RULE, "selective removals on adjacency lists", n, 1)


def endpoints_checked(ctx, F, cg, RULE, reviewed=None):
    reviewed = reviewed or {}
    for n in sm.KINDS["edge-add"]:
        r = sm.fn_of(F, n)
        if r is None:
            ctx.anchor_failure(RULE, GS + "::" + n)
            continue
        b = Body(F.mir(r["path"]), r)
        ctx.saw_fn(r["path"]); ctx.saw_calls(len(b.calls()))
        priv = inl.private_helpers(F, r["path"])
        # adjacency write points (a private helper that links the relationship counts as the write)
        wr = []
        for c in b.calls():
            if c.path in F.fns and priv(c.path):
                w_ = cg.transitive_effects(c.path, "w")
                if any(f in (GS + ".outgoing", GS + ".incoming") for f in w_):
                    wr.append(c)
        for c in b.calls():
            if c.args and c.args[0][0] != "k" and mp._is_mut_ref(b.local_ty(c.args[0][1][0])) and c.path.rsplit("::", 1)[-1] in ("push", "insert"):
                fs = [f.split(".")[-1] for f in od.chain_fields(b, c.args[0], through=("deref", "deref_mut", "as_mut", "index_mut", "get_mut", "unwrap", "expect")) if f.startswith(GS + ".")]
                if fs and fs[0] in ("outgoing", "incoming"):
                    wr.append(c)
        if not wr:
            ctx.violation(RULE, n + "|no-adjacency-write", where(r), "cannot find where %s links the relationship into outgoing / incoming" % n)
            continue
        checks = [c for c in b.calls() if c.path == GS + "::has_node"]
        guarded = 0
        for c in checks:
            if c.target is None:
                continue
            t = b.blocks[c.target]["t"]
            # find the switch fed by the check (directly or through `!`)
            sw = None
            for i in [c.target] + [s for s in b.succ(c.target)]:
                tt = b.blocks[i]["t"]
                if tt[0] == "switch" and tt[1][0] != "k":
                    e = od.expr_of(b, tt[1])
                    if any(x[0] == "call" and x[2] == c.bb for x in od.roots(e)):
                        sw = (i, tt, e)
                        break
            if sw is None:
                continue
            i, tt, e = sw
            root = [x for x in od.roots(e) if x[0] == "call" and x[2] == c.bb][0]
            try:
                absent_val = int(bool(od.evaluate(e, {root: 0})))
            except Exception:
                continue
            tg = [tgt for v, tgt in tt[2] if v == str(absent_val)]
            absent_t = tg[0] if tg else tt[3]
            reach = b.reachable(absent_t, avoid={i})
            errs = {eb for eb, el, ew in mp.error_exits(b)}
            if not any(w.bb in reach for w in wr) and (reach & errs) and all(b.dominates(i, w.bb) for w in wr):
                guarded += 1
        # the tests moved into a private checking helper: every has_node test in it sends the absent side to an
        # error return only, the caller propagates its failure without writing, and the call dominates the writes
        for c in b.calls():
            if not (c.path in F.fns and priv(c.path)) or "Result<" not in F.fns[c.path]["sig"].rsplit("->", 1)[-1]:
                continue
            hm = F.mir(c.path)
            if hm is None:
                continue
            hb = Body(hm, F.fns[c.path])
            hk = _guarded_presence_tests(hb)
            if not hk:
                continue
            side = mp.some_side(b, c)
            if side is None:
                continue
            sb_, ok_t = side
            t_ = b.blocks[sb_]["t"]
            fails = [tgt for v, tgt in t_[2] if tgt != ok_t] + ([t_[3]] if t_[3] != ok_t else [])
            freach = set()
            for ft in fails:
                freach |= b.reachable(ft, avoid={sb_})
            if fails and not any(w.bb in freach for w in wr) and all(b.dominates(c.bb, w.bb) for w in wr):
                guarded += hk
        if guarded >= 2:
            ctx.ok(RULE, n, "%d endpoint liveness tests dominate %d adjacency writes; a missing endpoint returns Err" % (guarded, len(wr)))
        elif n in reviewed:
            ctx.ok(RULE, n + "|reviewed", reviewed[n])
        else:
            ctx.violation(RULE, n + "|endpoint-not-checked", where(r, wr[0].line),
                          "%s links a relationship into the adjacency lists with %d of 2 endpoints tested by has_node on the way: an id whose node was deleted (its arena slot still exists) gets a relationship that dangles from a missing node, and the next node reusing the id inherits it" % (n, guarded))


def _guarded_presence_tests(hb):
    """number of has_node tests in a checking helper whose node-absent side can only return Err"""
    oks = {i for i, j, pl, rv, line, exp in hb.stmts() if pl[0] == 0 and rv[0] == "agg" and rv[1].endswith("Result::Ok")}
    n = 0
    for c in hb.calls():
        if c.path != GS + "::has_node" or c.target is None:
            continue
        for i in [c.target] + list(hb.succ(c.target)):
            tt = hb.blocks[i]["t"]
            if tt[0] != "switch" or tt[1][0] == "k":
                continue
            e = od.expr_of(hb, tt[1])
            roots = [x for x in od.roots(e) if x[0] == "call" and x[2] == c.bb]
            if not roots:
                continue
            try:
                absent_val = int(bool(od.evaluate(e, {roots[0]: 0})))
            except Exception:
                break
            tg = [tgt for v, tgt in tt[2] if v == str(absent_val)]
            absent_t = tg[0] if tg else tt[3]
            reach = hb.reachable(absent_t, avoid={i})
            if not (reach & oks) and any(eb in reach for eb, el, ew in mp.error_exits(hb)):
                n += 1
            break
    return n


def remove_before_insert(ctx, F, cg, RULE, pairs=(("index_insert", "index_remove"),)):
    n = 0
    for p, r in sorted(F.fns.items()):
        if "::tests::" in p or not in_module(p, "samyama::graph::store"):
            continue
        for ins, rem in pairs:
            if not (any(c.endswith("::" + ins) for c in r["calls"]) and any(c.endswith("::" + rem) for c in r["calls"])):
                continue
            b = Body(F.mir(p), r)
            ctx.saw_fn(p)
            n += 1
            I = [c for c in b.calls() if c.path.endswith("::" + ins)]
            R = [c for c in b.calls() if c.path.endswith("::" + rem)]
            short = p.replace(GS + "::", "")
            bad = None
            for ci in I:
                after = _forward_same_iteration(b, ci.target) if ci.target is not None else set()
                for cr in R:
                    if cr.bb in after:
                        # accepted when the removal is guarded by old != new
                        if _guarded_by_inequality(b, cr):
                            continue
                        bad = (ci, cr)
            if bad:
                ctx.violation(RULE, "%s|%s-after-%s" % (short, rem, ins), where(r, bad[1].line),
                              "%s can run %s (line %d) after %s (line %d): when the old and the new value are equal the entry just inserted is removed again and the node drops out of the index" % (short, rem, bad[1].line, ins, bad[0].line))
            else:
                ctx.ok(RULE, "%s|%s/%s" % (short, ins, rem), "no path from an insertion to a removal (or the removal is guarded by old != new)")
    ctx.floor(RULE, "functions maintaining an index with both insert and remove", n, 1)


def _forward_same_iteration(b, start):
    """blocks reachable from start without following a back edge (u -> v with v dominating u)"""
    seen = {start}
    work = [start]
    while work:
        u = work.pop()
        for v in b.succ(u):
            if v in seen or b.dominates(v, u):
                continue
            seen.add(v)
            work.append(v)
    return seen


def _guarded_by_inequality(b, call):
    """the call's block is only reachable through the true edge of a `ne` / the false edge of an `eq` test"""
    for c in b.calls():
        nm = c.path.rsplit("::", 1)[-1]
        if nm not in ("ne", "eq") or "PartialEq" not in c.path or c.target is None:
            continue
        t = b.blocks[c.target]["t"]
        if t[0] != "switch" or t[1][0] == "k" or t[1][1][0] != c.dest[0]:
            continue
        zero = [tgt for v, tgt in t[2] if v == "0"]
        other = t[3]
        differs_t = other if nm == "ne" else (zero[0] if zero else None)
        if differs_t is not None and b.dominates(differs_t, call.bb) and len(b.pred(differs_t)) == 1:
            return True
    return False


def barrier_drains(ctx, F, cg, RULE, op="WithBarrierOperator"):
    try:
        r = F.trait_impl_fn(op, "PhysicalOperator", "next_mut")
    except Exception as e:
        ctx.anchor_failure(RULE, "%s::next_mut (%s)" % (op, e))
        return
    b = Body(F.mir(r["path"]), r)
    ctx.saw_fn(r["path"]); ctx.saw_calls(len(b.calls()))
    pulls = [c for c in b.calls() if c.path.endswith("PhysicalOperator::next_mut") or c.path.endswith("PhysicalOperator::next_batch_mut")]
    ctx.floor(RULE, "input pulls in %s::next_mut" % op, len(pulls), 1)
    errs = {eb for eb, el, ew in mp.error_exits(b)}
    rets = b.ret_blocks()
    for k, pc in enumerate(pulls):
        derived = b.forward_taint({pc.dest[0]}, through_calls=lambda c, ix: c.path.rsplit("::", 1)[-1] in ("branch",))
        some_t = None
        for i in sorted(b.live_blocks()):
            t = b.blocks[i]["t"]
            if t[0] != "switch" or t[1][0] == "k":
                continue
            ds = b.defs().get(t[1][1][0], [])
            if len(ds) == 1 and ds[0][0] == "stmt" and ds[0][4][0] == "discr" and ds[0][4][1][0] in derived and "Option" in b.local_ty(ds[0][4][1][0]):
                one = [tgt for v, tgt in t[2] if v == "1"]
                some_t = one[0] if one else t[3]
        key = "%s::next_mut|pull|%d" % (op, k)
        if some_t is None:
            ctx.violation(RULE, key + "|no-exhaustion-test", where(r, pc.line), "cannot find the Some/None test on the pulled input")
            continue
        through = errs | {pc.bb}
        leak = [rb for rb in rets if rb in b.reachable(some_t, avoid=through)]
        if leak:
            ctx.violation(RULE, key + "|emits-before-exhaustion", where(r, pc.line),
                          "%s::next_mut can return after pulling a row from its input without pulling again until the input is exhausted: downstream clauses (and their writes) then run before upstream rows have all been read / evaluated — a failure on a later upstream row leaves earlier downstream writes applied" % op)
        else:
            ctx.ok(RULE, key, "after a pulled row the only ways on are another pull or an error: the input is drained before anything is emitted")


SCALAR = ("usize", "u8", "u16", "u32", "u64", "u128", "isize", "i8", "i16", "i32", "i64", "i128", "bool", "f32", "f64", "()", "char")


def content_taint(b, seeds):
    """Forward closure of locals whose *content* can derive from the seed locals: flows through statements and
    through calls (argument -> result, and argument -> `&mut` receiver), but never through a scalar-typed local
    (a length, a flag or a hash cannot carry a map's entries)."""
    from .cfg import _rv_mentions
    tainted = set(seeds)

    def scalar(l):
        return b.local_ty(l).strip() in SCALAR

    changed = True
    while changed:
        changed = False
        for i, j, pl, rv, line, exp in b.stmts():
            if pl[0] in tainted or scalar(pl[0]):
                continue
            if any(_rv_mentions(rv, t) for t in tainted):
                tainted.add(pl[0])
                changed = True
        for c in b.calls():
            targs = [ix for ix, a in enumerate(c.args) if a[0] != "k" and a[1][0] in tainted]
            if not targs:
                continue
            if c.dest[0] not in tainted and not scalar(c.dest[0]):
                tainted.add(c.dest[0])
                changed = True
            if c.args and c.args[0][0] != "k" and 0 not in targs and mp._is_mut_ref(b.local_ty(c.args[0][1][0])):
                bp = od.base_place(b, c.args[0])
                if bp and bp[0] not in tainted:
                    tainted.add(bp[0])
                    tainted.add(c.args[0][1][0])
                    changed = True
    return tainted


def map_inputs_reach_output(ctx, F, cg, RULE, module="samyama::query::executor::", floor=1):
    """A helper that takes property maps and returns a property map returns, on every path, a map that received
    the content of each input property map (none is silently dropped)."""
    T = "HashMap<std::string::String, samyama::graph::property::PropertyValue>"
    n = 0
    for p, r in sorted(F.fns.items()):
        if "::tests::" in p or "{closure" in p or not in_module(p, module):
            continue
        sig = r["sig"]
        if "->" not in sig:
            continue
        ret = sig.rsplit("->", 1)[-1]
        if T not in ret:
            continue
        b = Body(F.mir(p), r)
        ins = [i for i in range(1, b.argc + 1) if T in b.local_ty(i)]
        if not ins:
            continue
        n += 1
        ctx.saw_fn(p)
        short = p.replace(module, "")
        for i in ins:
            taint = content_taint(b, {i})
            # every non-error definition of the return place
            bad = None
            nret = 0
            for d in b.defs().get(0, []):
                if d[0] == "call":
                    c = d[2]
                    if c.path.endswith("from_residual"):
                        continue
                    nret += 1
                    if not any(a[0] != "k" and a[1][0] in taint for a in c.args):
                        bad = c.line
                    continue
                rv = d[4]
                if rv[0] == "agg" and rv[1].endswith("Result::Err"):
                    continue
                nret += 1
                ops = rv[2] if rv[0] == "agg" else ([rv[1]] if rv[0] == "use" else [])
                if not any(o[0] != "k" and o[1][0] in taint for o in ops):
                    bad = b.blocks[d[1]]["s"][d[2]][2]
            name = b.local_name(i) or ("arg%d" % i)
            if bad is not None:
                ctx.violation(RULE, "%s|input-dropped|%s" % (short, name), where(r, bad),
                              "%s returns, on some path, a property map that never received the content of its `%s` parameter (only a size or nothing flows from it): those properties are silently dropped from the pattern — MERGE then matches / creates on fewer properties" % (short, name))
            else:
                ctx.ok(RULE, "%s|%s" % (short, name), "content of `%s` reaches all %d returned maps" % (name, nret))
    ctx.floor(RULE, "property-map helpers (map in, map out)", n, floor)


def flag_selected_accumulators(ctx, F, cg, RULE, module="samyama::query::executor::"):
    """An enum variant with one bool flag, one integer and one float accumulator, whose reader returns the float
    accumulator alone when the flag is false: every writer that may clear the flag must fold the integer
    accumulator into the float one (cast int -> float into the float field) on that path."""
    INTS = ("i64", "i32", "u64", "u32", "i128", "isize", "usize")
    FLOATS = ("f64", "f32")
    shapes = []
    for path, a in F.adts.items():
        if not a.get("enum") or not in_module(path, module):
            continue
        for v in a["variants"]:
            fs = v["fields"]
            bools = [f[0] for f in fs if f[1] == "bool"]
            ints = [f[0] for f in fs if f[1] in INTS]
            flts = [f[0] for f in fs if f[1] in FLOATS]
            if len(fs) == 3 and len(bools) == 1 and len(ints) == 1 and len(flts) == 1:
                shapes.append((path, v["name"], bools[0], ints[0], flts[0]))
    ctx.floor(RULE, "flag-selected accumulator variants", len(shapes), 1)
    for (adt, var, fl, ia, fa) in shapes:
        pre = "f:%s::%s." % (adt, var)
        users = [(p, r) for p, r in F.fns.items() if "::tests::" not in p and any(x == "%s::%s.%s" % (adt, var, fl) or x.endswith("%s.%s" % (var, fl)) for x in (r.get("r", []) + r.get("w", [])))]
        if not users:
            users = [(p, r) for p, r in F.fns.items() if r.get("self") == adt and not r.get("trait")]
        reader_selects = False
        writers = []
        for p, r in users:
            m = F.mir(p)
            if not m:
                continue
            b = Body(m, r)

            def refs_to(field):
                out = set()
                for i, j, pl, rv, line, exp in b.stmts():
                    if rv[0] == "ref" and (pre + field) in rv[2][1] and "t:1" not in rv[2][1]:
                        out.add(pl[0])
                return out
            rF, rA, rB = refs_to(fl), refs_to(ia), refs_to(fa)
            clears, folds = [], []
            for i, j, pl, rv, line, exp in b.stmts():
                if pl[0] in rF and pl[1] == ["*"]:
                    if not (rv[0] == "use" and rv[1][0] == "k" and rv[1][1].strip() == "const true"):
                        clears.append((i, line))
                if pl[0] in rB and pl[1] == ["*"]:
                    # value derives from a cast IntToFloat of a read of (*rA)
                    srcs = []
                    if rv[0] == "cast" and rv[1] == "IntToFloat":
                        srcs = [rv[2]]
                    elif rv[0] == "bin":
                        for o in rv[2:4]:
                            if o[0] != "k":
                                for d in b.defs().get(o[1][0], []):
                                    if d[0] == "stmt" and d[4][0] == "cast" and d[4][1] == "IntToFloat":
                                        srcs.append(d[4][2])
                    for o in srcs:
                        if o[0] == "k":
                            continue
                        ds = b.defs().get(o[1][0], [])
                        if any(d[0] == "stmt" and d[4][0] == "use" and d[4][1][0] != "k" and d[4][1][1][0] in rA and d[4][1][1][1] == ["*"] for d in ds):
                            folds.append((i, line))
            # reader shape: a switch on the flag whose false side reads the float field and not the int field
            for i in sorted(b.live_blocks()):
                t = b.blocks[i]["t"]
                if t[0] != "switch" or t[1][0] == "k":
                    continue
                ds = b.defs().get(t[1][1][0], [])
                on_flag = any(d[0] == "stmt" and d[4][0] == "use" and d[4][1][0] != "k" and ((d[4][1][1][0] in rF and d[4][1][1][1] == ["*"]) or (pre + fl) in d[4][1][1][1]) for d in ds)
                if not on_flag or clears:
                    continue
                ft = [tgt for v, tgt in t[2] if v == "0"]
                if not ft:
                    continue
                side = {x for x in b.live_blocks() if b.dominates(ft[0], x)}
                reads_b = reads_a = False
                for bi, j, pl, rv, line, exp in b.stmts():
                    if bi not in side:
                        continue
                    txt = repr(rv)
                    if (pre + fa) in txt or any(("[%d, ['*']]" % x) in txt for x in rB):
                        reads_b = True
                    if (pre + ia) in txt or any(("[%d, ['*']]" % x) in txt for x in rA):
                        reads_a = True
                if reads_b and not reads_a:
                    reader_selects = True
            if clears:
                writers.append((p, r, b, clears, folds))
        if not reader_selects:
            ctx.note("%s::%s: no reader returns `%s` alone under `!%s`; the fold obligation does not apply" % (adt.rsplit("::", 1)[-1], var, fa, fl))
            continue
        ctx.floor(RULE, "writers that may clear %s::%s.%s" % (adt.rsplit("::", 1)[-1], var, fl), len(writers), 2)
        for p, r, b, clears, folds in writers:
            short = p.replace(module, "")
            ctx.saw_fn(p)
            for k, (ci, cl) in enumerate(clears):
                rets = b.ret_blocks()
                ok = any(fi == ci or b.dominates(fi, ci) or (b.dominates(ci, fi) and all(b.must_pass(ci, rb, {fi}) for rb in rets if rb in b.reachable(ci))) for fi, fl_ in folds)
                key = "%s|%s.%s|clear|%d" % (short, var, fl, k)
                if ok:
                    ctx.ok(RULE, key, "the path that may clear `%s` folds `%s` into `%s` (int -> float cast)" % (fl, ia, fa))
                else:
                    ctx.violation(RULE, key + "|int-total-dropped", where(r, cl),
                                  "%s may turn `%s` false without folding `%s` into `%s`: the reader then returns `%s` alone and the integer part of the total is lost (mixed Integer/Float inputs)" % (short, fl, ia, fa, fa))


def ddl_operators_all_or_nothing(ctx, F, cg, RULE, floor=5):
    """A schema statement (CREATE / DROP INDEX, CREATE CONSTRAINT, vector / composite / hierarchy index) runs once,
    not row by row: its operator validates before it registers anything — no error exit is reachable from a
    store-mutating call of its next_mut."""
    mgr = mp.manager_writers(F)
    n = 0
    for p, r in sorted(F.fns.items()):
        if not (r.get("trait") and r["trait"].endswith("PhysicalOperator") and p.endswith("::next_mut")):
            continue
        st = (r.get("self") or "").rsplit("::", 1)[-1]
        if not any(w in st for w in ("Index", "Constraint")) or "Scan" in st:
            continue
        m = F.mir(p)
        if not m:
            continue
        b = Body(m, r)
        muts = mp.store_mutating_calls(F, cg, b, mgr)
        if not muts:
            continue
        n += 1
        ctx.saw_fn(p); ctx.saw_calls(len(b.calls()))
        errs = mp.error_exits(b)
        bad = mp.errors_after_mutation(b, muts, errs, F, cg)
        if not bad:
            ctx.ok(RULE, st, "%d store-mutating call(s), %d error exit(s): every error exit precedes the first mutation" % (len(muts), len(errs)))
            continue
        seen = set()
        for (mb, ml, mw), (eb, el, ew) in bad:
            if mw in seen:
                continue
            seen.add(mw)
            ctx.violation(RULE, "%s|error-after-mutation|%s" % (st, mw), where(r, el),
                          "%s can fail (%s at line %d) after it %s (line %d): the refused statement leaves the index / constraint registered or partly filled" % (st, ew, el, mw, ml))
    ctx.floor(RULE, "schema operators with a store-mutating call", n, floor)


def no_half_built_node(ctx, F, cg, RULE, module="samyama::query::executor::", floor=4):
    """After a write operator has created a node for the current row, a failure while filling it in (property
    refused by a constraint, expression error) must not leave the node behind: every error exit reachable from
    a create_node* call passes delete_node of the store first."""
    n = 0
    # helpers that undo the creation themselves: every error exit of theirs passes delete_node first, so propagating
    # their error with `?` leaves nothing behind
    cleaning = set()
    for p, r in F.fns.items():
        if "::tests::" in p or not in_module(p, module) or "{closure" in p or GS + "::delete_node" not in r["calls"]:
            continue
        if "Result<" not in r["sig"].rsplit("->", 1)[-1] or any(c.startswith(GS + "::create_node") for c in r["calls"]):
            continue
        hm = F.mir(p)
        if not hm:
            continue
        hb = Body(hm, r)
        hd = {c.bb for c in hb.calls() if c.path == GS + "::delete_node"}
        he = hb.error_exit_blocks()
        if hd and he and all(hb.must_pass(0, eb, hd) for eb in he):
            cleaning.add(p.rsplit("::", 1)[-1])
    for p, r in sorted(F.fns.items()):
        if "::tests::" in p or not in_module(p, module):
            continue
        if not any(c.startswith(GS + "::create_node") for c in r["calls"]):
            continue
        m = F.mir(p)
        if not m:
            continue
        b = Body(m, r)
        creates = [c for c in b.calls() if c.path.startswith(GS + "::create_node")]
        dels = {c.bb for c in b.calls() if c.path == GS + "::delete_node"}
        errs = mp.error_exits(b)
        short = p.replace("samyama::query::executor::operator::", "").replace(module, "").replace("<", "").replace(">", "")
        ctx.saw_fn(p)
        for k, c in enumerate(creates):
            n += 1
            if c.target is None:
                continue
            # error exits reachable from the creation without passing delete_node, before the next row is pulled
            nexts = {x.bb for x in b.calls() if x.path.endswith("PhysicalOperator::next_mut") or x.path.endswith("PhysicalOperator::next_batch_mut")}
            free = b.reachable(c.target, avoid=dels | nexts)
            leaks = {}
            for eb, el, ew in errs:
                if eb not in free:
                    continue
                src = _failing_callee(b, eb)
                if src in ("get_node", "get_edge", "get"):
                    continue        # "the entity just created is not there": cannot happen, nothing to undo
                if src in cleaning:
                    continue        # the helper deleted the node before it returned its error
                # ordinal of the failing call among the calls of that callee in this body (source order)
                leaks.setdefault(src, el)
            inst = "%s|create_node|%d" % (short, k)
            if leaks:
                for src, el in sorted(leaks.items()):
                    ctx.violation(RULE, inst + "|left-behind-when-%s-fails" % src, where(r, el),
                                  "%s can return the error of %s (line %d) after creating a node for the current row without deleting it again: the failed statement leaves a node with no or partial properties, indexed under its labels" % (short, src, el))
            else:
                ctx.ok(RULE, inst, "every error exit after the creation passes delete_node (or there is none)")
    ctx.floor(RULE, "node creations in write operators", n, floor)


def _failing_callee(b, err_block):
    """name of the call whose failure an error exit propagates (through branch / map_err / ok_or...), or 'explicit-Err'"""
    for c in b.calls():
        if c.bb == err_block and c.path.endswith("from_residual") and c.args and c.args[0][0] != "k":
            og = b.origins(c.args[0][1][0], through_calls=lambda cc: [0] if cc.path.rsplit("::", 1)[-1] in ("branch", "map_err", "ok_or", "ok_or_else", "into", "from", "map") else None)
            names = [o[1].path.rsplit("::", 1)[-1] for o in og if o[0] == "call"]
            via = [o[1] for o in og if o[0] == "via"]
            if names:
                return names[0]
            # ok_or on an Option produced by a call: name that call
            for v in via:
                if v.path.rsplit("::", 1)[-1] in ("ok_or", "ok_or_else") and v.args and v.args[0][0] != "k":
                    og2 = b.origins(v.args[0][1][0], through_calls=lambda cc: None)
                    n2 = [o[1].path.rsplit("::", 1)[-1] for o in og2 if o[0] == "call"]
                    if n2:
                        return n2[0]
            return "unknown-call"
    return "explicit-Err"


def _failing_call_line(b, err_block):
    for c in b.calls():
        if c.bb == err_block and c.path.endswith("from_residual") and c.args and c.args[0][0] != "k":
            og = b.origins(c.args[0][1][0], through_calls=lambda cc: [0] if cc.path.rsplit("::", 1)[-1] in ("branch", "map_err", "ok_or", "ok_or_else", "into", "from", "map") else None)
            for o in og:
                if o[0] == "call":
                    return o[1].line
    return None


def creators_link_on_every_path(ctx, F, cg, RULE):
    """Every relationship creator links the new relationship into both adjacency directions on every path to Ok:
    a skip decided on the neighbour (an 'already there?' search keyed by node, not by relationship) drops the
    second of two parallel relationships from the adjacency while by-id views still have it."""
    for n in sm.KINDS["edge-add"]:
        r = sm.fn_of(F, n)
        if r is None:
            ctx.anchor_failure(RULE, GS + "::" + n)
            continue
        b = inl.body(F, r["path"], inl.private_helpers(F, r["path"]))
        ctx.saw_fn(r["path"]); ctx.saw_calls(len(b.calls()))
        oks = [i for i, j, pl, rv, line, exp in b.stmts() if pl[0] == 0 and not pl[1] and rv[0] == "agg" and rv[1].endswith("Result::Ok")]
        for direction in ("outgoing", "incoming"):
            wr = set()
            for c in b.calls():
                if c.args and c.args[0][0] != "k" and mp._is_mut_ref(b.local_ty(c.args[0][1][0])) and c.path.rsplit("::", 1)[-1] in ("push", "insert"):
                    fs = [f.split(".")[-1] for f in od.chain_fields(b, c.args[0], through=("deref", "deref_mut", "as_mut", "index_mut", "get_mut", "unwrap", "expect")) if f.startswith(GS + ".")]
                    if fs and fs[0] == direction:
                        wr.add(c.bb)
            inst = "%s|%s" % (n, direction)
            if not wr:
                ctx.violation(RULE, inst + "|never-linked", where(r), "%s never links the relationship into `%s`" % (n, direction))
            elif oks and all(b.must_pass(0, o, wr) for o in oks):
                ctx.ok(RULE, inst, "linked on every path to Ok")
            else:
                ctx.violation(RULE, inst + "|linked-conditionally", where(r), "%s can return Ok without linking the relationship into `%s`: the relationship exists by id and type but is missing from the %s neighbours of its endpoint (e.g. the second of two relationships between the same pair)" % (n, direction, direction))


def per_row_flags_reset(ctx, F, cg, RULE, op="LeftOuterJoinOperator", outer_idx="current_left_idx"):
    """A join that walks its left rows with an index and keeps per-left-row flags in its own fields resets every
    such flag whenever the index advances: a flag set `true` while probing one left row and still `true` for the
    next makes that row look matched / emitted, and OPTIONAL MATCH drops its null row."""
    try:
        r = F.trait_impl_fn(op, "PhysicalOperator", "next")
    except Exception as e:
        ctx.anchor_failure(RULE, "%s::next (%s)" % (op, e))
        return
    b = Body(F.mir(r["path"]), r)
    ctx.saw_fn(r["path"]); ctx.saw_calls(len(b.calls()))
    pre = "%s." % op

    def field_writes(body):
        out = []
        for i, j, pl, rv, line, exp in body.stmts():
            fs = [x[2:] for x in pl[1] if x.startswith("f:") and (pre in x)]
            if pl[0] == 1 and fs:
                out.append((fs[-1].rsplit(".", 1)[-1], i, rv, line))
        return out
    w = field_writes(b)
    flags = sorted({f for f, i, rv, line in w if rv[0] == "use" and rv[1][0] == "k" and rv[1][1].strip() == "const true"})
    # advance sites: writes of the outer index in next, or calls of a helper method of the operator that writes it
    sites = [("next", b, i) for f, i, rv, line in w if f == outer_idx]
    for c in b.calls():
        hr = F.fns.get(c.path)
        if hr and (hr.get("self") or "").endswith(op) and not hr.get("trait"):
            hb = Body(F.mir(c.path), hr)
            hw = field_writes(hb)
            if any(f == outer_idx for f, i, rv, line in hw):
                sites.append((c.path.rsplit("::", 1)[-1], hb, None))
    ctx.floor(RULE, "per-row flags of %s" % op, len(flags), 2)
    ctx.floor(RULE, "sites advancing %s" % outer_idx, len(sites), 1)
    for name, body, blk in sites:
        resets = {f for f, i, rv, line in field_writes(body) if rv[0] == "use" and rv[1][0] == "k" and rv[1][1].strip() == "const false" and (blk is None or i == blk or body.dominates(blk, i) or body.dominates(i, blk))}
        missing = [f for f in flags if f not in resets]
        inst = "%s|advance-in-%s" % (op, name)
        if missing:
            ctx.violation(RULE, inst + "|flag-not-reset|" + missing[0], where(r),
                          "%s advances to the next left row (%s) without resetting `%s`, which it sets while probing a row: the next left row inherits it, is taken for matched / already emitted, and an OPTIONAL MATCH row with no passing candidate is dropped instead of being returned with nulls" % (op, name, missing[0]))
        else:
            ctx.ok(RULE, inst, "resets %s" % flags)
