"""Three-valued logic tables decided from match arms.

A `match (left, right)` over two PropertyValues whose arms mention a Boolean literal is an
AND / OR table.  Patterns only test variants and literals, so the arm selected for a pair of
operands depends only on their class in {true, false, null, other}: evaluate the arm list over
the 16 pairs (first matching arm wins, exactly what the compiled match does) and require
  (1) commutativity — (a, b) and (b, a) select arms with the same result signature;
  (2) Kleene's table where the arm's result is a literal: absorbing OP x = absorbing for every
      x in {true, false, null} on either side, and null OP identity = null OP null = null.
The Boolean x Boolean cell computed by `*l && *r` / `*l || *r` is not evaluated (arm body is opaque)."""
VALS = ["true", "false", "null", "other"]
PV = "samyama::graph::property::PropertyValue::"


def _m(pat, v):
    k = pat.get("k")
    if k in ("wild",):
        return True
    if k == "bind":
        return _m(pat["sub"], v) if pat.get("sub") else True
    if k == "or":
        return any(_m(e, v) for e in pat["e"])
    if k == "variant":
        p = pat["p"]
        if p == PV + "Boolean":
            if v not in ("true", "false"):
                return False
            sub = pat.get("sub") or []
            return all(_ml(s, v) for s in sub)
        if p == PV + "Null":
            return v == "null"
        return v == "other" and False   # a specific non-boolean variant: `other` stands for "some non-boolean", never matched by name
    if k == "lit":
        return _ml(pat, v)
    if k == "ref" or k == "deref":
        return _m(pat["sub"], v) if pat.get("sub") else True
    return None


def _ml(pat, v):
    k = pat.get("k")
    if k == "lit":
        return pat["v"] == "b:" + v
    if k in ("bind", "wild"):
        return _m(pat, v)
    if k == "or":
        return any(_ml(e, v) for e in pat["e"])
    return None


def match_pair(pat, a, b):
    k = pat.get("k")
    if k == "wild" or (k == "bind" and not pat.get("sub")):
        return True
    if k == "or":
        return any(match_pair(e, a, b) for e in pat["e"])
    if k == "tuple" and len(pat["e"]) == 2:
        x, y = _m(pat["e"][0], a), _m(pat["e"][1], b)
        if x is None or y is None:
            return None
        return x and y
    return None


def signature(arm):
    cs = sorted(c.rsplit("::", 1)[-1] for c in arm["ctors"] if c.rsplit("::", 1)[-1] in ("Boolean", "Null", "Err", "TypeError"))
    ls = sorted(l for l in arm["lits"] if l.startswith("b:"))
    binds = "bind" if _has_bind(arm["pat"]) else ""
    return (tuple(cs), tuple(ls), binds)


def _has_bind(p):
    if p.get("k") == "bind":
        return True
    for e in p.get("e", []) if isinstance(p.get("e"), list) else []:
        if _has_bind(e):
            return True
    for e in p.get("sub", []) if isinstance(p.get("sub"), list) else ([p["sub"]] if isinstance(p.get("sub"), dict) else []):
        if _has_bind(e):
            return True
    return False


def is_table(m):
    if m.get("k") != "match" or m.get("sty", "").count("PropertyValue") != 2 or not m["sty"].startswith("("):
        return False
    lits = set()
    for a in m["arms"]:
        _collect_lits(a["pat"], lits)
    return bool(lits & {"b:true", "b:false"}) and len(lits) == 1


def _collect_lits(p, out):
    if p.get("k") == "lit":
        out.add(p["v"])
    for key in ("e", "sub"):
        v = p.get(key)
        if isinstance(v, list):
            for e in v:
                _collect_lits(e, out)
        elif isinstance(v, dict):
            _collect_lits(v, out)


def check(m):
    """-> (problems, cells): problems = [(kind, text)]"""
    lits = set()
    for a in m["arms"]:
        _collect_lits(a["pat"], lits)
    absorbing = "false" if "b:false" in lits else "true"
    identity = "true" if absorbing == "false" else "false"
    opname = "AND" if absorbing == "false" else "OR"
    sel = {}
    for a in VALS:
        for b in VALS:
            hit = None
            for i, arm in enumerate(m["arms"]):
                if arm.get("guard"):
                    return [("opaque", "arm %d has a guard" % i)], 0
                r = match_pair(arm["pat"], a, b)
                if r is None:
                    return [("opaque", "arm %d has a pattern the table evaluator does not model" % i)], 0
                if r:
                    hit = i
                    break
            sel[(a, b)] = hit
    probs = []
    sig = lambda c: signature(m["arms"][sel[c]]) if sel[c] is not None else None
    for a in VALS:
        for b in VALS:
            if a < b and sig((a, b)) != sig((b, a)):
                probs.append(("asymmetric|%s-%s" % (a, b), "%s is not commutative: (%s, %s) selects arm %s but (%s, %s) selects arm %s with a different result" % (opname, a, b, sel[(a, b)], b, a, sel[(b, a)])))
    def lit_result(c):
        s = sig(c)
        if s is None or s[2] == "bind":
            return "?"
        if "Err" in s[0] or "TypeError" in s[0]:
            return "error"
        if s[0] == ("Null",):
            return "null"
        if s[0] == ("Boolean",) and len(s[1]) == 1:
            return s[1][0][2:]
        return "?"
    want = {}
    for x in ("true", "false", "null"):
        want[(absorbing, x)] = absorbing
        want[(x, absorbing)] = absorbing
    for c in (("null", identity), (identity, "null"), ("null", "null")):
        want[c] = "null"
    for c, w in sorted(want.items()):
        got = lit_result(c)
        if got != "?" and got != w:
            probs.append(("kleene|%s-%s" % c, "%s %s %s must be %s in three-valued logic but the selected arm %s yields %s" % (c[0], opname, c[1], w, sel[c], got)))
    return probs, len(sel)
