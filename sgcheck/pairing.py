"""T-PAIR: secondary-index maintenance matrix over the GraphStore mutator kind table."""
from . import storemodel as sm
from .report import where


def matrix(ctx, F, cg, rule, index_name, insert_pats, remove_pats, kill_kinds, why_fmt):
    """For every mutator of the given kill kinds: it must (transitively) reach a removal.  Only armed when some
    mutator reaches an insert (the index is populated by the store)."""
    inserters = []
    for kind, names in sm.KINDS.items():
        for n in names:
            r = sm.fn_of(F, n)
            if r and cg.reaches(r["path"], insert_pats):
                inserters.append(n)
    ctx.floor(rule, "%s: mutators that populate the index" % index_name, len(inserters), 1)
    out = []
    for kind in kill_kinds:
        for n in sm.KINDS[kind]:
            r = sm.fn_of(F, n)
            if r is None:
                ctx.anchor_failure(rule, "GraphStore::" + n)
                continue
            ctx.saw_fn(r["path"])
            hits = cg.find_reaching(r["path"], remove_pats)
            inst = "%s|%s|%s" % (index_name, kind, n)
            if hits:
                ctx.ok(rule, inst, "reaches %s via %s" % (hits[0][-1].rsplit("::", 1)[-1], " -> ".join(x.rsplit("::", 1)[-1] for x in hits[0][1:-1]) or "direct call"))
            else:
                ctx.violation(rule, inst, where(r), why_fmt % {"fn": n, "kind": kind, "index": index_name})
            out.append((kind, n, bool(hits)))
    return out
