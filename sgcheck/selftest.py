"""Checker self-test (thorough tier): every stored seed of the property is applied to a scratch copy
of /repo, facts are extracted from the copy, and the property's rules must report a violation there.
The copy and its facts are removed afterwards.  This checks the *checker*; the verdict on the
property is the analysis of /repo itself."""
import glob
import json
import os
import shutil
import subprocess
import tempfile

from . import facts as factsmod
from .callgraph import CallGraph
from .report import VERIF

SKIP = {"target", ".git", "node_modules", "docs", "benchmarks", "case_studies", "api", "scripts", "sdk"}


class _Probe:
    def __init__(self, pid, F):
        self.pid, self.facts = pid, F
        self.violations, self.assumptions = [], []
        kf = json.load(open(os.path.join(VERIF, "known_findings.json")))
        self.known = {f["key"] for f in kf.get("findings", [])}
    def rule(self, *a): pass
    def saw_fn(self, *a): pass
    def saw_calls(self, *a): pass
    def note(self, *a): pass
    def ok(self, *a, **k): pass
    def floor(self, rule, what, found, minimum):
        if found < minimum:
            self.violations.append("%s|floor|%s" % (rule, what))
        return found >= minimum
    def violation(self, rule, instance, where_, msg):
        key = "%s|%s" % (rule, instance)
        if key not in self.known:
            self.violations.append(key)
    def anchor_failure(self, rule, msg):
        self.violations.append("%s|anchor|%s" % (rule, msg[:60]))


def run(ctx, pid, mod):
    seeds = sorted(glob.glob(os.path.join(VERIF, "seeded", pid + "-*", "patch.diff")))
    ctx.rule("SELFTEST", "every stored seeded regression of this property is reported by the rules when applied to a scratch copy of /repo")
    if not seeds:
        ctx.note("self-test: no stored seed for %s" % pid)
        return
    for patch in seeds:
        name = os.path.basename(os.path.dirname(patch))
        try:
            meta = json.load(open(os.path.join(os.path.dirname(patch), "meta.json")))
        except Exception:
            meta = {}
        if meta.get("detected") is False:
            ctx.note("self-test %s: a stored regression the rules do NOT detect (outside the decided clauses: %s)" % (name, str(meta.get("caught_by", ""))[:200]))
            continue
        tmp = tempfile.mkdtemp(prefix="sgself_", dir="/var/tmp")
        copy = os.path.join(tmp, "repo")
        try:
            top = os.path.abspath(factsmod.REPO)
            shutil.copytree(top, copy, ignore=lambda d, names: [n for n in names if n == "target" or (os.path.abspath(d) == top and n in SKIP)])
            rc = subprocess.call(["patch", "-p1", "-s", "-i", patch], cwd=copy, stdout=subprocess.DEVNULL, stderr=subprocess.DEVNULL)
            if rc != 0:
                ctx.note("self-test %s: the seed no longer applies to the current tree (skipped; seeds are tied to the commit they were made on)" % name)
                continue
            fdir = factsmod.extract(repo=copy, tier="quick")
            F = factsmod.Facts(fdir)
            probe = _Probe(pid, F)
            try:
                mod.run(probe, F, CallGraph(F))
            except Exception as e:       # a crash on the mutant is a report too (fail closed)
                probe.violations.append("checker|crash|%s" % type(e).__name__)
            shutil.rmtree(fdir, ignore_errors=True)
            if probe.violations:
                ctx.ok("SELFTEST", name, "reported on the mutated copy: %s" % probe.violations[:3])
            else:
                ctx.violation("SELFTEST", name + "|seed-not-detected", "seeded/%s/patch.diff" % name, "the rules are silent on a stored seeded regression of this property: the checker lost strength")
        finally:
            shutil.rmtree(tmp, ignore_errors=True)


def base_check(ctx, pid, mod):
    """The defects repaired by fix: commits must still be *detectable*: run the rules on the original tree
    (git archive of the pinned base commit) and require every expected key to be reported."""
    path = os.path.join(VERIF, "selftest_base_expected.json")
    if not os.path.exists(path):
        return
    spec = json.load(open(path))
    want = spec["expected"].get(pid)
    if not want:
        return
    ctx.rule("SELFTEST-BASE", "on the original tree (commit %s) the rules report every defect that was later repaired" % spec["base_commit"])
    tmp = tempfile.mkdtemp(prefix="sgbase_", dir="/var/tmp")
    try:
        tar = subprocess.Popen(["git", "-C", factsmod.REPO, "archive", spec["base_commit"]], stdout=subprocess.PIPE)
        rc = subprocess.call(["tar", "-x", "-C", tmp], stdin=tar.stdout)
        tar.wait()
        if rc != 0 or tar.returncode != 0:
            ctx.note("self-test base: commit %s is not available in /repo's history (skipped)" % spec["base_commit"])
            return
        fdir = factsmod.extract(repo=tmp, tier="quick")
        F = factsmod.Facts(fdir)
        probe = _Probe(pid, F)
        probe.known = set()
        try:
            mod.run(probe, F, CallGraph(F))
        except Exception as e:
            probe.violations.append("checker|crash|%s" % type(e).__name__)
        got = set(probe.violations)
        missing = [k for k in want if k not in got]
        if missing:
            ctx.violation("SELFTEST-BASE", "missed-on-base|" + missing[0], "selftest_base_expected.json", "on the original tree the rules no longer report %d repaired defect(s): %s" % (len(missing), missing[:4]))
        else:
            ctx.ok("SELFTEST-BASE", "all-repaired-defects-detected", "%d expected reports present on the original tree" % len(want))
    finally:
        shutil.rmtree(tmp, ignore_errors=True)


def negative_controls(ctx, pid, mod):
    """Behaviour-preserving refactors stored under /verif/refactors: applied to a scratch copy, the rules of the
    properties they touch must report nothing new (no false alarm on code where the property holds)."""
    metas = sorted(glob.glob(os.path.join(VERIF, "refactors", "*", "meta.json")))
    mine, fragile = [], []
    for mp in metas:
        try:
            m = json.load(open(mp))
        except Exception:
            continue
        if pid in m.get("properties", []):
            if m.get("silent") is False:
                if pid in (m.get("still_reported") or {}):
                    fragile.append((os.path.basename(os.path.dirname(mp)), m))
                continue
            mine.append((os.path.dirname(mp), m))
    for nm, m in fragile:
        ctx.note("negative control %s (%s): a behaviour-preserving refactor on which these rules still report %s — a known false alarm of the checker (DESIGN §7, 12n), not enforced" % (nm, m.get("what", "")[:90], (m["still_reported"].get(pid) or [])[:3]))
    if not mine:
        return
    ctx.rule("SELFTEST-NEG", "on every stored behaviour-preserving refactor that touches this property's anchors, the rules report exactly what they report on the unchanged tree")
    # reference: what the rules report on /repo itself
    F0 = factsmod.Facts(factsmod.extract(repo=None, tier="quick"))
    p0 = _Probe(pid, F0)
    try:
        mod.run(p0, F0, CallGraph(F0))
    except Exception as e:
        p0.violations.append("checker|crash|%s" % type(e).__name__)
    ref = set(p0.violations)
    for d, m in mine:
        name = os.path.basename(d)
        tmp = tempfile.mkdtemp(prefix="sgneg_", dir="/var/tmp")
        copy = os.path.join(tmp, "repo")
        try:
            top = os.path.abspath(factsmod.REPO)
            shutil.copytree(top, copy, ignore=lambda dd, names: [n for n in names if n == "target" or (os.path.abspath(dd) == top and n in SKIP)])
            rc = subprocess.call(["patch", "-p1", "-s", "-i", os.path.join(d, "patch.diff")], cwd=copy, stdout=subprocess.DEVNULL, stderr=subprocess.DEVNULL)
            if rc != 0:
                ctx.note("negative control %s: the refactor no longer applies to the current tree (skipped)" % name)
                continue
            fdir = factsmod.extract(repo=copy, tier="quick")
            F = factsmod.Facts(fdir)
            probe = _Probe(pid, F)
            try:
                mod.run(probe, F, CallGraph(F))
            except Exception as e:
                probe.violations.append("checker|crash|%s" % type(e).__name__)
            shutil.rmtree(fdir, ignore_errors=True)
            extra = sorted(set(probe.violations) - ref)
            if extra:
                ctx.violation("SELFTEST-NEG", name + "|false-alarm", "refactors/%s/patch.diff" % name, "the rules report %s on a behaviour-preserving refactor (%s): the checker raises a false alarm" % (extra[:3], m.get("what", "")[:120]))
            else:
                ctx.ok("SELFTEST-NEG", name, "silent on: %s" % m.get("what", "")[:140])
        finally:
            shutil.rmtree(tmp, ignore_errors=True)
