"""Constant extraction helpers (char sets mentioned by a function and its closures)."""
from .cfg import Body

_ESC = {"\\n": "\n", "\\r": "\r", "\\t": "\t", "\\'": "'", '\\"': '"', "\\\\": "\\", "\\0": "\0"}


def parse_char_const(disp):
    """'const \\'x\\'' -> 'x' ; byte consts `const b'x'` and small u8 ints too."""
    d = disp.strip()
    if d.startswith("const b'") and d.endswith("'"):
        body = d[8:-1]
    elif d.startswith("const '") and d.endswith("'"):
        body = d[7:-1]
    else:
        return None
    if body in _ESC:
        return _ESC[body]
    if body.startswith("\\u{") and body.endswith("}"):
        try:
            return chr(int(body[3:-1], 16))
        except ValueError:
            return None
    if body.startswith("\\x"):
        try:
            return chr(int(body[2:], 16))
        except ValueError:
            return None
    if len(body) == 1:
        return body
    return None


def all_const_displays(F, path, include_closures=True):
    out = set()
    seen = set()
    work = [path]
    while work:
        p = work.pop()
        if p in seen or p not in F.fns:
            continue
        seen.add(p)
        m = F.mir(p)
        if m is None:
            continue
        b = Body(m)
        for i, j, pl, rv, line, exp in b.stmts():
            for o in _ops(rv):
                if o[0] == "k":
                    out.add(o[1])
        for c in b.calls():
            for a in c.args:
                if a[0] == "k":
                    out.add(a[1])
        for i in b.live_blocks():
            t = b.blocks[i]["t"]
            if t[0] == "switch" and t[1][0] != "k":
                ty = b.local_ty(t[1][1][0])
                if ty in ("char", "u8"):
                    for v, tgt in t[2]:
                        try:
                            out.add("const %r" % chr(int(v)) if ty == "char" else "const %d_u8" % int(v))
                        except ValueError:
                            pass
        if include_closures:
            work.extend(F.fns[p]["closures"])
    return out


def char_set(F, path, include_closures=True):
    out = set()
    # `matches!(c, 'a' | 'b')` is a switch on the char: its values are the characters
    paths_ = [path] + ([c for c in (F.fns.get(path, {}).get("closures") or [])] if include_closures else [])
    for pp in paths_:
        m_ = F.mir(pp)
        if m_ is None:
            continue
        for blk in m_["blocks"]:
            t = blk["t"]
            if t[0] == "switch" and t[1][0] != "k" and m_["locals"][t[1][1][0]][0] == "char":
                for v, tgt in t[2]:
                    try:
                        out.add(chr(int(v)))
                    except (ValueError, OverflowError):
                        pass
    for d in all_const_displays(F, path, include_closures):
        c = parse_char_const(d)
        if c is not None:
            out.add(c)
        elif d.startswith("const ") and d.endswith("_u8"):
            try:
                out.add(chr(int(d[6:-3])))
            except ValueError:
                pass
    return out


def closure_arg_chars(F, b, call):
    """Chars mentioned by closure / char / str-pattern arguments of a call."""
    out = set()
    for a in call.args[1:]:
        if a[0] == "k":
            c = parse_char_const(a[1])
            if c is not None:
                out.add(c)
            elif a[1].startswith("fn:"):        # a named predicate function instead of a closure
                out |= char_set(F, a[1][3:])
            elif a[1].startswith('const "'):
                out |= set(a[1][7:-1].replace("\\n", "\n").replace("\\r", "\r").replace("\\t", "\t"))
            continue
        for o in b.origins(a[1][0]):
            if o[0] == "agg" and o[1].startswith("closure:"):
                out |= char_set(F, o[1][8:])
            elif o[0] == "const":
                c = parse_char_const(o[1][1])
                if c is not None:
                    out.add(c)
                elif o[1][1].startswith('const "'):
                    out |= set(o[1][1][7:-1].replace("\\n", "\n").replace("\\r", "\r").replace("\\t", "\t"))
    return out


def _ops(rv):
    k = rv[0]
    if k in ("use", "repeat"):
        return [rv[1]]
    if k == "cast":
        return [rv[2]]
    if k == "bin":
        return rv[2:4]
    if k == "agg":
        return rv[2]
    return []


def parse_bytes_const(disp):
    """`const b"..."` display -> bytes (Rust byte-string escapes)."""
    d = disp.strip()
    if not (d.startswith('const b"') and d.endswith('"')):
        return None
    body = d[8:-1]
    out = bytearray()
    i = 0
    while i < len(body):
        c = body[i]
        if c == "\\" and i + 1 < len(body):
            n = body[i + 1]
            if n == "x":
                out.append(int(body[i + 2:i + 4], 16))
                i += 4
                continue
            out.append({"n": 10, "r": 13, "t": 9, "0": 0, "\\": 92, '"': 34, "'": 39}.get(n, ord(n)))
            i += 2
            continue
        out += c.encode("utf-8")
        i += 1
    return bytes(out)


def format_templates(b):
    """All fmt templates used in a body: list of (line, parts) with parts as cfg.fmt_template gives."""
    from .cfg import fmt_template
    out = []
    for i, j, pl, rv, line, exp in b.stmts():
        for o in _ops(rv):
            if o[0] == "k" and o[1].startswith('const b"'):
                bs = parse_bytes_const(o[1])
                if bs is not None:
                    t = fmt_template(bs.hex())
                    if t is not None:
                        out.append((line, t))
    for c in b.calls():
        for a in c.args:
            if a[0] == "k" and a[1].startswith('const b"'):
                bs = parse_bytes_const(a[1])
                if bs is not None:
                    t = fmt_template(bs.hex())
                    if t is not None:
                        out.append((c.line, t))
            elif a[0] == "k" and a[1].startswith('const "') and c.path.endswith("from_str"):
                out.append((c.line, [("lit", a[1][7:-1])]))
    return out
