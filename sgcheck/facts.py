"""Fact extraction (through the sgfacts rustc driver) and loading.

Extraction is content-addressed: the hash of every build-relevant file under the
repository root selects a facts directory under /verif/.work/facts/<hash>.  If it does
not exist the driver is run (under a file lock) over the current working tree.
"""
import fcntl
import hashlib
import json
import os
import pickle
import shutil
import subprocess
import sys
import time

VERIF = os.path.dirname(os.path.dirname(os.path.abspath(__file__)))
WORK = os.path.join(VERIF, ".work")
TARGET = os.path.join(WORK, "target")
DRIVER = os.path.join(VERIF, "sgfacts", "target", "debug", "sgfacts")
REPO = os.environ.get("SG_REPO", "/repo")

QUICK_PKGS = ["samyama", "samyama-graph-algorithms", "samyama-optimization"]
THOROUGH_PKGS = QUICK_PKGS + ["samyama-sdk", "samyama-cli"]
# crates (lib/bin units) that must appear in the extracted facts; fail closed otherwise
EXPECT_UNITS_QUICK = {"samyama.lib", "samyama.bin", "samyama_graph_algorithms.lib", "samyama_optimization.lib"}
EXPECT_UNITS_THOROUGH = EXPECT_UNITS_QUICK | {"samyama_sdk.lib", "samyama_cli.bin"}

HASH_EXT = (".rs", ".pest", ".toml", ".lock")
SKIP_DIRS = {"target", ".git", "node_modules", "sdk", "docs", "benchmarks", "case_studies", "api", "scripts"}


def tree_hash(repo):
    h = hashlib.sha256()
    for root, dirs, files in os.walk(repo):
        dirs[:] = sorted(d for d in dirs if d not in SKIP_DIRS and not d.startswith("."))
        for f in sorted(files):
            if f.endswith(HASH_EXT):
                p = os.path.join(root, f)
                h.update(os.path.relpath(p, repo).encode())
                h.update(b"\0")
                try:
                    with open(p, "rb") as fh:
                        h.update(fh.read())
                except OSError:
                    pass
                h.update(b"\0")
    # the driver itself is part of the key
    try:
        with open(os.path.join(VERIF, "sgfacts", "src", "main.rs"), "rb") as fh:
            h.update(fh.read())
    except OSError:
        pass
    return h.hexdigest()[:20]


def sysroot():
    return subprocess.check_output(["rustc", "+nightly", "--print", "sysroot"], text=True).strip()


def ensure_driver():
    src = os.path.join(VERIF, "sgfacts", "src", "main.rs")
    if os.path.exists(DRIVER) and os.path.getmtime(DRIVER) >= os.path.getmtime(src):
        return
    env = dict(os.environ, CARGO_NET_OFFLINE="true")
    subprocess.check_call(["cargo", "build", "--offline"], cwd=os.path.join(VERIF, "sgfacts"), env=env,
                          stdout=subprocess.DEVNULL, stderr=subprocess.DEVNULL)


def _run_driver(repo, out_dir, pkgs, log):
    ensure_driver()
    fp = os.path.join(TARGET, "debug", ".fingerprint")
    if os.path.isdir(fp):
        for d in os.listdir(fp):
            if d.startswith("samyama"):
                shutil.rmtree(os.path.join(fp, d), ignore_errors=True)
    env = dict(os.environ)
    env.update({
        "CARGO_NET_OFFLINE": "true",
        "CARGO_TARGET_DIR": TARGET,
        "CARGO_INCREMENTAL": "0",
        "RUSTC_WORKSPACE_WRAPPER": DRIVER,
        "SGFACTS_OUT": out_dir,
        "LD_LIBRARY_PATH": sysroot() + "/lib:" + env.get("LD_LIBRARY_PATH", ""),
    })
    env.pop("RUSTFLAGS", None)
    cmd = ["cargo", "+nightly", "check", "--offline", "--manifest-path", os.path.join(repo, "Cargo.toml")]
    for p in pkgs:
        cmd += ["-p", p]
    cmd += ["--lib", "--bins"]
    with open(log, "w") as lf:
        rc = subprocess.call(cmd, env=env, stdout=lf, stderr=subprocess.STDOUT, cwd=repo)
    return rc


def extract(repo=None, tier="quick", force=False):
    """Return the facts directory for the current working tree of `repo`."""
    repo = repo or REPO
    os.makedirs(os.path.join(WORK, "facts"), exist_ok=True)
    key = tree_hash(repo)
    pkgs = THOROUGH_PKGS if tier == "thorough" else QUICK_PKGS
    expect = EXPECT_UNITS_THOROUGH if tier == "thorough" else EXPECT_UNITS_QUICK
    fdir = os.path.join(WORK, "facts", key + ("-t" if tier == "thorough" else "-q"))
    lockp = os.path.join(WORK, "extract.lock")
    with open(lockp, "w") as lk:
        fcntl.flock(lk, fcntl.LOCK_EX)
        # a thorough extraction also serves quick
        alt = os.path.join(WORK, "facts", key + "-t")
        if tier == "quick" and os.path.exists(os.path.join(alt, "DONE")) and not force:
            os.utime(alt, None)       # in use: keeps it away from the collector
            return alt
        if os.path.exists(os.path.join(fdir, "DONE")) and not force:
            os.utime(fdir, None)
            return fdir
        shutil.rmtree(fdir, ignore_errors=True)
        os.makedirs(fdir)
        t0 = time.time()
        rc = _run_driver(repo, fdir, pkgs, os.path.join(fdir, "cargo.log"))
        if rc != 0:
            tail = open(os.path.join(fdir, "cargo.log")).read()[-3000:]
            sys.stderr.write("sgfacts: cargo check failed (rc=%d)\n%s\n" % (rc, tail))
            raise SystemExit(2)
        units = set()
        for f in os.listdir(fdir):
            if f.endswith(".jsonl"):
                parts = f.split(".")
                units.add(parts[0] + "." + parts[1])
        missing = expect - units
        if missing:
            sys.stderr.write("sgfacts: facts missing for units %s (cargo skipped the wrapper?)\n" % sorted(missing))
            raise SystemExit(2)
        build_index(fdir)
        with open(os.path.join(fdir, "DONE"), "w") as fh:
            fh.write(json.dumps({"key": key, "tier": tier, "wall_s": round(time.time() - t0, 1), "repo": repo}))
        _gc_facts(keep=fdir)
    return fdir


def _gc_facts(keep, max_dirs=48, min_age_s=3 * 3600):
    """Remove old facts directories.  Checks may run in parallel (several thorough-tier self-tests each extract
    scratch copies): a directory is only removed when it has not been used for `min_age_s` — never merely because
    newer ones exist — so a concurrent run cannot lose the facts it is reading."""
    base = os.path.join(WORK, "facts")
    now = time.time()
    ds = [os.path.join(base, d) for d in os.listdir(base)]
    ds = [d for d in ds if os.path.isdir(d) and d != keep]
    ds.sort(key=lambda d: os.path.getmtime(d))
    while len(ds) >= max_dirs and ds and now - os.path.getmtime(ds[0]) > min_age_s:
        shutil.rmtree(ds.pop(0), ignore_errors=True)


def build_index(fdir):
    """Split the per-crate files into a light pickle (fn/adt/impl/const/meta records and
    byte offsets of the heavy mir / match records)."""
    fns, adts, impls, consts, metas = {}, {}, [], {}, []
    mir_off, arms_off = {}, {}
    for f in sorted(os.listdir(fdir)):
        if not f.endswith(".jsonl"):
            continue
        unit = ".".join(f.split(".")[:2])
        p = os.path.join(fdir, f)
        with open(p, "rb") as fh:
            off = 0
            for line in fh:
                n = len(line)
                # cheap dispatch on the record kind prefix
                if line.startswith(b'{"k":"mir"'):
                    q = line.find(b'"path":"') + 8
                    e = line.find(b'","argc"', q)
                    path = json.loads(b'"' + line[q:e] + b'"')
                    mir_off[(unit, path)] = (f, off, n)
                elif line.startswith(b'{"k":"match"'):
                    q = line.find(b'"fn":"') + 6
                    e = line.find(b'","line"', q)
                    path = json.loads(b'"' + line[q:e] + b'"')
                    arms_off.setdefault((unit, path), []).append((f, off, n))
                else:
                    r = json.loads(line)
                    k = r["k"]
                    r["unit"] = unit
                    if k == "fn":
                        fns[(unit, r["path"])] = r
                    elif k == "adt":
                        adts[r["path"]] = r
                    elif k == "impl":
                        impls.append(r)
                    elif k == "const":
                        consts[r["path"]] = r
                    elif k == "meta":
                        metas.append(r)
                off += n
    with open(os.path.join(fdir, "index.pkl"), "wb") as fh:
        pickle.dump({"fns": fns, "adts": adts, "impls": impls, "consts": consts, "metas": metas,
                     "mir_off": mir_off, "arms_off": arms_off}, fh, protocol=4)


class Facts:
    """Loaded facts.  Function keys are def paths; the lib unit of a crate shadows its bin
    unit when both define the same path (they never do in this workspace)."""

    def __init__(self, fdir):
        self.dir = fdir
        with open(os.path.join(fdir, "index.pkl"), "rb") as fh:
            ix = pickle.load(fh)
        self.metas = ix["metas"]
        self.adts = ix["adts"]
        self.impls = ix["impls"]
        self.consts = ix["consts"]
        self.fns = {}
        self._mir_off = {}
        self._arms_off = {}
        for (unit, path), r in ix["fns"].items():
            self.fns[path] = r
        for (unit, path), v in ix["mir_off"].items():
            self._mir_off[path] = v
        for (unit, path), v in ix["arms_off"].items():
            self._arms_off[path] = v
        self._mir_cache = {}
        self._fh = {}

    def _read(self, f, off, n):
        fh = self._fh.get(f)
        if fh is None:
            fh = self._fh[f] = open(os.path.join(self.dir, f), "rb")
        fh.seek(off)
        return json.loads(fh.read(n))

    def mir(self, path):
        m = self._mir_cache.get(path)
        if m is None:
            loc = self._mir_off.get(path)
            if loc is None:
                return None
            m = self._mir_cache[path] = self._read(*loc)
        return m

    def arms(self, path):
        return [self._read(*loc) for loc in self._arms_off.get(path, [])]

    def all_arm_fns(self):
        return list(self._arms_off.keys())

    # ---- lookup helpers -------------------------------------------------------------
    def find_fns(self, suffix=None, pred=None):
        out = []
        for p, r in self.fns.items():
            if suffix is not None and not (p == suffix or p.endswith("::" + suffix)):
                continue
            if pred is not None and not pred(r):
                continue
            out.append(r)
        return out

    def fn(self, suffix):
        """Unique function whose path ends with `suffix` (fail closed otherwise)."""
        c = self.find_fns(suffix)
        if len(c) != 1:
            raise AnchorError("anchor %r resolves to %d functions: %s" % (suffix, len(c), [x["path"] for x in c][:5]))
        return c[0]

    def fn_opt(self, suffix):
        c = self.find_fns(suffix)
        return c[0] if len(c) == 1 else None

    def trait_impl_fn(self, self_ty_suffix, trait_suffix, method):
        out = []
        for p, r in self.fns.items():
            if r.get("trait") and r["trait"].endswith(trait_suffix) and r.get("self") and \
                    (r["self"] == self_ty_suffix or r["self"].endswith("::" + self_ty_suffix)) and \
                    p.endswith("::" + method):
                out.append(r)
        if len(out) != 1:
            raise AnchorError("anchor impl %s for %s::%s resolves to %d functions" % (trait_suffix, self_ty_suffix, method, len(out)))
        return out[0]

    def adt(self, suffix):
        c = [a for p, a in self.adts.items() if p == suffix or p.endswith("::" + suffix)]
        if len(c) != 1:
            raise AnchorError("anchor ADT %r resolves to %d types" % (suffix, len(c)))
        return c[0]


def in_module(path, prefix):
    """Module membership of a def path; `<Type as Trait>::m` belongs to Type's module."""
    q = path[1:] if path.startswith("<") else path
    return q.startswith(prefix)


class AnchorError(Exception):
    pass
