"""Abstract evaluation of small integer expressions / predicates extracted from MIR.

`expr_of(body, local)` rebuilds the expression tree feeding a local (through copies,
casts, checked-arithmetic tuples); leaves are constants, parameters, closure upvars,
field reads and call results ("roots").  `evaluate(expr, env)` computes it over concrete
small integers.  Rules evaluate a predicate over the finite table of orderings of its
roots, so `a >= n/2+1`, `a > n/2` and `2*a > n` are the same fact — this is evaluation of
an extracted expression, not execution of the program."""
from .cfg import const_int, place_str

ARITH = {"Add": "+", "AddWithOverflow": "+", "AddUnchecked": "+", "Sub": "-", "SubWithOverflow": "-", "SubUnchecked": "-",
         "Mul": "*", "MulWithOverflow": "*", "MulUnchecked": "*", "Div": "/", "Rem": "%"}
CMP = {"Lt": "<", "Le": "<=", "Gt": ">", "Ge": ">=", "Eq": "==", "Ne": "!="}


def expr_of(b, op, depth=0, seen=None):
    """op: MIR operand.  Returns nested tuple expression."""
    if op[0] == "k":
        v = const_int(op)
        if v is not None:
            return ("const", v)
        return ("kconst", op[1])
    return expr_of_place(b, op[1], depth, seen or set())


def expr_of_place(b, pl, depth, seen):
    l, projs = pl[0], pl[1]
    # strip tuple .0 of checked arithmetic, derefs
    if depth > 24:
        return ("root", "deep", place_str(pl))
    fields = [p for p in projs if p.startswith("f:")]
    upv = [p for p in projs if p.startswith("u:")]
    if 1 <= l <= b.argc and not [p for p in projs if p not in ("*",)]:
        return ("param", l)
    if 1 <= l <= b.argc and upv:
        return ("upvar", int(upv[0][2:]))
    if 1 <= l <= b.argc and fields:
        return ("paramfield", l, fields[-1][2:])
    key = (l, tuple(projs))
    if key in seen:
        return ("root", "cycle", place_str(pl))
    seen = seen | {key}
    ds = b.defs().get(l, [])
    if len(ds) != 1:
        return ("root", "multi" if ds else "undef", place_str(pl))
    d = ds[0]
    if d[0] == "call":
        c = d[2]
        nm = c.path.rsplit("::", 1)[-1]
        if nm in ("div_ceil", "saturating_add", "saturating_sub", "wrapping_add", "wrapping_sub", "max", "min") and len(c.args) == 2 and ("usize" in c.path or "u64" in c.path or "u32" in c.path or "i64" in c.path or "cmp::Ord" in c.path or "cmp::max" in c.path or "cmp::min" in c.path):
            a_ = expr_of(b, c.args[0], depth + 1, seen) if c.args[0][0] == "k" else expr_of_place(b, c.args[0][1], depth + 1, seen)
            c_ = expr_of(b, c.args[1], depth + 1, seen) if c.args[1][0] == "k" else expr_of_place(b, c.args[1][1], depth + 1, seen)
            return ("arith", {"div_ceil": "ceil/", "saturating_add": "+", "wrapping_add": "+", "saturating_sub": "sat-", "wrapping_sub": "-", "max": "max", "min": "min"}[nm], a_, c_)
        return ("call", c.path, c.bb, tuple(expr_of(b, a, depth + 1, seen) if a[0] == "k" else ("ref", a[1][0]) for a in c.args[:3]))
    rv = d[4]
    k = rv[0]
    if k == "use":
        o = rv[1]
        if o[0] == "k":
            return expr_of(b, o)
        # field projection carried on the source place
        src = o[1]
        if fields and not [p for p in src[1] if p.startswith("f:")]:
            src = [src[0], src[1] + [p for p in projs if p != "*"]]
        return expr_of_place(b, src, depth + 1, seen)
    if k == "ref":
        return expr_of_place(b, rv[2], depth + 1, seen)
    if k == "cast":
        return expr_of(b, rv[2], depth + 1, seen) if rv[2][0] == "k" else expr_of_place(b, rv[2][1], depth + 1, seen)
    if k == "bin":
        opn = rv[1]
        a = expr_of(b, rv[2], depth + 1, seen) if rv[2][0] == "k" else expr_of_place(b, rv[2][1], depth + 1, seen)
        c = expr_of(b, rv[3], depth + 1, seen) if rv[3][0] == "k" else expr_of_place(b, rv[3][1], depth + 1, seen)
        if opn in ARITH:
            return ("arith", ARITH[opn], a, c)
        if opn in CMP:
            return ("cmp", CMP[opn], a, c)
        return ("root", "binop:" + opn, place_str(pl))
    if k == "un" and rv[1] == "Not":
        a = expr_of(b, rv[2], depth + 1, seen) if rv[2][0] == "k" else expr_of_place(b, rv[2][1], depth + 1, seen)
        return ("not", a)
    if k == "agg" and rv[1] == "tuple" and fields == [] and projs and projs[-1].startswith("t:"):
        idx = int(projs[-1][2:])
        o = rv[2][idx]
        return expr_of(b, o, depth + 1, seen) if o[0] == "k" else expr_of_place(b, o[1], depth + 1, seen)
    return ("root", k, place_str(pl))


def roots(e, out=None):
    out = out if out is not None else []
    if e[0] in ("param", "upvar", "paramfield", "root", "call", "kconst"):
        if e not in out:
            out.append(e)
    elif e[0] in ("arith", "cmp"):
        roots(e[2], out)
        roots(e[3], out)
    elif e[0] == "not":
        roots(e[1], out)
    return out


def evaluate(e, env):
    k = e[0]
    if k == "const":
        return e[1]
    if k in ("param", "upvar", "paramfield", "root", "call", "kconst"):
        return env[e]
    if k == "arith":
        a, c = evaluate(e[2], env), evaluate(e[3], env)
        o = e[1]
        if o == "+":
            return a + c
        if o == "-":
            return a - c
        if o == "*":
            return a * c
        if o == "/":
            return a // c if c else 0
        if o == "%":
            return a % c if c else 0
        if o == "ceil/":
            return -(-a // c) if c else 0
        if o == "sat-":
            return max(a - c, 0)
        if o == "max":
            return max(a, c)
        if o == "min":
            return min(a, c)
    if k == "cmp":
        a, c = evaluate(e[2], env), evaluate(e[3], env)
        return {"<": a < c, "<=": a <= c, ">": a > c, ">=": a >= c, "==": a == c, "!=": a != c}[e[1]]
    if k == "not":
        return not evaluate(e[1], env)
    raise ValueError(e)


def show(e):
    k = e[0]
    if k == "const":
        return str(e[1])
    if k == "param":
        return "arg%d" % e[1]
    if k == "upvar":
        return "captured%d" % e[1]
    if k == "paramfield":
        return "arg%d.%s" % (e[1], e[2].rsplit(".", 1)[-1])
    if k == "call":
        return e[1].rsplit("::", 1)[-1] + "()@bb%d" % e[2]
    if k in ("arith", "cmp"):
        return "(%s %s %s)" % (show(e[2]), e[1], show(e[3]))
    if k == "not":
        return "!" + show(e[1])
    return "%s:%s" % (k, e[-1])


def closure_predicate(F, b_parent, closure_path):
    """For a closure whose body is a single comparison: returns the expression of its return value."""
    from .cfg import Body
    m = F.mir(closure_path)
    if m is None:
        return None
    cb = Body(m, F.fns.get(closure_path))
    return cb, expr_of_place(cb, [0, []], 0, set())


def base_place(b, op, depth=0):
    """Follow single-definition copy/ref chains of an operand to its ultimate place (local, projs)."""
    if op[0] == "k":
        return None
    pl = op[1]
    for _ in range(12):
        l = pl[0]
        if pl[1] and [p for p in pl[1] if p != "*"]:
            return (l, tuple(p for p in pl[1] if p != "*"))
        ds = b.defs().get(l, [])
        if len(ds) != 1 or ds[0][0] != "stmt":
            return (l, ())
        rv = ds[0][4]
        if rv[0] == "use" and rv[1][0] != "k":
            pl = rv[1][1]
        elif rv[0] == "ref":
            pl = rv[2]
        else:
            return (l, ())
    return (pl[0], tuple(pl[1]))


def chain_locals(b, op, through=("deref", "deref_mut", "as_str", "as_ref", "borrow", "as_slice", "clone", "to_string", "to_owned", "as_bytes", "as_mut", "borrow_mut", "as_mut_slice", "into")):
    """All locals along the single-definition copy/ref chain of an operand (identity calls are
    followed through their receiver)."""
    out = set()
    if op[0] == "k":
        return out
    pl = op[1]
    for _ in range(16):
        l = pl[0]
        out.add(l)
        ds = b.defs().get(l, [])
        if len(ds) == 1 and ds[0][0] == "call" and ds[0][2].path.rsplit("::", 1)[-1] in through and ds[0][2].args and ds[0][2].args[0][0] != "k":
            pl = ds[0][2].args[0][1]
            continue
        if len(ds) != 1 or ds[0][0] != "stmt":
            break
        rv = ds[0][4]
        if rv[0] == "use" and rv[1][0] != "k":
            pl = rv[1][1]
        elif rv[0] == "ref":
            pl = rv[2]
        else:
            break
    return out


def closure_of(b, op):
    """(closure path, capture operands) if the operand is a closure aggregate built in this body."""
    if op[0] == "k":
        return None
    l = op[1][0]
    for _ in range(6):      # a closure bound to a name first is moved / copied into the call
        ds = b.defs().get(l, [])
        for d in ds:
            if d[0] == "stmt" and d[4][0] == "agg" and d[4][1].startswith("closure:"):
                return d[4][1][8:], d[4][2]
        if len(ds) == 1 and ds[0][0] == "stmt" and ds[0][4][0] == "use" and ds[0][4][1][0] != "k" and not ds[0][4][1][1][1]:
            l = ds[0][4][1][1][0]
            continue
        break
    return None


def predicate_table(F, b, call, elem_values, base_value, argidx=1):
    """Evaluate the element predicate closure passed to `call` (retain/position/...) for element key
    values `elem_values`, with every captured quantity evaluated in the parent for root := base_value.
    Returns (list of bools, description, parent root list) or (None, reason, None)."""
    from .cfg import Body
    if len(call.args) <= argidx:
        return None, "no closure argument", None
    co = closure_of(b, call.args[argidx])
    if co is None:
        return None, "predicate is not a closure literal", None
    cpath, caps = co
    m = F.mir(cpath)
    if m is None:
        return None, "closure body not found", None
    cb = Body(m)
    pred = expr_of_place(cb, [0, []], 0, set())
    proots = roots(pred)
    cap_exprs = [expr_of(b, o) for o in caps]
    parent_roots = []
    for ce in cap_exprs:
        for r in roots(ce):
            if r not in parent_roots:
                parent_roots.append(r)
    if len(parent_roots) > 1:
        return None, "predicate captures more than one quantity: %s" % [show(r) for r in parent_roots], parent_roots
    out = []
    for ev in elem_values:
        env = {}
        for r in proots:
            if r[0] == "paramfield":
                env[r] = ev
            elif r[0] == "upvar":
                if r[1] >= len(cap_exprs):
                    return None, "unknown capture", None
                penv = {pr: base_value for pr in parent_roots}
                try:
                    env[r] = evaluate(cap_exprs[r[1]], penv)
                except Exception as ex:
                    return None, "cannot evaluate capture: %s" % ex, None
            else:
                return None, "predicate depends on %s" % show(r), None
        try:
            out.append(bool(evaluate(pred, env)))
        except Exception as ex:
            return None, "cannot evaluate predicate %s: %s" % (show(pred), ex), None
    return out, show(pred), parent_roots


def chain_fields(b, op, through=("deref", "deref_mut", "as_ref", "borrow", "as_mut", "borrow_mut", "clone", "unwrap", "expect", "lock", "read", "write")):
    """Adt.field names met along the copy/ref/identity-call chain of an operand."""
    out = []
    if op[0] == "k":
        return out
    pl = op[1]
    for _ in range(20):
        out += [p[2:] for p in pl[1] if p.startswith("f:")]
        l = pl[0]
        ds = b.defs().get(l, [])
        if len(ds) == 1 and ds[0][0] == "call" and ds[0][2].path.rsplit("::", 1)[-1] in through and ds[0][2].args and ds[0][2].args[0][0] != "k":
            pl = ds[0][2].args[0][1]
            continue
        if len(ds) != 1 or ds[0][0] != "stmt":
            break
        rv = ds[0][4]
        if rv[0] == "use" and rv[1][0] != "k":
            pl = rv[1][1]
        elif rv[0] == "ref":
            pl = rv[2]
        else:
            break
    return out
