#!/usr/bin/env python3
"""Dev helper: extract facts for every stored refactor once and keep them under /var/tmp/negfacts/<name> (for fast rule iteration)."""
import glob, os, shutil, subprocess, sys, tempfile
sys.path.insert(0, os.path.dirname(os.path.dirname(os.path.abspath(__file__))))
from sgcheck import facts as fm, selftest
os.makedirs("/var/tmp/negfacts", exist_ok=True)
for d in sorted(glob.glob("/verif/refactors/R*")):
    name = os.path.basename(d)
    if len(sys.argv) > 1 and name not in sys.argv[1:]:
        continue
    dst = "/var/tmp/negfacts/" + name
    if os.path.exists(os.path.join(dst, "DONE")):
        continue
    tmp = tempfile.mkdtemp(prefix="sgneg_", dir="/var/tmp")
    try:
        copy = os.path.join(tmp, "repo")
        top = os.path.abspath(fm.REPO)
        shutil.copytree(top, copy, ignore=lambda dd, names: [n for n in names if n == "target" or (os.path.abspath(dd) == top and n in selftest.SKIP)])
        if subprocess.call(["patch", "-p1", "-s", "-i", os.path.join(d, "patch.diff")], cwd=copy) != 0:
            print(name, "does not apply"); continue
        fdir = fm.extract(repo=copy, tier="quick")
        shutil.copytree(fdir, dst)
        print(name, "ok")
    finally:
        shutil.rmtree(tmp, ignore_errors=True)
