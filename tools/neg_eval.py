#!/usr/bin/env python3
"""Dev helper: run the rules of the given properties (default all) on the kept facts of the stored refactors."""
import glob, importlib, json, os, sys
sys.path.insert(0, os.path.dirname(os.path.dirname(os.path.abspath(__file__))))
from sgcheck import facts as fm, selftest
from sgcheck.callgraph import CallGraph
names = [a for a in sys.argv[1:] if a.startswith("R")]
pids = [a for a in sys.argv[1:] if a.startswith("C")] or sorted(os.path.basename(p)[:-3].upper() for p in glob.glob("/verif/sgcheck/rules/c[0-9][0-9].py"))
ref = json.load(open("/verif/.work/neg_ref.json"))["v"]
for d in sorted(glob.glob("/var/tmp/negfacts/R*"), key=lambda x: int(os.path.basename(x)[1:])):
    name = os.path.basename(d)
    if names and name not in names:
        continue
    F = fm.Facts(d)
    cg = CallGraph(F)
    extra = {}
    for pid in pids:
        mod = importlib.import_module("sgcheck.rules." + pid.lower())
        pr = selftest._Probe(pid, F)
        try:
            mod.run(pr, F, cg)
        except Exception as e:
            import traceback; traceback.print_exc()
            pr.violations.append("checker|crash|%s" % type(e).__name__)
        ex = [k for k in sorted(set(pr.violations)) if k not in ref.get(pid, [])]
        if ex:
            extra[pid] = ex
    print(name, "SILENT" if not extra else json.dumps(extra)[:900])
