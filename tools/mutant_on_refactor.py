#!/usr/bin/env python3
"""Detection on refactored shapes: apply a stored behaviour-preserving refactor, then break the property inside the
refactored code (a one-line edit), and require the named property's rules to report something new.
The cases are listed below; each is a (refactor, file, old, new, property) tuple."""
import importlib, json, os, shutil, subprocess, sys, tempfile
sys.path.insert(0, os.path.dirname(os.path.dirname(os.path.abspath(__file__))))
from sgcheck import facts as fm, selftest
from sgcheck.callgraph import CallGraph

CASES = [
 ("R12", "src/snapshot/persist.rs", "    handle.sync_all()\n", "    drop(handle);\n    Ok(())\n", "C14", "directory fsync dropped inside sync_directory()"),
 ("R7", "src/persistence/mod.rs", "        let _ = self.tenants.decrement_usage(tenant, kind, 1);\n", "        let _ = (tenant, kind);\n", "C18", "release() helper no longer gives the unit back"),
 ("R11", "src/persistence/tenant.rs", "        entry.check_quota(quotas, resource)?;\n", "        let _ = quotas;\n", "C18", "check_then_count() no longer checks the quota"),
 ("R15", "src/graph/store.rs", "        if !target_exists {\n            return Err(GraphError::InvalidEdgeTarget(target));\n        }\n", "        let _ = target_exists;\n", "C06", "check_edge_endpoints() no longer refuses a missing target"),
 ("R23", "src/nlq/mod.rs", "            None => false,\n", "            None => true,\n", "C24", "a statement that does not plan is accepted"),
 ("R26", "src/query/executor/planner.rs", "        Self::new(root, output_columns, true)\n", "        Self::new(root, output_columns, false)\n", "C24", "ExecutionPlan::mutating() builds a read plan"),
 ("R21", "src/protocol/command.rs", "                                return Err(RespValue::Error(format!(\"ERR write not persisted: {}\", e)));\n", "", "C19", "persist_created() goes on after a failed node persist"),
 ("R10", "src/persistence/storage.rs", "                    if key.starts_with(prefix.as_bytes()) {\n", "                    if key.starts_with(prefix.as_bytes()) || true {\n", "C17", "scan chain yields rows of other tenants"),
 ("R29", "src/query/mod.rs", "        let whitespace_may_matter = query_str.chars().any(Self::opens_quoted_text_or_comment);\n", "        let whitespace_may_matter = query_str.chars().any(Self::opens_quoted_text_or_comment) && query_str.len() < 64;\n", "C03", "long queries with literals are normalised"),
 ("R30", "src/rdf/serialization/turtle.rs", "Ok(Literal::new_simple_literal(value))", "Ok(Literal::new_simple_literal(value.trim()))", "C36", "shared reader trims simple literals"),
 ("R9", "src/persistence/wal.rs", "            Err(e) if e.kind() == io::ErrorKind::UnexpectedEof => Ok(false),\n", "", "C15", "fill_or_eof() propagates a torn tail as an error"),
 ("R27", "src/query/executor/operator.rs", "                let _ = store.delete_node(tenant_id, node_id);\n                return Err(e);\n", "                return Err(e);\n", "C05", "apply_on_create_sets() no longer deletes the half-built node"),
 ("R14", "src/graph/store.rs", "            if list[pos].1 == id {\n", "            if list[pos].0 == NodeId::new(id.as_u64()) {\n", "C06", "unlink_edge() removes by neighbour, not by relationship id"),
]

ref = json.load(open("/verif/.work/neg_ref.json"))["v"]
only = set(sys.argv[1:])
for (rn, path, old, new, pid, what) in CASES:
    if only and rn not in only:
        continue
    tmp = tempfile.mkdtemp(prefix="sgmut_", dir="/var/tmp")
    try:
        copy = os.path.join(tmp, "repo")
        top = os.path.abspath(fm.REPO)
        shutil.copytree(top, copy, ignore=lambda dd, names: [n for n in names if n == "target" or (os.path.abspath(dd) == top and n in selftest.SKIP)])
        if subprocess.call(["patch", "-p1", "-s", "-i", "/verif/refactors/%s/patch.diff" % rn], cwd=copy) != 0:
            print(rn, pid, "refactor does not apply"); continue
        fp = os.path.join(copy, path)
        s = open(fp).read()
        if s.count(old) < 1:
            print(rn, pid, "edit point not found"); continue
        open(fp, "w").write(s.replace(old, new, 1))
        try:
            fdir = fm.extract(repo=copy, tier="quick")
        except SystemExit:
            print(rn, pid, "MUTANT DOES NOT COMPILE"); continue
        F = fm.Facts(fdir)
        mod = importlib.import_module("sgcheck.rules." + pid.lower())
        pr = selftest._Probe(pid, F)
        try:
            mod.run(pr, F, CallGraph(F))
        except Exception as e:
            pr.violations.append("checker|crash|%s" % type(e).__name__)
        shutil.rmtree(fdir, ignore_errors=True)
        extra = [k for k in sorted(set(pr.violations)) if k not in ref.get(pid, [])]
        print("%s %s %s: %s" % (rn, pid, "DETECTED" if extra else "MISSED", what), extra[:3])
    finally:
        shutil.rmtree(tmp, ignore_errors=True)
