#!/bin/bash
# usage: confirm_seed.sh <wt_name> <i> <module-filter>
# Confirms in the scratch worktree: demo passes without patch, fails with patch, module tests pass with patch (no demo).
n=$1; i=$2; filt=$3
wt=/tmp/wt_$n; out=$wt/out
export CARGO_TARGET_DIR=/tmp/wt_${n}_target CARGO_NET_OFFLINE=true
cd $wt || exit 2
demo_file=$(python3 -c "import json;print(json.load(open('$out/meta$i.json'))['demo_file'])")
git checkout -q -- . 
paste_demo() {
python3 - "$demo_file" "$out/demo$i.rs" <<'PY'
import sys
f, d = sys.argv[1], sys.argv[2]
s = open(f).read().rstrip()
assert s.endswith("}")
s = s[:-1] + "\n" + open(d).read() + "\n}\n"
open(f, "w").write(s)
PY
}
tname=$(grep -oE 'fn [a-zA-Z0-9_]+' $out/demo$i.rs | head -1 | awk '{print $2}')
paste_demo
r1=$(cargo test --offline --lib -p ${PKG:-samyama} $tname 2>&1 | grep -E '^test result' | head -1)
git checkout -q -- .
git apply $out/patch$i.diff || { echo "SEED $n/$i: patch does not apply"; exit 1; }
paste_demo
r2=$(cargo test --offline --lib -p ${PKG:-samyama} $tname 2>&1 | grep -E '^test result|panicked|overflowed' | head -2 | tr '\n' ' ')
git checkout -q -- .
git apply $out/patch$i.diff
r3=$(cargo test --offline --lib -p ${PKG:-samyama} $filt 2>&1 | grep -E '^test result' | head -1)
git checkout -q -- .
echo "SEED $n/$i demo=$tname | clean: $r1 | mutated: $r2 | module tests with patch: $r3"
