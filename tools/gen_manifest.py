#!/usr/bin/env python3
"""Generate /verif/MANIFEST.json from the table below (single source of truth for the interface)."""
import json, os
VERIF = os.path.dirname(os.path.dirname(os.path.abspath(__file__)))

TRUST = "rustc nightly front end (type check, MIR construction) as run by the sgfacts driver under the real cargo build; the sgcheck rule library; reviewed tables named in DESIGN.md. Structural clauses only — see DESIGN.md for what is not decided."

CHECKS = {
 "C20": dict(tech="buffer-consumption typestate over MIR CFG (interprocedural summaries), must-pass-through with bool-flag refinement, constant-table agreement",
             text="Decides the structural clause of chunk-safety on all paths of the decoder: no function consumes from the connection buffer on a path that reports 'incomplete'; the connection loop keeps the buffer and answers each frame; encoder/decoder type bytes agree; the consumed amount is the parser's measured length. Necessary conditions of the property, decided for every path (not sampled); arithmetic of lengths is not decided.", ref="§5 C20"),
 "C21": dict(tech="taint + dominating-guard analysis on MIR (normalised comparisons), call-graph SCC depth-guard rule, panic-site inventory with reviewed table",
             text="Decides that every integer parsed from client bytes is bounded before cast/arithmetic/allocation/index/advance, that decoder recursion is depth-bounded, and that the panic-capable sites reachable from the decoder are exactly the guarded + reviewed set.", ref="§5 C21"),
 "C22": dict(tech="def-use provenance of formatted string arguments to a CR/LF sanitiser; sanitiser semantics checked on MIR constants and guards; write provenance in the connection loop",
             text="Decides that string data reaches a CRLF-terminated frame only through a function that removes both CR and LF, other variants are numeric or length-prefixed, and the server writes only encoder output. Sufficient for the one-frame clause under the stated trusted base.", ref="§5 C22"),
 "C33": dict(tech="expression extraction from MIR + exhaustive evaluation over the ordering table; receiver-chain provenance of counted collections",
             text="Decides that both quorum operands count one set of voter ids (distinctness by construction), that the threshold expression equals 2*active > voters on the full table 0<=active<=voters<=8 whatever its spelling, that healthy is its conjunction with the leader test, and that removing a member removes every configuration entry naming its id. Together with the counting lemma (stated, not re-proved) this is the statement for health_status.", ref="§5 C33"),
 "C31": dict(tech="dominance of removal over insertion in coroutine MIR; closure-predicate extraction and evaluation over index orderings {i-1,i,i+1}; branch-sensitive field-read placement",
             text="Decides the three clauses structurally for every history: append removes entries >= the new index before every push; snapshot compaction keeps exactly entries > the recorded snapshot index; last index/term falls back to the snapshot only for an empty log.", ref="§5 C31"),
 "C03": dict(tech="identity-flow (def-use) of the cache key and cached value; normaliser verified against delimiter/whitespace sets read from cypher.pest; call-graph purity of parse_query",
             text="Decides jointly sufficient conditions on every path of cached_parse: key identity up to a whitespace normaliser that provably acts only outside string/comment-bearing queries and only on grammar whitespace; stored value = parse of the same string; hit returns its clone; parse is pure; the key is not edited in place after normalisation.", ref="§5 C03"),
 "C24": dict(tech="control-dependence of the accepting return on a classifier call over the same string; classifier body checked to return only false or !plan(parse(stmt)).is_write; derived mutating-operator set (what next_mut can reach) vs the is_write of every ExecutionPlan literal rooted in such an operator (forward taint + per-path flag fixpoint)",
             text="Decides, for every path of text_to_cypher, that a statement is handed back only when plan(parse(stmt)).is_write is false (parse/plan failure rejects), and that every plan whose root is built from an operator able to reach a store/index mutator is marked is_write on the path that builds it. Sufficient for the property up to the operators' own effects (C04).", ref="§5 C24"),
 "C23": dict(tech="data-dependence of the routing branch on an engine classifier (not text predicates); dominance of the is_write refusal in the read executor; CHA call-graph unreachability of index-manager mutators from the read path; planner marks every plan rooted in a mutating operator (shared with C24)",
             text="Decides that both front ends route, on every path, on the engine's own plan classification of the executed string, that this classification marks every plan built from a mutating operator, that the read executor refuses write plans before pulling operators, and that no interior-mutable index mutator is reachable from it. Row/JSON equality between front ends is not decided.", ref="§5 C23"),
 "C17": dict(tech="CFG rule on scan loops (record uses behind key-vs-prefix test), dominance of tenant validation over RocksDB calls, separator agreement from format templates",
             text="Decides isolation structurally for every accepted tenant id: scans stop at the prefix, ids containing the separator are rejected before any key is built, all key builders / prefixes / listing share the separator.", ref="§5 C17"),
 "C15": dict(tech="error-handling idiom rule on read sites, def-use of the sequence initialiser to a record-decoding function, field-coverage effect rule, write-order dominance",
             text="Decides torn-tail handling at both reads of replay, sequence continuation from decoded log contents, checksum field coverage (one known finding: sequence not covered) and append's write order. Byte-level bincode behaviour is not decided.", ref="§5 C15"),
 "C16": dict(tech="dominance (log-before-data) and must-pass-through (every path append -> Ok meets a storage write or the not-found branch of a storage read) over MIR CFGs; call-graph fact that recover never replays the log",
             text="Decides that every acknowledged entry kind has a storage effect on every path (necessary because recovery reads storage only) that the log write precedes the storage write, and that no Ok is constructed before the append. Value equality of recovered entities is not decided.", ref="§5 C16"),
 "C18": dict(tech="lock-scope rule (quota check and increment inside one write-guard live range of one function), dominance over I/O, release on error exits, assign-vs-add classification of usage writes",
             text="Decides the race clause for every interleaving: check and count cannot be separated by another writer because they share one critical section; reservation precedes I/O and is released on failure; recovery assigns usage.", ref="§5 C18"),
 "C14": dict(tech="must-pass-through / dominance over the CFG of persist_snapshot with path-role classification of std::fs calls (every CFG edge between effect calls is a crash point); branch separation of the persist error; single-flag path refinement for the boot gate",
             text="Decides the crash clause on every path of persist_snapshot (no early destruction, write->fsync->rename->dir fsync->marker->fsyncs), that restore needs both artefacts, that a persist failure is not acknowledged, plus the boot-restore and cumulativeness clauses (two known findings).", ref="§5 C14"),
 "C19": dict(tech="call-graph reachability matrix (front end x mutation kind) to persistence functions with a storage effect; boot path reachability",
             text="Decides a necessary condition per cell: without a path from the endpoint's write branch to a persistence call with a storage effect, an acknowledged write of that kind cannot survive a restart. Ten cells fail today (known findings). Also decides that every entity value of the result rows reaches its persist call and that a failed persist call is never acknowledged.", ref="§5 C19"),
 "C32": dict(tech="HIR match-arm facts (variant -> callee sets) for the state machine, shared must-pass storage-effect rule (C16), CHA reachability for nondeterminism sources, must-pass in RaftNode::write",
             text="Decides the wiring of each replicated request kind to its own persistence function with a storage effect, error surfacing, determinism of apply (no RNG/env/clock outside entity timestamps), apply-before-acknowledge, that a refused creation is refused before anything is written (shared with C18), and (shared with C16) that an update merges with the update winning and nothing is acknowledged unlogged.", ref="§5 C32"),
 "C06": dict(tech="transitive field write/read effects over the call graph (mutator kind table), representation-completeness of deleting mutators vs creators/compaction, raw-handle bypass inventory; closure-predicate analysis of adjacency removals (by relationship id), dominance of endpoint liveness tests over adjacency writes, per-function field-read coherence of tier pairs",
             text="Decides which representations of an edge/node each mutator maintains: a deleting mutator that recycles ids must cover every representation creators and compaction write (three known findings: the frozen CSR tier), counts read only maintained data, creators are complete, labels of stored nodes change only through index-maintaining methods, adjacency entries are removed by relationship id only, every creator tests both endpoints, read views read whole (frozen, buffer) pairs of one direction, finish_bulk_load rebuilds unconditionally, and a failed mutator has not handed an id back to the allocator.", ref="§5 C06"),
 "C07": dict(tech="copy-on-write guard rule on functions taking last_mut of a version chain; generic-instantiation match for flatten over Vec<Vec<Node>>; chain-emptying callee class in delete_node; reachability of last_mut from the older-version side avoiding the clone push; write-effect pairing and base-image provenance for the relationship version log",
             text="Decides the three structural ways versioned reads break: in-place mutation of an old version (one known finding: the raw get_node_mut handle), scans enumerating all versions, deletion leaving older versions; and for relationships that every property change is logged and the first logged write keeps the state it replaces (both fixed).", ref="§5 C07"),
 "C08": dict(tech="closure-predicate evaluation over version orderings, range-type and def-use check of the drain bound, aggregate shape of the watermark",
             text="Decides that GC keeps the latest version at or below the watermark (rposition predicate class, exclusive drain of exactly that index) and that the automatic watermark is the min start version of active transactions.", ref="§5 C08"),
 "C09": dict(tech="dominance / must-pass obligations over the MIR of commit/abort, predicate evaluation of the conflict test, per-variant read-version table from the discriminant switch",
             text="Decides the per-call obligations of first-committer-wins (status gate, strict conflict predicate on both write sets, strictly increasing version on every success, terminal statuses) and the read version per isolation level. Interleaving enumeration is not needed for these (commit takes &mut self) and not claimed beyond them.", ref="§5 C09"),
 "C02": dict(tech="T-PAIR maintenance matrix (call-graph reachability from each kill mutator to index_remove), forward taint from the index-predicate position to a removal from the residual list, shared frozen-tier effect rule; field-read coherence of (frozen, buffer) pairs per read view and caller-merges-both-tiers; no index removal after insertion within one pass (CFG without back edges)",
             text="Decides that every way a node leaves an indexed (label, property, value) removes it from the index, that index-derived predicates remain in the residual filter, that maintenance never removes what it just inserted, that a literal-first comparison is mirrored (not negated) before it is served from an index, that no evaluation error is dropped in a filter, that every adjacency read view reads both tiers of one direction, and (with C06) the deletion clause of the tier. Equivalence of the two planners / parallel filter is not decided.", ref="§5 C02"),
 "C10": dict(tech="HIR match-arm facts of the Ord / Hash / rank impls (diagonal and cross-arm coverage, float primitive per arm, tag literals) plus impl-kind facts (derived vs manual); dominance of NaN tests over the delegation to the index order; call inventory of comparator bodies (no derived ==)",
             text="Decides comparator-law lints: one float primitive per comparator (fixed), diagonal and same-bucket cross coverage, Hash exhaustive with distinct tags, rank exhaustive, the Eq/Ord/Hash impl-kind disagreement (one known finding), NaN decided for every pair before ORDER BY delegates to the index order (fixed), and no comparator shortcut through the derived ==. Transitivity over values is not decided.", ref="§5 C10"),
 "C11": dict(tech="T-PAIR matrix on the constraint index, order of lookup vs writes in set_node_property, use-def check for discarded Results of constraint-checking writes in the executor; mutation-point analysis (no error exit after a mutation in a store mutator); dominance of registration over backfill; gain-side obligations per mutator kind; reachability of the release from both sides of the null test",
             text="Decides that each way a node gives up a constrained value releases it, that the check precedes the writes, that each way a node starts to hold one (SET, label add) checks and registers it, that a null write releases, that a constraint is registered before its backfill, that a refused write leaves index and node untouched (validate-then-mutate), and that write operators do not swallow the violation.", ref="§5 C11"),
 "C28": dict(tech="T-PAIR staleness matrix over edge/property mutators, field-effect check of the stale fallback, accessor inventory of planner-side users",
             text="Decides completeness of staleness marking and measure propagation over the mutator table that no skip of a measure write depends on the value written, and that rewrites see only usable entries. Encodings and roll-up arithmetic are not decided.", ref="§5 C28"),
 "C29": dict(tech="T-PAIR matrix on the vector index, field-read effect of the declared metric, sibling liveness-validation rule between index-consuming operators; provenance of the vector argument at every indexing site; constant inventory of the cosine guard",
             text="Decides which mutators keep the vector index current (none remove: five known findings), whether the declared metric is used at all (known finding) that the consumer validates hits (fixed), that every indexing site converts property values through to_vector (both representations), and that the cosine guard compares norms with zero only (scale invariance). Ranking values and recall are not decided.", ref="§5 C29"),
 "C01": dict(tech="branch-local callee classification in the multi-label scan, planner site rules (labels passed, residual kept), HIR arm sibling comparison of the six evaluator copies with a frozen, condition-checked exception table; representation-invariant rule for flag-selected accumulators (sum)",
             text="Decides three structural clauses of read semantics: conjunctive multi-label scan (known finding: pinned by an existing test), index scans keep all labels and a residual, evaluator siblings agree, and sum() folds its integer total when it switches to float. The rest of openCypher semantics is not decided.", ref="§5 C01"),
 "C04": dict(tech="dominance / branch rules in DeleteOperator and MergeOperator MIR, use-def check for discarded store Results with an automatically recognised rollback-on-error idiom, field-read inventory for row-map-only decisions; content taint (no scalar pass-through) from input property maps to returned maps; barrier-drain CFG rule",
             text="Decides refusal of connected plain DELETE, that write operators surface store errors, that MERGE always searches before creating (per row, from the store), keeps every pattern property, that no write operator turns an evaluation error into a value, that WITH drains its input before emitting, and which existence decisions ignore the column store (known finding).", ref="§5 C04"),
 "C05": dict(tech="must-pass-through of a compensating store write on every error exit of each write driver (callers of dyn next_batch_mut outside the operator tree); shared discarded-Result rule; mutation-point analysis of every fallible store mutator; barrier-drain CFG rule",
             text="Decides the necessary condition for statement atomicity — some compensation on every error exit after the first pull — which fails today (known finding); that each store call and each schema statement on its own is all-or-nothing (no error exit after a mutation point), that a failing row leaves no half-built node (8 known findings), that WITH drains before emitting, and that failures are not swallowed.", ref="§5 C05"),
 "C25": dict(tech="consumer classification of every numeric parse Result in the parser (including call sites of the generic parse helper), cast sinks on parsed numbers; panic-site inventory justified by grammar facts read from cypher.pest; dominance of the nesting-depth guard over the recursive parse",
             text="Decides the numeric clause: every numeral/bound parse is surfaced as an error, never unwrapped, defaulted or dropped, and parsed numbers are not narrowed. The no-panic clause is decided as: every panic-capable site over pest pairs is justified by a grammar fact or a reviewed entry, and nesting depth is bounded before the recursive parser runs.", ref="§5 C25"),
 "C35": dict(tech="HIR arm facts for every match on Expression::Parameter and for substitute_expr (variant coverage, recursion into Expression-typed children from ADT facts), order of substitution vs planning; must-pass of the Query field reads in substitute_params; provenance of the row-lookup key in the Parameter arms",
             text="Decides the only ways a parameterised run could silently differ: a defaulting evaluation arm, inexact/non-recursive substitution, planning before substitution, a substitution skipped on anything but empty parameter maps, a parameter looked up under its bare name (a row variable), an ORDER-BY-bearing field of Query or the clause pipeline that the substitution does not visit on every path, or an evaluation error dropped (unwrap_or / Err(_) arm / wildcard arm) outside the reviewed sort-key sites.", ref="§5 C35"),
 "C12": dict(tech="HIR arm facts of the two codec functions (tag literals, constructed variants), identity-op classification of the String arm, def-use of the label argument to create_node*, serde-struct constant flow for record kinds; shared C06/C07 rules",
             text="Decides agreement of the writer's and reader's tag tables and record kinds, identity decoding of strings, no invented label, one version per exported node, imported labels indexed, both property tiers merged into every node record, an id set that cannot drop ids (length evaluated against max/64), a record for every iterated item, and no record field written as a constant. Value-level round trip (non-finite floats, __type-keyed maps) is not decided.", ref="§5 C12"),
 "C13": dict(tech="def-use coverage of every store-mutating call in the import against the rollback's record (created_nodes), transitive write effects to find the mutators, reviewed neutral-effect exception",
             text="Decides which mutations of a failing import are outside the rollback's reach (eight known findings: merges into existing nodes, edges between pre-existing nodes, hierarchy declarations), and that a read error of the snapshot stream always fails the import.", ref="§5 C13"),
 "C34": dict(tech="CHA call-graph unreachability of unseeded randomness and rayon reductions from every solve() inside the crate, sibling bound-repair rule, guarded-sampling rule (dominating lower<upper comparison over the Range's own operands); ordering-domain reachability of the firefly move mark on the equal-fitness outcome; per-solver history classification (loop-carried holder / greedy member writes / elitism) over MIR; must-pass of a redefinition between a placeholder fitness write and the result",
             text="Decides seed-determinism prerequisites (including: no read of the thread count), bound repair in every solver, and that no bounds-derived half-open range is sampled unguarded (fixed), the history clause for all 25 single-objective solvers (running-minimum holder, greedy population writes, or a reviewed elitism mechanism; Firefly: a tie never moves a firefly), and that a placeholder fitness cannot reach the result (fixed: GWO with zero iterations). Dominance in multi-objective fronts and fitness consistency beyond the placeholder rule are not decided.", ref="§5 C34"),
 "C36": dict(tech="aggregate/arm tables of the three rio wrapper files compared per format and across formats",
             text="Weak: decides the wrappers' term/literal variant tables, writer vs reader, and that lexical values / the formatter output cross the wrappers unchanged. Escaping of string content inside rio_* is not decided.", ref="§5 C36"),
}

NA = {
 "C26": "optimality of paths, flows, spanning trees and counts is a relation between computed numbers and a mathematical definition over all graphs; nothing in the shape of the code separates a correct implementation from a subtly wrong one (no structural clause worth claiming)",
 "C27": "numerical fixed-point iteration and tie-breaking over runtime scores; the sequential and parallel branches are two spellings of one formula whose equality is arithmetic, not structure",
 "C30": "correctness lives in index arithmetic across sparse/dense promotion, rebase and demotion under arbitrary sequences; the only shape facts (variant-exhaustive matches) are already enforced by rustc; a proof would be deductive/bounded verification, another technique family",
}

PENDING = "check not yet built in this revision (static rule designed in DESIGN.md §5; will be claimed once it decides the tree without false alarm)"

def main():
    props = [json.loads(l) for l in open(os.path.join(VERIF, "properties.jsonl"))]
    checks = []
    na = []
    for p in props:
        pid = p["id"]
        if pid in CHECKS:
            c = CHECKS[pid]
            checks.append({
                "property_id": pid,
                "quick_cmd": "./check %s --tier quick" % pid,
                "thorough_cmd": "./check %s --tier thorough" % pid,
                "evidence_file": "evidence/%s.json" % pid,
                "replay_cmd_template": "cat {path}",
                "engine": "sgfacts+sgcheck",
                "level_claimed": {"category": c.get("level", "other"), "text": c["text"], "design_ref": c["ref"]},
                "level_note": TRUST,
                "technique": "static analysis: " + c["tech"],
            })
        else:
            na.append({"property_id": pid, "reason": NA.get(pid, PENDING)})
    m = {
        "version": 1,
        "setup_cmd": "./setup.sh",
        "hooks": {
            "guard": "samyama_ai_samyama_graph_verif",
            "enable": "none needed: static analysis reads the unmodified build (no hook commits in /repo)",
            "baseline_off_cmd": "cd /repo && cargo nextest run --workspace --no-fail-fast --tool-config-file pb:/w/lib/nextest.toml --profile pb --test-threads 8 --offline || cargo test --workspace --no-fail-fast --offline",
            "source_commits": [],
            "add_only": True,
        },
        "engines": [
            {"name": "sgfacts", "path": "sgfacts/", "serves_properties": sorted(CHECKS), "kind_free_text": "rustc_private driver (RUSTC_WORKSPACE_WRAPPER under cargo +nightly check): MIR (mir_promoted) CFGs with resolved callees, field effects, ADTs, HIR match arms"},
            {"name": "sgcheck", "path": "sgcheck/", "serves_properties": sorted(CHECKS), "kind_free_text": "Python rule library: call graph + CHA, dominators / must-pass-through, def-use, taint with guard facts, typestate, arm/sibling rules, known-findings, evidence"},
        ],
        "checks": checks,
        "not_applicable": na,
        "notes": "Technique family: static analysis only. Every check re-extracts facts from /repo's current working tree (content-addressed cache) and reports file:line, function and rule instance for each violation. known_findings.json lists genuine defects recorded rather than repaired and the fix: commits made.",
    }
    json.dump(m, open(os.path.join(VERIF, "MANIFEST.json"), "w"), indent=1)
    print("checks:", len(checks), "not_applicable:", len(na))

main()
