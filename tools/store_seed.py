#!/usr/bin/env python3
"""store_seed.py <wt_name> <i> <ID> <confirm_log> <caught_by text>
Copies a confirmed seed from /tmp/wt_<name>/out into /verif/seeded/<ID>-<n>/ and records which
rule keys report it on the current tree (applies it to /repo, runs ./check, undoes it)."""
import json, os, re, shutil, subprocess, sys
name, i, pid, log, caught = sys.argv[1:6]
out = "/tmp/wt_%s/out" % name
line = [l for l in open(log) if l.startswith("SEED %s/%s " % (name, i))]
assert line, "no confirmation line"
line = line[-1].strip()
assert "clean: test result: ok. 1 passed" in line and ("FAILED" in line.split("mutated:")[1].split("| module")[0] or "panicked" in line.split("mutated:")[1].split("| module")[0]) and "module tests with patch: test result: ok" in line, line
n = 1
while os.path.exists("/verif/seeded/%s-%d" % (pid, n)):
    n += 1
d = "/verif/seeded/%s-%d" % (pid, n)
os.makedirs(d)
shutil.copy(os.path.join(out, "patch%s.diff" % i), os.path.join(d, "patch.diff"))
shutil.copy(os.path.join(out, "demo%s.rs" % i), os.path.join(d, "demo.rs"))
m = json.load(open(os.path.join(out, "meta%s.json" % i)))
m["confirmed_by_me"] = line
m["base_commit"] = subprocess.check_output(["git", "-C", "/tmp/wt_%s" % name, "rev-parse", "--short", "HEAD"], text=True).strip()
keys = []
if subprocess.call(["git", "-C", "/repo", "apply", "--check", os.path.join(d, "patch.diff")]) == 0:
    subprocess.check_call(["git", "-C", "/repo", "apply", os.path.join(d, "patch.diff")])
    try:
        p = subprocess.run(["/verif/check", pid], capture_output=True, text=True)
        keys = [re.sub(r" at .*", "", l.strip()[len("violated: "):]) for l in p.stdout.splitlines() if l.strip().startswith("violated:")]
        m["check_exit_on_seed"] = p.returncode
    finally:
        subprocess.check_call(["git", "-C", "/repo", "checkout", "--", "."])
else:
    m["check_exit_on_seed"] = "patch does not apply to the current /repo HEAD"
m["caught_keys"] = keys
m["detected"] = bool(keys) or m.get("check_exit_on_seed") == 1
m["caught_by"] = caught
json.dump(m, open(os.path.join(d, "meta.json"), "w"), indent=1)
print(d, m["check_exit_on_seed"], keys[:3])
