#!/usr/bin/env python3
"""Experiment: serve inlined MIR for every function under the given prefixes and report how the verdicts of the given
properties change on the unchanged tree and on the given refactor facts.  usage: inl_experiment.py <prefix,prefix> <Cnn,Cnn> <Rn,Rn>"""
import importlib, json, os, sys
sys.path.insert(0, os.path.dirname(os.path.dirname(os.path.abspath(__file__))))
from sgcheck import facts as fm, selftest, inline
from sgcheck.callgraph import CallGraph
prefixes = sys.argv[1].split(",")
pids = sys.argv[2].split(",")
names = sys.argv[3].split(",") if len(sys.argv) > 3 else []
ref = json.load(open("/verif/.work/neg_ref.json"))["v"]

def patch(F):
    orig = F.mir
    F._orig_mir = orig
    def mir(p):
        if any(p.startswith(x) for x in prefixes):
            m = inline.inlined_mir(F, p, inline.same_impl(p), 2)
            return m if m is not None else orig(p)
        return orig(p)
    F.mir = mir
    return F

def run(F, label):
    cg = CallGraph(F)
    for pid in pids:
        mod = importlib.import_module("sgcheck.rules." + pid.lower())
        pr = selftest._Probe(pid, F)
        try:
            mod.run(pr, F, cg)
        except Exception as e:
            import traceback; traceback.print_exc()
            pr.violations.append("checker|crash|%s" % type(e).__name__)
        ex = [k for k in sorted(set(pr.violations)) if k not in ref.get(pid, [])]
        print(label, pid, "same-as-reference" if not ex else ex[:6])

run(patch(fm.Facts(fm.extract(repo=None, tier="quick"))), "BASE")
for n in names:
    run(patch(fm.Facts("/var/tmp/negfacts/" + n)), n)
