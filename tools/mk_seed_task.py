#!/usr/bin/env python3
"""mk_seed_task.py <ID> [test-filter]  -> creates /tmp/wt_<id> (+ target) and writes INSTRUCTIONS.md there
(property text only; nothing from /verif's machinery)."""
import json, subprocess, sys
pid = sys.argv[1]
filt = sys.argv[2] if len(sys.argv) > 2 else ""
import os
ROUND = os.environ.get("SEED_ROUND", "")
n = pid.lower() + ROUND
subprocess.check_call(["/verif/tools/mk_worktree.sh", n])
p = [json.loads(l) for l in open("/verif/properties.jsonl") if json.loads(l)["id"] == pid][0]
mech = "\n".join(" - %s (%s)" % (m["name"], m["where"]) for m in p["anchors"].get("mechanism", []))
txt = f"""You are working in a scratch git worktree of the Rust project samyama-graph (a graph database: OpenCypher
parser, planner/executor, in-memory graph store, RocksDB persistence, RESP/HTTP front ends, raft) at /tmp/wt_{n}.
Work ONLY inside /tmp/wt_{n} (never touch /repo or /verif). There is no network: always pass `--offline` to cargo
and always set `CARGO_TARGET_DIR=/tmp/wt_{n}_target` (a pre-warmed build cache; the first build of the crate
itself takes a few minutes). Run tests with e.g.
`CARGO_TARGET_DIR=/tmp/wt_{n}_target cargo test --offline --lib -p samyama {filt or '<module>::'}` (filters are
substring matches on test paths); integration tests live in tests/*.rs (`--test <name>`).

PROPERTY {pid} — {p['title']} (must always hold for this code base):
"{p['statement']}"

Quantifies over: {p['quantifier']['text']}

Why the existing tests cannot settle it: {p['why_tests_cant']}

Relevant code: {', '.join(p['anchors'].get('files', []))}
{mech}
(line numbers are approximate; the code has moved since they were written)

TASK: produce TWO different, independent source changes (mutants) to the non-test code that each BREAK this
property while (1) still compiling, and (2) still passing the existing test suite (at least
`cargo test --offline --lib -p samyama` must pass unedited; also run the integration tests that touch the code
you changed). Each change must be realistic — the kind of regression a refactor, optimisation or
"simplification" could introduce — and must need something SPECIFIC to manifest (a particular input value,
operation order, boundary, configuration, or error path), not something ordinary use would expose at once.
The two mutants should be of different kinds and touch different functions. Do not re-introduce a defect by
simply reverting a recent commit verbatim; make a new change. Prefer parts of the relevant code that look
least exercised by the existing tests, and clauses of the property other than the most obvious one.

For each mutant i in {{1,2}} write into /tmp/wt_{n}/out/:
 - patch<i>.diff : `git diff` of the source change only (apply-able with `git apply` on a clean checkout of the
   same commit; no test changes inside it),
 - demo<i>.rs : a self-contained `#[test]` function (plus any `use` lines it needs, written inside the function
   body or as fully-qualified paths) that can be pasted at the end of the `mod tests` block of ONE source file
   (name it in meta) and that FAILS with the change applied and PASSES without it. Verify both directions
   yourself by actually running it.
 - meta<i>.json : {{"property":"{pid}","summary":"...","needs_to_manifest":"...","demo_file":"src/...rs",
   "commands_run":["..."],"existing_tests_pass":true/false}}
DISK NOTE: the disk is shared and limited. Each integration-test binary is ~380 MB: run integration tests one
at a time (`--test <name>`), at most the handful that touch the code you changed, and delete the binary from
your CARGO_TARGET_DIR (debug/deps/<name>-*) after each run. Never build the whole workspace's tests at once.

Leave the worktree clean (git checkout -- .) when you are done; only the files in out/ matter. Keep your final
report short (what each mutant is, what it needs to manifest, and the test results you saw).
"""
open("/tmp/wt_%s/INSTRUCTIONS.md" % n, "w").write(txt)
print("/tmp/wt_%s/INSTRUCTIONS.md" % n)
