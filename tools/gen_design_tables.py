#!/usr/bin/env python3
"""Rewrite the generated blocks of DESIGN.md (between <!-- GEN:x --> and <!-- /GEN:x -->) from
known_findings.json and seeded/*/meta.json, so the document cannot drift from the committed data."""
import glob, json, os, re
V = os.path.dirname(os.path.dirname(os.path.abspath(__file__)))
kf = json.load(open(os.path.join(V, "known_findings.json")))

def fixed_block():
    out = ["| property | commit | what failed |", "|---|---|---|"]
    for f in kf["fixed"]:
        e = f["entry"]
        what = e.split(f["commit"], 1)[-1].strip() if f["commit"] in e else e
        out.append("| %s | `%s` | %s |" % (f["property"], f["commit"], what.replace("|", "\\|")))
    return "\n".join(out)

def findings_block():
    out = []
    cur = None
    for f in sorted(kf["findings"], key=lambda x: (x["property"], x["key"])):
        if f["property"] != cur:
            cur = f["property"]
            out.append("\n**%s**\n" % cur)
        out.append("* `%s` — %s  \n  *Not repaired because:* %s" % (f["key"], f["what"], f["why_not_fixed"]))
    return "\n".join(out)

def seeds_block():
    rows = ["| seed | property | what the change does | needs to manifest | caught by |", "|---|---|---|---|---|"]
    for d in sorted(glob.glob(os.path.join(V, "seeded", "*"))):
        mp = os.path.join(d, "meta.json")
        if not os.path.exists(mp):
            continue
        m = json.load(open(mp))
        rows.append("| %s | %s | %s | %s | %s |" % (os.path.basename(d), m.get("property", "?"), str(m.get("summary", ""))[:260].replace("|", "\\|").replace("\n", " "),
                                                   str(m.get("needs_to_manifest", ""))[:200].replace("|", "\\|").replace("\n", " "), (str(m.get("caught_by", "—")) + (" — reported as `" + "`, `".join(k.replace("|", "¦") for k in m["caught_keys"][:2]) + "`" if m.get("caught_keys") else "")).replace("|", "\\|")))
    return "\n".join(rows)

def counts_block():
    import subprocess
    man = json.load(open(os.path.join(V, "MANIFEST.json")))
    try:
        nfix = len([l for l in subprocess.check_output(["git", "-C", "/repo", "log", "--format=%s", "158e422..HEAD"], text=True).splitlines() if l.startswith("fix:")])
    except Exception:
        nfix = len({f["commit"] for f in kf["fixed"]})
    metas = [json.load(open(m)) for m in glob.glob(os.path.join(V, "seeded", "*", "meta.json"))]
    missed = len([m for m in metas if "MISSED" in str(m.get("caught_by", "")) or "NOT DETECTED" in str(m.get("caught_by", "")) or m.get("detected") is False])
    undet = len([m for m in metas if m.get("detected") is False])
    import glob as _g
    rmetas = [json.load(open(x)) for x in sorted(_g.glob("/verif/refactors/R*/meta.json"))]
    props = sorted({m.get("property") for m in metas})
    return ("Outcome of building it (details in §8): %d properties claimed, %d not applicable;\n"
            "**%d `fix:` commits** in `/repo` (each validated against the unedited 3151-test suite),\n"
            "**%d known findings** recorded by exact key, %d seeded regressions from independent\n"
            "sub-agents stored under `seeded/` covering %d properties (%d caught by the rules as they\n"
            "stood when the seed arrived, %d missed at first; %d of those remain undetected, the rest are\n"
            "caught after strengthening — §9). %d behaviour-preserving refactors from independent sub-agents are\n"
            "stored under `refactors/` as false-alarm tests: %d are silent for every property and enforced,\n"
            "%d still draw a report and are listed as known false alarms (§7, 12n)."
            % (len(man["checks"]), len(man.get("not_applicable", [])), nfix, len(kf["findings"]), len(metas), len(props), len(metas) - missed, missed, undet, len(rmetas), len([m for m in rmetas if m.get("silent")]), len([m for m in rmetas if not m.get("silent")])))

blocks = {"FIXED": fixed_block(), "FINDINGS": findings_block(), "SEEDS": seeds_block(), "COUNTS": counts_block()}
p = os.path.join(V, "DESIGN.md")
s = open(p).read()
for k, v in blocks.items():
    s = re.sub(r"(<!-- GEN:%s -->).*?(<!-- /GEN:%s -->)" % (k, k), lambda m: m.group(1) + "\n" + v + "\n" + m.group(2), s, flags=re.S)
open(p, "w").write(s)
print("DESIGN.md tables regenerated")
