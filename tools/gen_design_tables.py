#!/usr/bin/env python3
"""Rewrite the generated blocks of DESIGN.md (between <!-- GEN:x --> and <!-- /GEN:x -->) from
known_findings.json and seeded/*/meta.json, so the document cannot drift from the committed data."""
import glob, json, os, re
V = os.path.dirname(os.path.dirname(os.path.abspath(__file__)))
kf = json.load(open(os.path.join(V, "known_findings.json")))

def fixed_block():
    out = ["| property | commit | what failed |", "|---|---|---|"]
    for f in kf["fixed"]:
        e = f["entry"]
        what = e.split(f["commit"], 1)[-1].strip() if f["commit"] in e else e
        out.append("| %s | `%s` | %s |" % (f["property"], f["commit"], what.replace("|", "\\|")))
    return "\n".join(out)

def findings_block():
    out = []
    cur = None
    for f in sorted(kf["findings"], key=lambda x: (x["property"], x["key"])):
        if f["property"] != cur:
            cur = f["property"]
            out.append("\n**%s**\n" % cur)
        out.append("* `%s` — %s  \n  *Not repaired because:* %s" % (f["key"], f["what"], f["why_not_fixed"]))
    return "\n".join(out)

def seeds_block():
    rows = ["| seed | property | what the change does | needs to manifest | caught by |", "|---|---|---|---|---|"]
    for d in sorted(glob.glob(os.path.join(V, "seeded", "*"))):
        mp = os.path.join(d, "meta.json")
        if not os.path.exists(mp):
            continue
        m = json.load(open(mp))
        rows.append("| %s | %s | %s | %s | %s |" % (os.path.basename(d), m.get("property", "?"), str(m.get("summary", ""))[:260].replace("|", "\\|").replace("\n", " "),
                                                   str(m.get("needs_to_manifest", ""))[:200].replace("|", "\\|").replace("\n", " "), str(m.get("caught_by", "—")).replace("|", "\\|")))
    return "\n".join(rows)

blocks = {"FIXED": fixed_block(), "FINDINGS": findings_block(), "SEEDS": seeds_block()}
p = os.path.join(V, "DESIGN.md")
s = open(p).read()
for k, v in blocks.items():
    s = re.sub(r"(<!-- GEN:%s -->).*?(<!-- /GEN:%s -->)" % (k, k), lambda m: m.group(1) + "\n" + v + "\n" + m.group(2), s, flags=re.S)
open(p, "w").write(s)
print("DESIGN.md tables regenerated")
