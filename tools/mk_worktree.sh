#!/bin/bash
# usage: mk_worktree.sh <name>  -> /tmp/wt_<name> (worktree of /repo HEAD) and /tmp/wt_<name>_target (copy of the lib-test template)
set -e
n=$1
git -C /repo worktree add --detach /tmp/wt_$n HEAD >/dev/null 2>&1
if [ -d /var/tmp/sgtpl ]; then cp -a /var/tmp/sgtpl /tmp/wt_${n}_target; else mkdir -p /tmp/wt_${n}_target; fi   # sgtpl = optional pre-built lib-test target template (saves ~10 min per worktree)
mkdir -p /tmp/wt_$n/out
echo /tmp/wt_$n
