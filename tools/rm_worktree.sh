#!/bin/bash
n=$1
git -C /repo worktree remove --force /tmp/wt_$n 2>/dev/null
rm -rf /tmp/wt_$n /tmp/wt_${n}_target
git -C /repo worktree prune
