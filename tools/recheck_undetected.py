#!/usr/bin/env python3
"""Re-evaluate stored seeds marked `"detected": false` with the current rules (scratch copy of /repo + patch);
flip the flag and record the reporting keys when a later rule catches them."""
import glob, importlib, json, os, shutil, subprocess, sys, tempfile
sys.path.insert(0, os.path.dirname(os.path.dirname(os.path.abspath(__file__))))
from sgcheck import facts as fm, selftest
from sgcheck.callgraph import CallGraph

for meta_p in sorted(glob.glob("/verif/seeded/*/meta.json")):
    meta = json.load(open(meta_p))
    if meta.get("detected") is not False:
        continue
    d = os.path.dirname(meta_p)
    name = os.path.basename(d)
    pid = name.split("-")[0]
    mod = importlib.import_module("sgcheck.rules." + pid.lower())
    tmp = tempfile.mkdtemp(prefix="sgre_", dir="/var/tmp")
    try:
        copy = os.path.join(tmp, "repo")
        top = os.path.abspath(fm.REPO)
        shutil.copytree(top, copy, ignore=lambda dd, names: [n for n in names if n == "target" or (os.path.abspath(dd) == top and n in selftest.SKIP)])
        rc = subprocess.call(["patch", "-p1", "-s", "-i", os.path.join(d, "patch.diff")], cwd=copy)
        if rc != 0:
            print(name, "patch does not apply to the current tree")
            continue
        fdir = fm.extract(repo=copy, tier="quick")
        F = fm.Facts(fdir)
        probe = selftest._Probe(pid, F)
        mod.run(probe, F, CallGraph(F))
        shutil.rmtree(fdir, ignore_errors=True)
        print(name, "->", probe.violations[:4])
        if probe.violations and "--write" in sys.argv:
            meta["detected"] = True
            meta["caught_keys"] = probe.violations[:6]
            meta["caught_by"] = "detected since " + (sys.argv[sys.argv.index("--write") + 1] if len(sys.argv) > sys.argv.index("--write") + 1 else "a later rule") + "; earlier: " + str(meta.get("caught_by", ""))[:160]
            json.dump(meta, open(meta_p, "w"), indent=1)
    finally:
        shutil.rmtree(tmp, ignore_errors=True)
