#!/usr/bin/env python3
"""usage: neg_all.py <patch.diff>...   For each behaviour-preserving patch: apply to a scratch copy of /repo, extract
facts once, run the rules of ALL claimed properties and print what they report beyond the unchanged tree."""
import glob, importlib, json, os, shutil, subprocess, sys, tempfile
sys.path.insert(0, os.path.dirname(os.path.dirname(os.path.abspath(__file__))))
from sgcheck import facts as fm, selftest
from sgcheck.callgraph import CallGraph

PIDS = sorted(os.path.basename(p)[:-3].upper() for p in glob.glob("/verif/sgcheck/rules/c[0-9][0-9].py"))


def run_all(F):
    out = {}
    cg = CallGraph(F)
    for pid in PIDS:
        mod = importlib.import_module("sgcheck.rules." + pid.lower())
        pr = selftest._Probe(pid, F)
        try:
            mod.run(pr, F, cg)
        except Exception as e:
            pr.violations.append("checker|crash|%s:%s" % (type(e).__name__, str(e)[:80]))
        out[pid] = sorted(set(pr.violations))
    return out


ref_p = "/verif/.work/neg_ref.json"
head = subprocess.check_output(["git", "-C", fm.REPO, "rev-parse", "HEAD"], text=True).strip()
ref = None
if os.path.exists(ref_p):
    r = json.load(open(ref_p))
    if r.get("head") == head:
        ref = r["v"]
if ref is None:
    F0 = fm.Facts(fm.extract(repo=None, tier="quick"))
    ref = run_all(F0)
    json.dump({"head": head, "v": ref}, open(ref_p, "w"))
for patch in sys.argv[1:]:
    tmp = tempfile.mkdtemp(prefix="sgneg_", dir="/var/tmp")
    try:
        copy = os.path.join(tmp, "repo")
        top = os.path.abspath(fm.REPO)
        shutil.copytree(top, copy, ignore=lambda dd, names: [n for n in names if n == "target" or (os.path.abspath(dd) == top and n in selftest.SKIP)])
        rc = subprocess.call(["patch", "-p1", "-s", "-i", os.path.abspath(patch)], cwd=copy)
        if rc != 0:
            print("%s: does not apply" % patch)
            continue
        fdir = fm.extract(repo=copy, tier="quick")
        F = fm.Facts(fdir)
        got = run_all(F)
        shutil.rmtree(fdir, ignore_errors=True)
        extra = {pid: [k for k in v if k not in ref.get(pid, [])] for pid, v in got.items()}
        extra = {k: v for k, v in extra.items() if v}
        print("%s: %s" % (patch, "SILENT (all %d properties)" % len(PIDS) if not extra else "FALSE ALARMS " + json.dumps(extra)[:1500]))
    finally:
        shutil.rmtree(tmp, ignore_errors=True)
